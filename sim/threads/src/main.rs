//! C19 part 3: the codec under controlled thread schedules (shuttle).
//!
//!   rl2tp-dst-threads run --seed S --batches B --iters N --persist DIR
//!   rl2tp-dst-threads replay --seed S --batch K --schedule FILE
//!
//! A batch = one workload (call lists for T threads) drawn from the
//! simulator's PRNG stream ("C19-threads", batch index); each batch is run
//! for N iterations under shuttle's seeded random scheduler and N under
//! PCT (depth 3). rl2tp has no synchronisation primitive of its own, so the
//! scheduling points come from the seams: decoders read through a
//! `HookReader` and encoders write through a `HookWriter` whose every trait
//! method is a scheduling point (`sleep(0)`), exactly where a real caller's
//! reader or writer may block. Thread switches therefore happen *inside*
//! decode and encode calls (at every reader/writer call), between calls,
//! and at the results mutex. hide / reveal / get_length / Display have no
//! seam and are atomic with respect to the schedule.
//!
//! Output (stdout), one JSON object per line:
//!   {"batch":k,"threads":t,"calls":n,"iterations":i,"scheduler":"random"}
//!   {"failure":{...}}   on a violation

use rl2tp_dst::core::{install_silent_hook, Failure};
use rl2tp_dst::gen::Swarm;
use rl2tp_dst::props::c19::{gen_calls, perform, perform_hooked, Call};
use rl2tp_dst::rng::{mix2, run_seed, Rng};
use serde_json::json;
use shuttle::scheduler::{PctScheduler, RandomScheduler, ReplayScheduler};
use shuttle::sync::Mutex;
use shuttle::{Config, FailurePersistence, MaxSteps, Runner};
use std::sync::Arc;

fn arg(args: &[String], name: &str) -> Option<String> {
    args.iter().position(|a| a == name).and_then(|i| args.get(i + 1).cloned())
}

struct Workload {
    threads: usize,
    /// calls[t] = (global index, call)
    per_thread: Vec<Vec<(usize, Call)>>,
    expected: Vec<String>,
}

fn workload(seed: u64, batch: u64) -> Workload {
    let mut rng = Rng::new(run_seed(seed, "C19-threads", batch));
    let sw = Swarm::draw(&mut rng);
    let threads = *rng.pick(&[2usize, 2, 3, 4, 8, 16]);
    let per = if threads >= 8 { 2 } else { rng.urange(2, 5) };
    let calls = gen_calls(&mut rng, &sw, threads * per);
    let mut per_thread: Vec<Vec<(usize, Call)>> = vec![Vec::new(); threads];
    let mut all: Vec<Call> = Vec::new();
    for (i, c) in calls.into_iter().enumerate() {
        per_thread[i % threads].push((i, c.clone()));
        all.push(c);
    }
    let mut extra: Vec<Call> = Vec::new();
    // the same calls on every thread at once (identical headers, identical
    // inputs): the case in which a shared scratch value is most likely to
    // look right by accident and go wrong under an interleaving. Always one
    // control-message encode and one decode of its octets.
    {
        let m = rl2tp_dst::gen::gen_control(&mut rng, &sw, 300);
        let bytes = rl2tp_dst::model::spec_encode(&m);
        let shared = [
            Call::EncodeMsg(m),
            Call::Decode {
                bytes,
                opts: Some(rng.below(8) as u8),
            },
        ];
        for c in shared {
            let idx = expected_len(&per_thread);
            for t in 0..threads {
                per_thread[t].push((idx, c.clone()));
            }
            extra.push(c);
        }
    }
    all.extend(extra);
    // single-threaded reference results, computed before any thread exists
    let expected: Vec<String> = all.iter().map(perform).collect();
    Workload {
        threads,
        per_thread,
        expected,
    }
}

/// Next free global call index.
fn expected_len(per_thread: &[Vec<(usize, Call)>]) -> usize {
    per_thread
        .iter()
        .flatten()
        .map(|(i, _)| *i + 1)
        .max()
        .unwrap_or(0)
}

fn scenario(w: &Arc<Workload>) {
    let results: Arc<Mutex<Vec<(usize, String)>>> = Arc::new(Mutex::new(Vec::new()));
    let mut handles = Vec::new();
    for t in 0..w.threads {
        let w = w.clone();
        let results = results.clone();
        handles.push(shuttle::thread::spawn(move || {
            for (i, c) in &w.per_thread[t] {
                let hook = || shuttle::thread::sleep(std::time::Duration::from_millis(0));
                let r = perform_hooked(c, &hook);
                results.lock().unwrap().push((*i, r));
                // a scheduling point between calls (not yield_now: PCT
                // treats yields as a request to deprioritise)
                shuttle::thread::sleep(std::time::Duration::from_millis(0));
            }
        }));
    }
    for h in handles {
        h.join().unwrap();
    }
    let got = results.lock().unwrap();
    for (i, r) in got.iter() {
        if *r != w.expected[*i] {
            let cut = |s: &str| if s.len() > 160 { format!("{}...", &s[..160]) } else { s.to_string() };
            panic!(
                "C19-THREADS call #{i} ({}) returned {} under this schedule but {} single-threaded",
                w.per_thread.iter().flatten().find(|(j, _)| j == i).map(|(_, c)| c.name()).unwrap_or("?"),
                cut(r),
                cut(&w.expected[*i])
            );
        }
    }
}

fn config(persist: Option<&str>) -> Config {
    let mut cfg = Config::new();
    cfg.failure_persistence = match persist {
        Some(d) => FailurePersistence::File(Some(d.into())),
        None => FailurePersistence::None,
    };
    cfg.max_steps = MaxSteps::FailAfter(200_000);
    cfg.silence_warnings = true;
    cfg.stack_size = 0x40000;
    cfg
}

fn main() {
    let args: Vec<String> = std::env::args().skip(1).collect();
    let seed: u64 = arg(&args, "--seed").and_then(|s| s.parse().ok()).unwrap_or(20_260_917);
    match args.first().map(|s| s.as_str()) {
        Some("run") => {
            let batches: u64 = arg(&args, "--batches").and_then(|s| s.parse().ok()).unwrap_or(8);
            let from: u64 = arg(&args, "--from").and_then(|s| s.parse().ok()).unwrap_or(0);
            let iters: usize = arg(&args, "--iters").and_then(|s| s.parse().ok()).unwrap_or(100);
            let persist = arg(&args, "--persist");
            for k in from..from + batches {
                install_silent_hook();
                let w = Arc::new(workload(seed, k));
                let ncalls: usize = w.per_thread.iter().map(|v| v.len()).sum();
                for sched in ["random", "pct"] {
                    let w2 = w.clone();
                    let cfg = config(persist.as_deref());
                    let sseed = mix2(run_seed(seed, "C19-schedule", k), sched.len() as u64);
                    // shuttle reports a failing schedule by panicking out of
                    // run(); the silent hook stays installed so that a call
                    // that panics renders the same way as in the reference
                    let r = std::panic::catch_unwind(std::panic::AssertUnwindSafe(|| {
                        if sched == "random" {
                            Runner::new(RandomScheduler::new_from_seed(sseed, iters), cfg).run(move || scenario(&w2))
                        } else {
                            Runner::new(PctScheduler::new_from_seed(sseed, 3, iters), cfg).run(move || scenario(&w2))
                        }
                    }));
                    match r {
                        Ok(n) => println!(
                            "{}",
                            json!({"batch": k, "threads": w.threads, "calls": ncalls, "iterations": n, "scheduler": sched})
                        ),
                        Err(p) => {
                            let msg = p
                                .downcast_ref::<String>()
                                .cloned()
                                .or_else(|| p.downcast_ref::<&str>().map(|s| s.to_string()))
                                .unwrap_or_else(|| "shuttle failure".into());
                            let f = Failure::new(
                                "C19",
                                "same-result-on-every-thread-schedule",
                                "threads",
                                format!("batch {k}, {} threads, scheduler {sched}: {}", w.threads, msg.lines().next().unwrap_or("")),
                            );
                            println!(
                                "{}",
                                json!({"failure": f, "batch": k, "scheduler": sched, "seed": seed,
                                       "calls": w.per_thread, "message": msg})
                            );
                        }
                    }
                }
            }
        }
        Some("replay") => {
            let k: u64 = arg(&args, "--batch").and_then(|s| s.parse().ok()).unwrap_or(0);
            let file = arg(&args, "--schedule").expect("--schedule FILE");
            let w = Arc::new(workload(seed, k));
            let sched = ReplayScheduler::new_from_file(&file).expect("schedule file");
            let w2 = w.clone();
            let r = std::panic::catch_unwind(std::panic::AssertUnwindSafe(|| {
                Runner::new(sched, config(None)).run(move || scenario(&w2))
            }));
            match r {
                Ok(_) => {
                    println!("replay: schedule passes on the current tree");
                }
                Err(_) => {
                    println!("replay: violation reproduced");
                    std::process::exit(1);
                }
            }
        }
        _ => {
            eprintln!("usage: rl2tp-dst-threads run --seed S --batches B --iters N [--persist DIR] | replay --seed S --batch K --schedule FILE");
            std::process::exit(2);
        }
    }
}
