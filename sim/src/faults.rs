//! Transport fault catalogue: what the channel may do to one in-flight
//! message. Every generator reports the kind it *actually applied* (a fault
//! that leaves the octets unchanged is not counted).

use crate::model::*;
use crate::rng::Rng;

#[derive(Clone, Debug, Default)]
pub struct Layout {
    pub is_control: bool,
    /// octets of message header (flags included)
    pub hdr_len: usize,
    pub length_off: Option<usize>,
    pub offset_off: Option<usize>,
    /// (start, len) of each AVP record of a control message
    pub records: Vec<(usize, usize)>,
}

/// Field offsets of a (valid) message, from the flag word and the length
/// walker only.
pub fn layout_of(b: &[u8]) -> Layout {
    let mut l = Layout::default();
    if b.len() < 2 {
        return l;
    }
    let w = u16::from_be_bytes([b[0], b[1]]);
    if w & FLAG_T != 0 {
        l.is_control = true;
        l.hdr_len = 12;
        l.length_off = Some(2);
        if let Ok(walk) = walk_control(b) {
            l.records = walk.records;
        }
    } else {
        let has_l = w & FLAG_L != 0;
        let has_s = w & FLAG_S != 0;
        let has_o = w & FLAG_O != 0;
        let mut p = 2;
        if has_l {
            l.length_off = Some(p);
            p += 2;
        }
        p += 4;
        if has_s {
            p += 4;
        }
        if has_o {
            l.offset_off = Some(p);
            p += 2;
        }
        l.hdr_len = p;
    }
    l
}

fn set_u16(b: &[u8], off: usize, v: u16) -> Option<Vec<u8>> {
    if off + 2 > b.len() {
        return None;
    }
    let mut o = b.to_vec();
    o[off..off + 2].copy_from_slice(&v.to_be_bytes());
    if o == b {
        None
    } else {
        Some(o)
    }
}

fn set_avp_len(b: &[u8], off: usize, v: usize) -> Option<Vec<u8>> {
    if off + 2 > b.len() || v > 1023 {
        return None;
    }
    let mut o = b.to_vec();
    o[off] = (o[off] & 0x3F) | (((v >> 8) as u8 & 3) << 6);
    o[off + 1] = v as u8;
    if o == b {
        None
    } else {
        Some(o)
    }
}

/// Enumerate the single-fault neighbourhood of `base` (the deciding part of
/// C01/C02): every truncation point, every header bit, every length field
/// at guard +-1. `f(kind, octets)`.
pub fn enumerate_single_faults(base: &[u8], lay: &Layout, f: &mut dyn FnMut(&'static str, Vec<u8>)) {
    let n = base.len();
    // EOF at every octet (large messages: every octet of the first and last
    // 96, and about 300 evenly spaced points in between)
    if n <= 1500 {
        for k in 0..n {
            f("truncate", base[..k].to_vec());
        }
    } else {
        let step = ((n - 192) / 300).max(1);
        let mut k = 0;
        while k < n {
            f("truncate", base[..k].to_vec());
            k += if k < 96 || k + 96 >= n { 1 } else { step };
        }
    }
    // every bit of the message header
    for i in 0..lay.hdr_len.min(n) {
        for bit in 0..8 {
            let mut o = base.to_vec();
            o[i] ^= 1 << bit;
            f("bitflip-msg-header", o);
        }
    }
    // every bit of every AVP header (first 24 records; 6 for large messages)
    let max_recs = if n <= 1500 { 24 } else { 6 };
    for &(s, _) in lay.records.iter().take(max_recs) {
        for i in s..(s + 6).min(n) {
            for bit in 0..8 {
                let mut o = base.to_vec();
                o[i] ^= 1 << bit;
                f("bitflip-avp-header", o);
            }
        }
    }
    // message Length
    if let Some(off) = lay.length_off {
        if off + 2 <= n {
            let t = u16::from_be_bytes([base[off], base[off + 1]]) as usize;
            let hdr = lay.hdr_len;
            let mut vals = vec![
                0usize,
                1,
                2,
                5,
                6,
                11,
                12,
                13,
                hdr.saturating_sub(1),
                hdr,
                hdr + 1,
                t.saturating_sub(1),
                t + 1,
                n,
                n + 1,
                n.saturating_sub(1),
                65535,
                32768,
                255,
                256,
            ];
            vals.sort_unstable();
            vals.dedup();
            for v in vals {
                if v <= 65535 {
                    if let Some(o) = set_u16(base, off, v as u16) {
                        f(
                            if lay.is_control {
                                "set-control-length"
                            } else {
                                "set-data-length"
                            },
                            o,
                        );
                    }
                }
            }
        }
    }
    // offset size
    if let Some(off) = lay.offset_off {
        if off + 2 <= n {
            let rem = n - (off + 2);
            let mut vals = vec![0usize, 1, rem.saturating_sub(1), rem, rem + 1, 65535, 256];
            vals.sort_unstable();
            vals.dedup();
            for v in vals {
                if v <= 65535 {
                    if let Some(o) = set_u16(base, off, v as u16) {
                        f("set-offset-size", o);
                    }
                }
            }
        }
    }
    // a run of zero octets from each record boundary (zero padding)
    for &(s, _) in lay.records.iter().take(max_recs) {
        for k in [6usize, 12] {
            let mut o = base.to_vec();
            let e = (s + k).min(n);
            for x in &mut o[s..e] {
                *x = 0;
            }
            if o != base {
                f("zero-range", o);
            }
        }
    }
    // AVP length / vendor / attribute fields
    let end = lay
        .records
        .last()
        .map(|&(s, l)| s + l)
        .unwrap_or(lay.hdr_len);
    for &(s, l) in lay.records.iter().take(max_recs) {
        let attr = u16::from_be_bytes([base[s + 4], base[s + 5]]);
        let min = fmt_of(attr).map(min_payload).unwrap_or(0);
        let remaining = end - s;
        let mut vals = vec![
            0usize,
            1,
            5,
            6,
            7,
            min + 5,
            min + 6,
            l.saturating_sub(1),
            l + 1,
            remaining,
            remaining + 1,
            remaining.saturating_sub(1),
            255,
            256,
            1023,
        ];
        vals.sort_unstable();
        vals.dedup();
        for v in vals {
            if let Some(o) = set_avp_len(base, s, v) {
                f("set-avp-length", o);
            }
        }
        for v in [1u16, 0xFFFF, 0x0100] {
            if let Some(o) = set_u16(base, s + 2, v) {
                f("set-vendor-id", o);
            }
        }
        for v in [20u16, 40, 41, 255, 256, 65535, 39, 0, 13] {
            if let Some(o) = set_u16(base, s + 4, v) {
                f("set-attribute-type", o);
            }
        }
        // H bit
        let mut o = base.to_vec();
        o[s] ^= AVP_H;
        f("toggle-hidden-bit", o);
    }
}

/// One PRNG-drawn fault applied to `b`; returns the kind, or `None` when it
/// changed nothing.
/// Append so many octets that, after the two flag octets, the reader holds
/// `65536*k + r` octets with `r` small or just around the declared body
/// length: everything a 16-bit view of "octets remaining" would get wrong.
/// How many octets to append to a message of `len` octets with declared
/// length `declared` so that, after the two flag octets, the reader holds
/// `65536*k + r` octets with `r` small or just around the declared body
/// length: everything a 16-bit view of "octets remaining" would get wrong.
pub fn trail_for(rng: &mut Rng, len: usize, declared: usize) -> usize {
    let declared = declared as i64;
    let r = match rng.below(6) {
        0 => rng.range(0, 12) as i64,
        1 => declared - 12 + *rng.pick(&[-2i64, -1, 0, 1]),
        2 => declared - 2 + *rng.pick(&[-1i64, 0, 1]),
        3 => rng.range(0, (declared.max(13) - 12) as u64) as i64,
        4 => 65_535 - rng.range(0, 3) as i64,
        _ => rng.range(0, 65_535) as i64,
    }
    .clamp(0, 65_535) as usize;
    let k = if rng.chance(1, 4) { 2 } else { 1 };
    (65_536 * k + r + 2).saturating_sub(len)
}

pub fn long_trail(rng: &mut Rng, b: &mut Vec<u8>) -> bool {
    if b.len() < 2 || b.len() > 70_000 {
        return false;
    }
    let declared = if b.len() >= 4 { u16::from_be_bytes([b[2], b[3]]) as usize } else { 0 };
    let extra = trail_for(rng, b.len(), declared);
    if extra == 0 {
        return false;
    }
    let want = b.len() + extra;
    let fill = match rng.below(3) {
        0 => 0u8,
        1 => 0xFF,
        _ => rng.u8(),
    };
    if fill == 0 || fill == 0xFF {
        b.resize(want, fill);
    } else {
        let t = rng.bytes(extra.min(64));
        while b.len() < want {
            let take = (want - b.len()).min(t.len());
            b.extend_from_slice(&t[..take]);
        }
    }
    true
}

pub fn random_fault(rng: &mut Rng, b: &mut Vec<u8>) -> Option<&'static str> {
    if rng.chance(1, 48) && long_trail(rng, b) {
        return Some("long-trail");
    }
    let lay = layout_of(b);
    let before = b.clone();
    let kind: &'static str = match rng.below(13) {
        12 => {
            // a run of zero octets (padding written over part of the message)
            if b.len() < 2 {
                return None;
            }
            let start = if !lay.records.is_empty() && rng.bool() {
                rng.pick(&lay.records).0
            } else {
                rng.usize_below(b.len())
            };
            let k = *rng.pick(&[2usize, 4, 6, 8, 12, 20]);
            let end = (start + k).min(b.len());
            for x in &mut b[start..end] {
                *x = 0;
            }
            "zero-range"
        }
        0 => {
            if b.is_empty() {
                return None;
            }
            let k = rng.usize_below(b.len());
            b.truncate(k);
            "truncate"
        }
        1 => {
            if b.is_empty() {
                return None;
            }
            let i = rng.usize_below(b.len());
            b[i] ^= 1 << rng.below(8);
            "bitflip-any"
        }
        2 => {
            let lim = lay.hdr_len.min(b.len());
            if lim == 0 {
                return None;
            }
            let i = rng.usize_below(lim);
            b[i] ^= 1 << rng.below(8);
            "bitflip-msg-header"
        }
        3 => {
            if lay.records.is_empty() {
                return None;
            }
            let (s, _) = *rng.pick(&lay.records);
            let i = s + rng.usize_below(6);
            if i >= b.len() {
                return None;
            }
            b[i] ^= 1 << rng.below(8);
            "bitflip-avp-header"
        }
        4 => {
            let off = lay.length_off?;
            if off + 2 > b.len() {
                return None;
            }
            let t = u16::from_be_bytes([b[off], b[off + 1]]) as i64;
            let n = b.len() as i64;
            let v = *rng.pick(&[0i64, 11, 12, 13, t - 1, t + 1, n, n + 1, 65535, t - 6, t + 6]);
            let v = v.clamp(0, 65535) as u16;
            b[off..off + 2].copy_from_slice(&v.to_be_bytes());
            if lay.is_control {
                "set-control-length"
            } else {
                "set-data-length"
            }
        }
        5 => {
            if lay.records.is_empty() {
                return None;
            }
            let (s, l) = *rng.pick(&lay.records);
            let l = l as i64;
            let v = *rng.pick(&[0i64, 5, 6, 7, 8, l - 1, l + 1, l - 2, l + 6, 1023, 10]);
            let v = v.clamp(0, 1023) as usize;
            b[s] = (b[s] & 0x3F) | (((v >> 8) as u8 & 3) << 6);
            b[s + 1] = v as u8;
            "set-avp-length"
        }
        6 => {
            let n = rng.urange(1, 24);
            let t = rng.bytes(n);
            b.extend_from_slice(&t);
            "append-trail"
        }
        7 => {
            if lay.records.is_empty() {
                return None;
            }
            let (s, l) = *rng.pick(&lay.records);
            let v = match rng.below(4) {
                0 | 1 => 1,
                2 => rng.u16(),
                _ => {
                    // a vendor id the code under test knows by name, on an
                    // optional AVP, sometimes with a length that runs past the end
                    let d = crate::dict::dict();
                    let x = *rng.pick(&d.ints);
                    if rng.bool() {
                        b[s] &= !AVP_M;
                    }
                    if rng.chance(1, 3) {
                        let nl = (l + b.len() - s).min(1023);
                        b[s] = (b[s] & 0x3F) | (((nl >> 8) as u8 & 3) << 6);
                        b[s + 1] = nl as u8;
                    }
                    if x >= 1 && x <= 0xFFFF { x as u16 } else { 1 }
                }
            };
            b[s + 2..s + 4].copy_from_slice(&v.to_be_bytes());
            "set-vendor-id"
        }
        8 => {
            if lay.records.is_empty() {
                return None;
            }
            let (s, _) = *rng.pick(&lay.records);
            let v = *rng.pick(&[20u16, 40, 41, 255, 256, 65535, 0, 1, 7, 39, 13, 34]);
            b[s + 4..s + 6].copy_from_slice(&v.to_be_bytes());
            "set-attribute-type"
        }
        9 => {
            let off = lay.offset_off?;
            if off + 2 > b.len() {
                return None;
            }
            let rem = (b.len() - off - 2) as i64;
            let v = *rng.pick(&[0i64, 1, rem - 1, rem, rem + 1, 65535]);
            let v = v.clamp(0, 65535) as u16;
            b[off..off + 2].copy_from_slice(&v.to_be_bytes());
            "set-offset-size"
        }
        10 => {
            // drop / duplicate / swap whole AVP records, fixing up Length
            if lay.records.len() < 2 || !lay.is_control {
                return None;
            }
            let recs: Vec<Vec<u8>> = lay
                .records
                .iter()
                .map(|&(s, l)| b[s..s + l].to_vec())
                .collect();
            let tail_start = lay.records.last().map(|&(s, l)| s + l).unwrap();
            let tail = b[tail_start..].to_vec();
            let mut order: Vec<usize> = (0..recs.len()).collect();
            let k = match rng.below(3) {
                0 => {
                    let j = rng.usize_below(order.len());
                    order.remove(j);
                    "drop-record"
                }
                1 => {
                    let j = rng.usize_below(order.len());
                    order.insert(j, order[j]);
                    "dup-record"
                }
                _ => {
                    let i = rng.usize_below(order.len());
                    let j = rng.usize_below(order.len());
                    order.swap(i, j);
                    "swap-records"
                }
            };
            let declared = u16::from_be_bytes([b[2], b[3]]) as usize;
            let old_body: usize = recs.iter().map(|r| r.len()).sum();
            let mut out = b[..12].to_vec();
            let mut new_body = 0;
            for i in order {
                out.extend_from_slice(&recs[i]);
                new_body += recs[i].len();
            }
            out.extend_from_slice(&tail);
            let nl = (declared + new_body).saturating_sub(old_body).min(65535) as u16;
            out[2..4].copy_from_slice(&nl.to_be_bytes());
            *b = out;
            k
        }
        _ => {
            // set an enumerated code field / first payload octets of a record
            if lay.records.is_empty() {
                return None;
            }
            let (s, l) = *rng.pick(&lay.records);
            if l < 8 {
                return None;
            }
            let v = rng.extreme(16) as u16;
            b[s + 6..s + 8].copy_from_slice(&v.to_be_bytes());
            "set-payload-head"
        }
    };
    if *b == before {
        None
    } else {
        Some(kind)
    }
}

/// PRNG-assembled grammar fragment: a random flag word and plausible fields,
/// for inputs no valid message is near.
pub fn fragment(rng: &mut Rng) -> Vec<u8> {
    let mut b = Vec::new();
    let mut w = rng.u16();
    if rng.chance(3, 4) {
        w = (w & !FLAG_VERSION) | (2 << 4);
    }
    if rng.chance(1, 2) {
        w |= FLAG_T | FLAG_L | FLAG_S;
    }
    b.extend_from_slice(&w.to_be_bytes());
    let fields = rng.urange(0, 8);
    for _ in 0..fields {
        let v = match rng.below(4) {
            0 => rng.u16(),
            1 => rng.range(0, 40) as u16,
            2 => 0,
            _ => rng.range(0, 1023) as u16,
        };
        b.extend_from_slice(&v.to_be_bytes());
    }
    // a few AVP-looking records
    for _ in 0..rng.urange(0, 3) {
        let pl = rng.urange(0, 12);
        let len = if rng.chance(3, 4) {
            6 + pl
        } else {
            rng.urange(0, 40)
        };
        b.push(((len >> 8) as u8 & 3) << 6 | (rng.u8() & 0x3F));
        b.push(len as u8);
        b.extend_from_slice(&(if rng.chance(7, 8) { 0 } else { rng.u16() }).to_be_bytes());
        b.extend_from_slice(&(rng.range(0, 41) as u16).to_be_bytes());
        b.extend_from_slice(&rng.bytes(pl));
    }
    if rng.chance(1, 3) {
        let k = rng.usize_below(b.len() + 1);
        b.truncate(k);
    }
    b
}
