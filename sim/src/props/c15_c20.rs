//! C15: control messages are all-or-nothing with a complete, ordered error
//! list (record-level faults at every placement among k records).
//! C20: decode errors identify the offending field and render with the
//! right AVP name (single-fault injection; every observed error rendered).

use crate::conv::*;
use crate::core::*;
use crate::deliver::*;
use crate::gen::*;
use crate::model::*;
use crate::records::*;
use crate::rng::{fnv1a, Rng};
use crate::seams::*;
use rl2tp::avp::AVP;
use rl2tp::common::{DecodeError, SliceReader};
use serde::{Deserialize, Serialize};
use serde_json::json;

// ===========================================================================
// C15
// ===========================================================================

#[derive(Clone, Debug, Serialize, Deserialize)]
pub struct Case15 {
    /// 8 octets: tunnel id, session id, Ns, Nr
    pub ids: [u16; 4],
    pub records: Vec<Rec>,
    pub reader: ReaderCfg,
    /// zero octets that follow the message in the same reader
    #[serde(default)]
    pub trail: u32,
}

/// Is this error attributable to a record with expectation `want`?
/// Variant identity is C20's business; here the payload value must be the
/// record's attribute type, vendor id or offending code.
fn attributable(got: &DecodeError, want: &SpecErr, rec: &[u8]) -> bool {
    let attr = if rec.len() >= 6 {
        u16::from_be_bytes([rec[4], rec[5]])
    } else {
        0
    };
    let k = match err_kind(got) {
        Some(k) => k,
        None => return matches!(want, SpecErr::InvalidAvpLength),
    };
    match want {
        SpecErr::UnsupportedVendorId(v) => k == SpecErr::UnsupportedVendorId(*v),
        // an unusable length has no attribute value to carry, and which
        // variant reports it is not fixed by the properties
        SpecErr::InvalidAvpLength => true,
        SpecErr::BadProxyAuthenType(c) => match k {
            // which variant reports a bad proxy-authen code is left open
            SpecErr::IncompleteAvp(t) | SpecErr::UnknownAvp(t) | SpecErr::InvalidUtf8(t) => t == attr,
            SpecErr::BadProxyAuthenType(x) | SpecErr::UnknownMessageType(x) | SpecErr::InvalidResultCodeErrorType(x) => x == *c,
            _ => false,
        },
        other => {
            // payload value must match: attribute type or offending code
            let val = |e: &SpecErr| -> Option<u32> {
                Some(match e {
                    SpecErr::IncompleteAvp(t) | SpecErr::InvalidUtf8(t) | SpecErr::UnknownAvp(t) => *t as u32,
                    SpecErr::UnknownMessageType(c) | SpecErr::InvalidResultCodeErrorType(c) => *c as u32,
                    _ => return None,
                })
            };
            match (val(&k), val(other)) {
                (Some(a), Some(b)) => a == b,
                _ => false,
            }
        }
    }
}

fn exec_c15(case: &Case15, obs: &mut Obs) -> Result<(), Failure> {
    // assemble; a terminal record must be last in the body
    let mut body = Vec::new();
    let mut expected: Vec<(SpecErr, &Rec)> = Vec::new();
    for r in &case.records {
        body.extend_from_slice(&r.bytes);
        if let Some(e) = r.expect {
            expected.push((e, r));
        }
        if r.terminal {
            break;
        }
    }
    let mut b = vec![0x13, 0x20, 0, 0];
    for id in case.ids {
        b.extend_from_slice(&id.to_be_bytes());
    }
    b.extend_from_slice(&body);
    if b.len() > 65535 {
        return Ok(());
    }
    let l = b.len() as u16;
    b[2..4].copy_from_slice(&l.to_be_bytes());
    if case.trail > 0 {
        b.resize(b.len() + case.trail as usize, 0);
        obs.count("probe:message-followed-by-64k-or-more");
    }
    obs.steps += 1;
    if let ReaderCfg::Refusing(_) = &case.reader {
        // the verdict on the message itself first, fault-free; then what a
        // declined request may and may not change (in particular: it does
        // not make the decoder accept a part of the message)
        exec_c15(
            &Case15 {
                reader: ReaderCfg::Real,
                ..case.clone()
            },
            obs,
        )?;
        obs.count("probe:refusing-reader");
        return check_read_faults("C15", &b, Some(Opts::STRICT), &case.reader, "all-or-nothing-under-read-faults", obs);
    }
    let model = spec_decode(&b, Opts::STRICT);
    let out = match decode_msg(&b, Some(Opts::STRICT), &case.reader, false) {
        Ok(o) => o,
        Err(_) => return Ok(()), // totality: C01
    };
    obs.reader_calls += out.mon.calls;
    let hex = || to_hex(&b[..b.len().min(120)]);
    let first_ok = match case.records.first() {
        None => true,
        Some(r) => {
            r.expect.is_none()
                && r.bytes.len() >= 8
                && r.bytes[0] & AVP_H == 0
                && r.bytes[2..6] == [0, 0, 0, 0]
        }
    };
    let cls_bad = |i: usize| -> String {
        expected
            .get(i)
            .map(|(e, _)| format!("{e:?}").split('(').next().unwrap_or("?").to_string())
            .unwrap_or_else(|| "none".into())
    };
    match &out.result {
        Ok(m) => {
            if !expected.is_empty() || !first_ok {
                return Err(Failure::new(
                    "C15",
                    "all-or-nothing",
                    &format!("accepted-with-{}", if !first_ok { "bad-first".to_string() } else { cls_bad(0) }),
                    format!(
                        "accepted although {} of its {} records are undecodable (first: {:?}) / first-AVP rule ok = {}; message {}",
                        expected.len(),
                        case.records.len(),
                        expected.first().map(|x| x.0),
                        first_ok,
                        hex()
                    ),
                ));
            }
            // on Ok the AVP list equals the model's values in order
            if Some(m) != model.result.as_ref().ok() {
                return Err(Failure::new(
                    "C15",
                    "accepted-value",
                    "avp-list",
                    format!(
                        "accepted value {} differs from the specification's {:?}; message {}",
                        serde_json::to_string(m).unwrap_or_default(),
                        model.result,
                        hex()
                    ),
                ));
            }
            Ok(())
        }
        Err(errs) => {
            if errs.is_empty() {
                return Err(Failure::new("C15", "nonempty-error-list", "empty", format!("rejected with an empty error list: {}", hex())));
            }
            if !first_ok {
                return Ok(()); // only non-emptiness is required
            }
            if expected.is_empty() {
                return Err(Failure::new(
                    "C15",
                    "all-or-nothing",
                    "rejected-all-good",
                    format!(
                        "every record decodes and the first is a Message Type, yet rejected with {}; message {}",
                        errs_text(errs),
                        hex()
                    ),
                ));
            }
            if errs.len() != expected.len() {
                return Err(Failure::new(
                    "C15",
                    "one-error-per-bad-record",
                    &format!("count-{}", cls_bad(0)),
                    format!(
                        "{} undecodable records ({:?}) but {} errors {}; message {}",
                        expected.len(),
                        expected.iter().map(|x| x.0).collect::<Vec<_>>(),
                        errs.len(),
                        errs_text(errs),
                        hex()
                    ),
                ));
            }
            for (i, (got, (want, rec))) in errs.iter().zip(expected.iter()).enumerate() {
                if !attributable(got, want, &rec.bytes) {
                    return Err(Failure::new(
                        "C15",
                        "errors-in-wire-order",
                        &cls_bad(i),
                        format!(
                            "error #{i} is {} but the {}-th bad record calls for {:?}; all errors {}, expected {:?}; message {}",
                            errs_text(std::slice::from_ref(got)),
                            i,
                            want,
                            errs_text(errs),
                            expected.iter().map(|x| x.0).collect::<Vec<_>>(),
                            hex()
                        ),
                    ));
                }
            }
            Ok(())
        }
    }
}

pub struct C15;

impl Scenario for C15 {
    type Case = Case15;
    const ID: &'static str = "C15";
    const LEVEL: &'static str = "fault_enumeration";
    fn runs(tier: Tier) -> u64 {
        tier.pick(120_000, 8_000_000)
    }
    fn profiles() -> &'static [Profile] {
        &[Profile::Release]
    }
    fn run(rng: &mut Rng, ctx: &mut Ctx) {
        let sw = Swarm::draw(rng);
        let mut wl = rng.fork("workload");
        let mut sm = rng.fork("seams");
        // 0..10 records; now and then hundreds (tables, counters and
        // pre-sized buffers in a decoder tend to assume far fewer)
        let many = ctx.run % 97 == 13;
        let k = if many {
            *wl.pick(&[255usize, 256, 257, 258, 300, 520])
        } else {
            (ctx.run % 11) as usize
        };
        let ids = [wl.u16(), wl.u16(), wl.u16(), wl.u16()];
        // independently generated good records
        let mut good: Vec<Rec> = Vec::new();
        for i in 0..k {
            if i == 0 {
                good.push(Rec {
                    bytes: msgtype_record(&mut wl),
                    expect: None,
                    terminal: false,
                });
            } else if many {
                let kind = *wl.pick(&[6u16, 9, 10, 14, 39, 2]);
                let a = gen_avp_of(&mut wl, &Swarm { size: SizeRegime::Tiny, ..sw.clone() }, kind);
                good.push(Rec { bytes: spec_encode_avp(&a), expect: None, terminal: false });
            } else {
                good.push(good_record(&mut wl, &sw, true));
            }
        }
        let emit = |records: Vec<Rec>, ctx: &mut Ctx, sm: &mut Rng, tag: &str| {
            let total: usize = records.iter().map(|r| r.bytes.len()).sum();
            let reader = if sm.chance(1, 3) {
                ReaderCfg::Real
            } else if sm.chance(1, 6) {
                draw_refusing(sm, total + 12)
            } else {
                draw_reader(sm, total + 12)
            };
            let nbad = records.iter().filter(|r| r.expect.is_some()).count();
            if nbad >= 3 {
                ctx.obs.count("probe:three-or-more-errors");
            }
            ctx.obs.count(&format!("placement:{tag}"));
            // now and then the message is followed by 64 KiB or more in the
            // same reader (sizes that differ from small ones modulo 2^16)
            let (reader, trail) = if sm.chance(1, 40) && total + 12 <= 65535 {
                (ReaderCfg::Real, crate::faults::trail_for(sm, total + 12, total + 12) as u32)
            } else {
                (reader, 0)
            };
            let case = Case15 {
                ids,
                records,
                reader,
                trail,
            };
            ctx.obs.distinct(fnv1a(&serde_json::to_vec(&case.records).unwrap()));
            if ctx.run == 5 {
                let c2 = case.clone();
                ctx.obs.sample(|| json!(c2));
            }
            ctx.check::<C15>(&case);
        };
        // J = {} (all good)
        emit(good.clone(), ctx, &mut sm, "none");
        if k >= 1 {
            // every subset J of positions >= 1 for k <= 5, PRNG subsets above
            let npos = k - 1;
            let subsets: Vec<u32> = if npos == 0 {
                Vec::new()
            } else if k <= 5 {
                (1..(1u32 << npos)).collect()
            } else if many {
                Vec::new()
            } else {
                (0..16).map(|_| (wl.u32() % ((1u32 << npos) - 1)) + 1).collect()
            };
            if many {
                // far more errors than any fixed-size report would hold
                {
                    let mut recs = good.clone();
                    let nbad = *wl.pick(&[16usize, 17, 18, 33, 65]);
                    for p in 1..=nbad.min(k - 1) {
                        let kind = *wl.pick(&NONTERMINAL);
                        recs[p] = bad_record(&mut wl, &Swarm { size: SizeRegime::Tiny, ..sw.clone() }, kind);
                    }
                    ctx.obs.count("probe:seventeen-or-more-errors");
                    emit(recs, ctx, &mut sm, "many-errors");
                }
                // bad records late in a long message: around record 256 and
                // at the very end
                for _ in 0..4 {
                    let mut recs = good.clone();
                    let mut places: Vec<usize> = vec![k - 1];
                    for cand in [254usize, 255, 256, 257] {
                        if cand >= 1 && cand < k && wl.bool() {
                            places.push(cand);
                        }
                    }
                    places.sort_unstable();
                    places.dedup();
                    for p in places {
                        let kind = *wl.pick(&NONTERMINAL);
                        recs[p] = bad_record(&mut wl, &Swarm { size: SizeRegime::Tiny, ..sw.clone() }, kind);
                        ctx.obs.count(&format!("fault:insert-{:?}", kind));
                    }
                    ctx.obs.count("probe:bad-record-beyond-position-255");
                    emit(recs, ctx, &mut sm, "late-in-long-message");
                }
            }
            for j in subsets {
                let mut recs = good.clone();
                let mut terminal_at = None;
                for p in 0..npos.min(31) {
                    if j & (1 << p) != 0 {
                        let kind = if wl.chance(1, 8) {
                            *wl.pick(&[Badness::TermLenLt6, Badness::TermLenPast])
                        } else {
                            *wl.pick(&NONTERMINAL)
                        };
                        let r = bad_record(&mut wl, &sw, kind);
                        ctx.obs.count(&format!("fault:insert-{:?}", kind));
                        if r.terminal && terminal_at.is_none() {
                            terminal_at = Some(p + 1);
                        }
                        recs[p + 1] = r;
                    }
                }
                if let Some(t) = terminal_at {
                    recs.truncate(t + 1);
                    ctx.obs.count("probe:terminal-record-hides-later-ones");
                }
                emit(recs, ctx, &mut sm, "subset");
            }
        }
        // first-position faults
        let mut rest = good.clone();
        if !rest.is_empty() {
            rest.remove(0);
        }
        for variant in 0..5 {
            let first = match variant {
                0 => good_record(&mut wl, &sw, false), // non-MessageType first (may still be one, rarely)
                1 => {
                    let bk = *wl.pick(&NONTERMINAL);
                    bad_record(&mut wl, &sw, bk)
                }
                2 => {
                    let n = wl.urange(0, 20);
                    Rec {
                        bytes: raw_record(AVP_M | AVP_H, 0, 0, &wl.bytes(n)),
                        expect: None,
                        terminal: false,
                    }
                } // hidden first, announcing attribute type 0
                3 => bad_record(&mut wl, &sw, Badness::Vendor),
                _ => bad_record(&mut wl, &sw, Badness::UnknownMsgType),
            };
            let mut recs = vec![first];
            recs.extend(rest.iter().cloned());
            emit(recs, ctx, &mut sm, "first-position");
        }
        // a body taken from the octet arrays the code under test spells out
        // (as written and reversed), alone or in front of the good records
        if let Some(a) = crate::dict::pick_array(&mut wl) {
            let mut variants = vec![a.clone()];
            let mut rev = a;
            rev.reverse();
            variants.push(rev);
            for v in variants {
                if let Some(r) = rec_from_bytes(&v) {
                    let mut recs = vec![r];
                    if wl.bool() {
                        recs.extend(rest.iter().cloned());
                    }
                    emit(recs, ctx, &mut sm, "dictionary-body");
                }
            }
        }
    }
    fn execute(case: &Case15, obs: &mut Obs) -> Result<(), Failure> {
        exec_c15(case, obs)
    }
    fn shrink(case: &Case15) -> Vec<Case15> {
        let mut out = Vec::new();
        if case.trail > 0 {
            out.push(Case15 {
                trail: 0,
                ..case.clone()
            });
        }
        for i in (0..case.records.len()).rev() {
            let mut r = case.records.clone();
            r.remove(i);
            out.push(Case15 {
                records: r,
                ..case.clone()
            });
        }
        if case.reader != ReaderCfg::Real {
            out.push(Case15 {
                reader: ReaderCfg::Real,
                ..case.clone()
            });
        }
        for (i, r) in case.records.iter().enumerate() {
            if r.expect.is_none() && i > 0 && r.bytes.len() > 8 {
                let mut rs = case.records.clone();
                rs[i] = Rec {
                    bytes: raw_record(AVP_M, 0, 6, &[0, 0]),
                    expect: None,
                    terminal: false,
                };
                out.push(Case15 {
                    records: rs,
                    ..case.clone()
                });
            }
        }
        if case.ids != [0; 4] {
            out.push(Case15 {
                ids: [0; 4],
                ..case.clone()
            });
        }
        out
    }
    fn meta() -> Meta {
        Meta {
            rule: "fault site = record positions of a control message. Run i uses k = i mod 11 independently generated good records (first a Message Type; all kinds incl. hidden, canonical or foreign encodings). Placements: J = {} ; for k <= 5 EVERY non-empty subset J of positions >= 1 (2^(k-1)-1 placements), for k > 5 16 PRNG subsets; each chosen position is replaced by a bad record of a PRNG badness kind: vendor id != 0 (decodable or undecodable payload, any H bit), unassigned attribute type, payload below the type's minimum (every type), invalid UTF-8 in each string-bearing type (lone continuation, truncated, overlong, surrogate, > U+10FFFF, 0xFF), unassigned message-type code in a non-first Message Type, result-code error type > 8, proxy-authen type > 5, and terminal records (length < 6, length past the body; hides all later records). Separately: first-position faults (non-Message-Type first, bad first, hidden first, vendor-specific first, unknown message type first). Oracle under the strictest options: Ok iff J is empty and the first-AVP rule holds (value = specification's); else Err(e) with |e| = |J| and e[i] attributable to the i-th bad record (its attribute type, vendor id or offending code); first record not a valid Message Type => non-empty error list. distinct_nontrivial = distinct record lists.",
            assumptions: vec![
                "trusted base: the reference model's classification of each generated record (good / which error)",
                "variant identity of an error is C20's business; here only its payload value is matched, and for a bad proxy-authen code any error carrying attribute type 29 or the code is accepted",
            ],
            real: vec!["Message::try_read_validate (strict)", "AVP::try_read_greedy", "all per-type decoders"],
            stub: vec!["record generator (reference model)", "reader back-ends"],
            faults_not_applicable: "crash/restart, disk, partition, clock faults: no state, storage, membership or clock in rl2tp",
        }
    }
}

// ===========================================================================
// C20
// ===========================================================================

#[derive(Clone, Debug, Serialize, Deserialize)]
pub enum Case20 {
    /// a message with exactly one fault; the expected single error
    Single {
        #[serde(with = "hexser")]
        bytes: Vec<u8>,
        expect: SpecErr,
        /// name of the injected fault (for the report)
        fault: String,
        /// zero octets that follow the message in the same reader
        #[serde(default)]
        trail: u32,
    },
    /// render one error value
    Render { variant: u8, payload: u16 },
    /// the single fault sits inside a hidden AVP: its recovered payload is
    /// shorter than the announced type's minimum; revealing it (right secret
    /// and random vector) must name that type as incomplete
    HiddenShort {
        attr: u16,
        #[serde(with = "hexser")]
        payload: Vec<u8>,
        #[serde(with = "hexser")]
        secret: Vec<u8>,
        rv: [u8; 4],
    },
    /// render several error values one after the other on one thread (a few
    /// distinct payloads, repeated): each text must name its own value
    RenderHistory(Vec<(u8, u16)>),
}

/// The Debug variant name of the AVP that the decoder actually produces for
/// a valid record of attribute type `t` (the crate itself is the source, as
/// the property prescribes); `None` when no AVP kind is assigned.
fn crate_kind_name(t: u16) -> Option<String> {
    let f = fmt_of(t);
    // a generous valid payload for any assigned type
    let payload: Vec<u8> = match f {
        Some(Fmt::MsgType) => vec![0, 1],
        Some(Fmt::ProxyType) => vec![0, 1],
        Some(Fmt::Result) => vec![0, 1],
        Some(_) => vec![0x41; 32],
        None => vec![0x41; 32],
    };
    let rec = raw_record(AVP_M, 0, t, &payload);
    let r = guard(|| {
        let mut r = SliceReader::from(&rec[..]);
        AVP::try_read_greedy::<&[u8]>(&mut r)
    })
    .ok()?;
    match r.first() {
        Some(Ok(a)) => {
            let d = format!("{a:?}");
            let name: String = d.chars().take_while(|c| c.is_ascii_alphanumeric() || *c == '_').collect();
            Some(name)
        }
        _ => None,
    }
}

fn tokens(s: &str) -> Vec<&str> {
    s.split(|c: char| !c.is_ascii_alphanumeric()).filter(|t| !t.is_empty()).collect()
}

fn exec_c20(case: &Case20, obs: &mut Obs) -> Result<(), Failure> {
    match case {
        Case20::HiddenShort { attr, payload, secret, rv } => {
            obs.steps += 1;
            let conv = match crate::props::hiding::calibrated_conv() {
                Some(c) => c,
                None => return Ok(()),
            };
            let value = match spec_hide(*attr, payload, secret, rv, &[], &[0u8; 16], conv) {
                Some(v) => v,
                None => return Ok(()),
            };
            let h = rl2tp::avp::AVP::Hidden(rl2tp::avp::types::Hidden {
                attribute_type: *attr,
                value,
            });
            let rvv = rl2tp::avp::types::RandomVector::from(*rv);
            match guard(|| h.reveal(secret, &rvv)) {
                Ok(Err(e)) => {
                    if err_kind(&e) == Some(SpecErr::IncompleteAvp(*attr)) {
                        let txt = guard(|| e.to_string()).unwrap_or_default();
                        if txt.trim().is_empty() {
                            return Err(Failure::new("C20", "render-nonempty", "hidden-IncompleteAvp", "empty rendering".into()));
                        }
                        Ok(())
                    } else {
                        Err(Failure::new(
                            "C20",
                            "error-names-the-fault",
                            "hidden-IncompleteAvp",
                            format!(
                                "a hidden AVP of type {} whose recovered payload has {} octet(s) (the type needs more): reveal reports {} instead of IncompleteAvp({})",
                                attr,
                                payload.len(),
                                errs_text(std::slice::from_ref(&e)),
                                attr
                            ),
                        ))
                    }
                }
                _ => Ok(()), // acceptance and totality: C13
            }
        }
        Case20::RenderHistory(steps) => {
            obs.count("probe:render-history");
            on_fresh_thread(|| {
                for (i, (variant, payload)) in steps.iter().enumerate() {
                    let one = Case20::Render {
                        variant: *variant,
                        payload: *payload,
                    };
                    if let Err(mut f) = exec_c20(&one, obs) {
                        if steps.len() > 1 {
                            f.class = format!("history:{}", f.class.split('-').next().unwrap_or(""));
                            f.detail = format!("rendering #{i} of {:?}: {}", steps, f.detail);
                        }
                        return Err(f);
                    }
                }
                Ok(())
            })
        }
        Case20::Render { variant, payload } => {
            let errs = all_error_variants(*payload);
            let e = &errs[*variant as usize % errs.len()];
            obs.steps += 1;
            let vname = format!("{:?}", err_kind(e).map(|k| format!("{k:?}")))
                .chars()
                .filter(|c| c.is_ascii_alphabetic())
                .collect::<String>();
            let txt = guard(|| e.to_string()).map_err(|c| {
                Failure::new(
                    "C20",
                    "render-terminates",
                    &format!("variant-{}", *variant as usize % errs.len()),
                    format!("to_string() of error variant #{} with payload {} fails: {}", variant, payload, c.text()),
                )
            })?;
            if txt.trim().is_empty() {
                return Err(Failure::new("C20", "render-nonempty", &vname, format!("variant #{variant} payload {payload} renders as an empty string")));
            }
            if matches!(e, DecodeError::IncompleteAVP(_) | DecodeError::InvalidUtf8(_) | DecodeError::AVPReadError(_)) {
                let want = match crate_kind_name(*payload) {
                    Some(n) => n,
                    None => payload.to_string(),
                };
                // cross-check against the model's table
                if let Some(n) = name_of(*payload) {
                    if n != want {
                        obs.count("note:model-name-table-differs-from-crate-dispatch");
                    }
                }
                if !tokens(&txt).iter().any(|t| *t == want) {
                    return Err(Failure::new(
                        "C20",
                        "render-names-the-kind",
                        &format!("attr-{payload}"),
                        format!(
                            "error for attribute type {} renders as {:?}; attribute type {} decodes to {} so the text must contain the token {:?}",
                            payload,
                            txt,
                            payload,
                            if name_of(*payload).is_some() { "that AVP kind" } else { "no AVP kind" },
                            want
                        ),
                    ));
                }
            }
            Ok(())
        }
        Case20::Single {
            bytes,
            expect,
            fault,
            trail,
        } => {
            obs.steps += 1;
            let long;
            let bytes = if *trail > 0 {
                obs.count("probe:message-followed-by-64k-or-more");
                let mut v = bytes.clone();
                v.resize(v.len() + *trail as usize, 0);
                long = v;
                &long
            } else {
                bytes
            };
            let out = match decode_msg(bytes, Some(Opts::STRICT), &ReaderCfg::Real, false) {
                Ok(o) => o,
                Err(_) => return Ok(()), // C01
            };
            let cls = format!("{expect:?}").split('(').next().unwrap_or("?").to_string();
            match &out.result {
                Err(errs) if errs.len() == 1 && err_kind(&errs[0]) == Some(*expect) => {
                    // render every error this check observes
                    let txt = guard(|| errs[0].to_string()).map_err(|c| {
                        Failure::new("C20", "render-terminates", &cls, format!("rendering {} fails: {}", errs_text(errs), c.text()))
                    })?;
                    if txt.trim().is_empty() {
                        return Err(Failure::new("C20", "render-nonempty", &cls, format!("{} renders as an empty string", errs_text(errs))));
                    }
                    Ok(())
                }
                other => Err(Failure::new(
                    "C20",
                    "error-names-the-fault",
                    &cls,
                    format!(
                        "single fault '{}' in {}: expected Err([{:?}]), got {}",
                        fault,
                        to_hex(&bytes[..bytes.len().min(96)]),
                        expect,
                        result_text(other)
                    ),
                )),
            }
        }
    }
}

/// A valid control message from the reference sender as a list of records.
fn valid_records(rng: &mut Rng, sw: &Swarm) -> Vec<Vec<u8>> {
    let n = rng.urange(1, 5);
    let mut v = vec![msgtype_record(rng)];
    for _ in 0..n {
        let a = loop {
            let a = gen_avp(rng, sw);
            if !a.is_hidden() {
                break a;
            }
        };
        v.push(spec_encode_avp(&a));
    }
    v
}

pub struct C20;

impl Scenario for C20 {
    type Case = Case20;
    const ID: &'static str = "C20";
    const LEVEL: &'static str = "fault_enumeration";
    fn runs(tier: Tier) -> u64 {
        tier.pick(120_000, 8_000_000)
    }
    fn profiles() -> &'static [Profile] {
        &[Profile::Release]
    }
    fn run(rng: &mut Rng, ctx: &mut Ctx) {
        let sw = Swarm::draw(rng);
        let mut wl = rng.fork("workload");
        let mut cases: Vec<Case20> = Vec::new();
        let recs = valid_records(&mut wl, &sw);
        let refs: Vec<&[u8]> = recs.iter().map(|r| &r[..]).collect();
        let base = control_of(&mut wl, &refs);
        // version nibble := x != 2 (all 15 values over the runs)
        {
            let x = {
                let v = (ctx.run % 15) as u8;
                if v >= 2 { v + 1 } else { v }
            };
            let mut b = base.clone();
            b[1] = (b[1] & 0x0F) | (x << 4);
            cases.push(Case20::Single {
                bytes: b,
                expect: SpecErr::InvalidVersion(x),
                fault: format!("version nibble := {x}"),
                trail: 0,
            });
        }
        // record-level single faults at a non-first position
        let pos = wl.urange(1, recs.len());
        let kinds = [
            Badness::UnknownAttr,
            Badness::UnknownMsgType,
            Badness::Vendor,
            Badness::BadErrorType,
            Badness::Short,
            Badness::BadUtf8,
        ];
        for kind in kinds {
            let bad = bad_record(&mut wl, &sw, kind);
            let mut rs: Vec<&[u8]> = refs.clone();
            if pos < rs.len() && wl.bool() {
                rs[pos] = &bad.bytes;
            } else {
                rs.insert(pos.min(rs.len()), &bad.bytes);
            }
            let b = control_of(&mut wl, &rs);
            ctx.obs.count(&format!("fault:{:?}", kind));
            cases.push(Case20::Single {
                bytes: b,
                expect: bad.expect.unwrap(),
                fault: format!("{kind:?} record at position {pos}"),
                trail: 0,
            });
        }
        // every (Short x kind) and (BadUtf8 x string kind) pair recurs:
        // force the kind by run index
        {
            let with_min: Vec<u16> = ALL_ATTRS.iter().copied().filter(|a| min_payload(fmt_of(*a).unwrap()) > 0).collect();
            let attr = with_min[(ctx.run as usize) % with_min.len()];
            let min = min_payload(fmt_of(attr).unwrap());
            let n = if wl.bool() { min - 1 } else { 0 };
            let bad = raw_record(AVP_M, 0, attr, &wl.bytes(n));
            let mut rs = refs.clone();
            rs.push(&bad);
            cases.push(Case20::Single {
                bytes: control_of(&mut wl, &rs),
                expect: SpecErr::IncompleteAvp(attr),
                fault: format!("type {attr} payload cut to {n} octets"),
                trail: 0,
            });
        }
        // data message: offset size := n > remaining
        {
            let dl = wl.urange(1, 20);
            let d = SpecMessage::Data {
                prio: wl.bool(),
                length: None,
                tunnel_id: wl.u16(),
                session_id: wl.u16(),
                ns_nr: if wl.bool() { Some((wl.u16(), wl.u16())) } else { None },
                offset: Some(0),
                data: wl.bytes(dl),
            };
            let mut b = spec_encode(&d);
            let lay = crate::faults::layout_of(&b);
            let off = lay.offset_off.unwrap();
            let n = match wl.below(3) {
                0 => dl + 1,
                1 => 65535,
                _ => wl.urange(dl + 1, 65535),
            } as u16;
            b[off..off + 2].copy_from_slice(&n.to_be_bytes());
            ctx.obs.count("fault:set-offset-size");
            cases.push(Case20::Single {
                bytes: b,
                expect: SpecErr::InvalidOffset(n),
                fault: format!("offset size := {n} with {dl} octets remaining"),
                trail: 0,
            });
        }
        // rendering: boundary payloads for every variant
        for variant in 0..26u8 {
            let payload = match wl.below(6) {
                0 => 0,
                1 => 39,
                2 => 40,
                3 => 20,
                4 => 65535,
                _ => wl.u16(),
            };
            cases.push(Case20::Render { variant, payload });
        }
        // a truncated AVP inside a hidden AVP
        for _ in 0..2 {
            let cands: Vec<u16> = ALL_ATTRS.iter().copied().filter(|a| min_payload(fmt_of(*a).unwrap()) > 0).collect();
            let attr = *wl.pick(&cands);
            let min = min_payload(fmt_of(attr).unwrap());
            let n = wl.urange(0, min - 1);
            let sl = wl.urange(1, 20);
            let rvb = wl.bytes(4);
            cases.push(Case20::HiddenShort {
                attr,
                payload: wl.bytes(n),
                secret: wl.bytes(sl),
                rv: [rvb[0], rvb[1], rvb[2], rvb[3]],
            });
        }
        // a rendering history over two or three values
        if ctx.history_this_run() {
            const NUMS: [u16; 10] = [20, 40, 41, 255, 1000, 2000, 65535, 7, 0, 39];
            let k = wl.urange(2, 3);
            let mut vals: Vec<(u8, u16)> = Vec::new();
            for _ in 0..k {
                // the variants that carry an attribute number, mostly
                let variant = if wl.chance(3, 4) { *wl.pick(&[0u8, 2, 4, 0, 2, 4, 1, 5, 6]) } else { wl.below(26) as u8 };
                vals.push((variant, if wl.chance(3, 4) { *wl.pick(&NUMS) } else { wl.u16() }));
            }
            let n = wl.urange(4, 9);
            let steps: Vec<(u8, u16)> = (0..n).map(|_| *wl.pick(&vals)).collect();
            cases.push(Case20::RenderHistory(steps));
        }
        for (k, mut c) in cases.into_iter().enumerate() {
            if let Case20::Single { bytes, trail, .. } = &mut c {
                // control messages only (T and L bits set): what follows a
                // data message may change what its fault means
                if wl.chance(1, 40) && bytes.len() >= 12 && bytes[0] & 0x03 == 0x03 {
                    let declared = u16::from_be_bytes([bytes[2], bytes[3]]) as usize;
                    // only behind a message that ends where it says
                    if declared == bytes.len() {
                        *trail = crate::faults::trail_for(&mut wl, bytes.len(), declared) as u32;
                    }
                }
            }
            ctx.obs.distinct(fnv1a(&serde_json::to_vec(&c).unwrap()));
            if ctx.run == 0 && k < 3 {
                let c2 = c.clone();
                ctx.obs.sample(|| json!(c2));
            }
            ctx.check::<C20>(&c);
        }
    }
    fn execute(case: &Case20, obs: &mut Obs) -> Result<(), Failure> {
        exec_c20(case, obs)
    }
    fn shrink(case: &Case20) -> Vec<Case20> {
        match case {
            Case20::Render { .. } => Vec::new(),
            Case20::HiddenShort { .. } => Vec::new(),
            Case20::RenderHistory(steps) => {
                let mut out = Vec::new();
                for i in 0..steps.len() {
                    let mut v = steps.clone();
                    v.remove(i);
                    if !v.is_empty() {
                        out.push(Case20::RenderHistory(v));
                    }
                }
                out
            }
            Case20::Single {
                bytes,
                expect,
                fault,
                trail,
            } => std::iter::once(bytes.clone())
                .filter(|_| *trail > 0)
                .map(|b| (b, 0u32))
                .chain(super::c05_c10::shrink_records(bytes, 12).into_iter().map(|b| (b, *trail)))
                // stay in the domain: still exactly this one fault by the specification
                .filter(|(b, _)| matches!(&spec_decode(b, Opts::STRICT).result, Err(e) if e.len() == 1 && e[0] == *expect))
                .map(|(b, t)| Case20::Single {
                    bytes: b,
                    expect: *expect,
                    fault: fault.clone(),
                    trail: t,
                })
                .collect(),
        }
    }
    /// Closing pass: all 65 536 attribute numbers for the three variants
    /// that carry one (stated as such: a complete sweep of a fault
    /// parameter, not a seeded run).
    fn extra(_tier: Tier, _seed: u64, obs: &mut Obs) -> Vec<(serde_json::Value, Failure)> {
        let mut out = Vec::new();
        let mut seen = std::collections::BTreeSet::new();
        for t in 0..=65535u16 {
            for variant in [0u8, 2, 4] {
                let c = Case20::Render {
                    variant,
                    payload: t,
                };
                obs.evaluations += 1;
                if let Err(f) = exec_c20(&c, obs) {
                    // one report per oracle, with the lowest number
                    if seen.insert(f.oracle.clone()) {
                        out.push((serde_json::to_value(&c).unwrap(), f));
                    }
                }
            }
        }
        obs.add("probe:render-sweep-all-65536-attribute-numbers", 1);
        out
    }
    fn meta() -> Meta {
        Meta {
            rule: "fault site = one field of an otherwise valid message from the reference sender, strictest options, exactly one fault per delivery: version nibble := x != 2 (all 15 values cycle over the runs); a non-first record replaced by / inserted as: unassigned attribute type, Message Type with unassigned code, vendor id != 0, Result Code with error type > 8, payload cut below the type's minimum (each type with a minimum, cycling), invalid UTF-8 in a string-bearing type; data message with offset size n > remaining. Oracle: Err([e]) with exactly the variant and offending value the property names. Rendering: every error observed, every variant constructed directly with boundary and PRNG payloads, and (closing pass, a complete sweep and not a seeded run) all 65 536 attribute numbers for the three variants carrying one: to_string() returns, is non-empty, and contains as a whole alphanumeric token the Debug variant name of the AVP that try_read_greedy actually produces for that attribute type, or the decimal number when none is assigned. distinct_nontrivial = distinct single-fault deliveries and render cases.",
            assumptions: vec![
                "not asserted (left open by C15+C20 jointly): unknown message-type code in the FIRST record, payload of InvalidAVPLength, variant reported for a bad proxy-authen code",
                "the kind name is taken from the crate's own decode dispatch (Debug variant name), as the property's observe_at prescribes",
            ],
            real: vec!["Message::try_read_validate (strict)", "DecodeError Display", "AVP::try_read_greedy (for kind names)"],
            stub: vec!["reference sender and single-fault injector"],
            faults_not_applicable: "crash/restart, disk, partition, clock faults: no state, storage, membership or clock in rl2tp",
        }
    }
}
