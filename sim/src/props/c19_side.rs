//! Drivers for the two side crates of C19: `sim/threads` (shuttle: seeded
//! random and PCT schedules, persisted failing schedules) and `sim/miri`
//! (std threads under Miri with many seeds, preemption and data-race
//! detection). Both are separate processes; their verdicts are turned into
//! ordinary failures with replayable cases.

use crate::core::*;
use crate::engine::{bin_for, out_root, verif_root};
use serde::{Deserialize, Serialize};
use serde_json::{json, Value};
use std::process::{Command, Stdio};

#[derive(Clone, Debug, Serialize, Deserialize)]
pub enum SideCase {
    /// replay a persisted shuttle schedule against the regenerated workload
    Threads {
        seed: u64,
        batch: u64,
        scheduler: String,
        schedule_file: Option<String>,
        message: String,
    },
    /// re-run the Miri scenario with these interpreter seeds
    Miri { scenario_seed: u64, seeds: String, rate: String },
}

fn threads_bin() -> std::path::PathBuf {
    bin_for(Profile::Release).with_file_name("rl2tp-dst-threads")
}

pub fn exec_side(case: &SideCase) -> Result<(), Failure> {
    match case {
        SideCase::Threads {
            seed,
            batch,
            scheduler,
            schedule_file,
            message,
        } => {
            let out = match schedule_file {
                Some(f) if std::path::Path::new(f).exists() => Command::new(threads_bin())
                    .args(["replay", "--seed", &seed.to_string(), "--batch", &batch.to_string(), "--schedule", f])
                    .stdin(Stdio::null())
                    .stderr(Stdio::null())
                    .output(),
                // no schedule file: re-run the whole batch (same seeds, same schedules)
                _ => Command::new(threads_bin())
                    .args(["run", "--seed", &seed.to_string(), "--from", &batch.to_string(), "--batches", "1", "--iters", "250"])
                    .stdin(Stdio::null())
                    .stderr(Stdio::null())
                    .output(),
            };
            match out {
                Ok(o) => {
                    let txt = String::from_utf8_lossy(&o.stdout);
                    if txt.contains("violation reproduced") || txt.contains("\"failure\"") {
                        Err(Failure::new(
                            "C19",
                            "same-result-on-every-thread-schedule",
                            "threads",
                            format!("batch {batch} scheduler {scheduler}: {}", message.lines().next().unwrap_or("")),
                        ))
                    } else {
                        Ok(())
                    }
                }
                Err(_) => Ok(()),
            }
        }
        SideCase::Miri {
            scenario_seed,
            seeds,
            rate,
        } => match run_miri(*scenario_seed, seeds, rate) {
            MiriOutcome::Violation(d) => Err(Failure::new("C19", "miri-threads", "miri", d)),
            _ => Ok(()),
        },
    }
}

enum MiriOutcome {
    Ok(u64),
    Violation(String),
    Unavailable(String),
}

fn run_miri(scenario_seed: u64, seeds: &str, rate: &str) -> MiriOutcome {
    let dir = std::env::var("VERIF_MIRI_DIR")
        .map(std::path::PathBuf::from)
        .unwrap_or_else(|_| verif_root().join("sim/miri"));
    if !dir.exists() {
        return MiriOutcome::Unavailable("sim/miri missing".into());
    }
    let out = Command::new("cargo")
        .current_dir(&dir)
        .env("MIRIFLAGS", format!("-Zmiri-many-seeds={seeds} -Zmiri-preemption-rate={rate}"))
        .env("CARGO_NET_OFFLINE", "true")
        .env_remove("RUSTFLAGS")
        .args(["+nightly", "miri", "run", "--offline", "--", "threads", &scenario_seed.to_string()])
        .stdin(Stdio::null())
        .output();
    let out = match out {
        Ok(o) => o,
        Err(e) => return MiriOutcome::Unavailable(format!("cannot start cargo miri: {e}")),
    };
    let so = String::from_utf8_lossy(&out.stdout).to_string();
    let se = String::from_utf8_lossy(&out.stderr).to_string();
    let oks = so.matches("threads scenario ok").count() as u64;
    let all = format!("{so}\n{se}");
    if all.contains("C19-MIRI") || all.contains("Undefined Behavior") || all.contains("Data race") || all.contains("data race") {
        let line = all
            .lines()
            .find(|l| l.contains("C19-MIRI") || l.contains("Undefined Behavior") || l.to_lowercase().contains("data race"))
            .unwrap_or("")
            .trim()
            .to_string();
        return MiriOutcome::Violation(format!(
            "Miri (scenario seed {scenario_seed}, interpreter seeds {seeds}, preemption rate {rate}): {line}"
        ));
    }
    if oks == 0 {
        let tail: Vec<&str> = se.lines().rev().take(4).collect();
        return MiriOutcome::Unavailable(format!("no scenario completed; exit {:?}; {}", out.status.code(), tail.join(" | ")));
    }
    MiriOutcome::Ok(oks)
}

pub fn run_side_crates(tier: Tier, seed: u64, obs: &mut Obs) -> Vec<(Value, Failure)> {
    let mut fails = Vec::new();
    // ---- shuttle ----
    let bin = threads_bin();
    if bin.exists() {
        let (batches, iters): (u64, u64) = tier.pick((32, 60), (640, 160));
        let procs = 16u64;
        let persist = out_root().join("replays/shuttle");
        let _ = std::fs::create_dir_all(&persist);
        let mut children = Vec::new();
        for p in 0..procs {
            let from = batches * p / procs;
            let to = batches * (p + 1) / procs;
            if from >= to {
                continue;
            }
            let c = Command::new(&bin)
                .args([
                    "run",
                    "--seed",
                    &seed.to_string(),
                    "--from",
                    &from.to_string(),
                    "--batches",
                    &(to - from).to_string(),
                    "--iters",
                    &iters.to_string(),
                    "--persist",
                    persist.to_str().unwrap_or("."),
                ])
                .stdin(Stdio::null())
                .stdout(Stdio::piped())
                .stderr(Stdio::null())
                .spawn();
            if let Ok(c) = c {
                children.push(c);
            }
        }
        for c in children {
            if let Ok(o) = c.wait_with_output() {
                for line in String::from_utf8_lossy(&o.stdout).lines() {
                    let v: Value = match serde_json::from_str(line) {
                        Ok(v) => v,
                        Err(_) => continue,
                    };
                    if let Some(f) = v.get("failure") {
                        if let Ok(f) = serde_json::from_value::<Failure>(f.clone()) {
                            let msg = v["message"].as_str().unwrap_or("").to_string();
                            // shuttle names the persisted schedule file in its panic message
                            let file = msg
                                .split_whitespace()
                                .find(|w| w.contains("schedule") && w.contains(persist.to_str().unwrap_or("/")))
                                .map(|w| w.trim_matches(|c: char| c == '\'' || c == '"' || c == ',' || c == '.').to_string());
                            let case = SideCase::Threads {
                                seed,
                                batch: v["batch"].as_u64().unwrap_or(0),
                                scheduler: v["scheduler"].as_str().unwrap_or("").to_string(),
                                schedule_file: file,
                                message: msg,
                            };
                            if fails.len() < 3 {
                                fails.push((json!({"Side": case}), f));
                            }
                        }
                    } else {
                        let n = v["iterations"].as_u64().unwrap_or(0);
                        obs.add(&format!("shuttle-iterations-{}", v["scheduler"].as_str().unwrap_or("?")), n);
                        obs.add(&format!("shuttle-batches-with-{}-threads", v["threads"].as_u64().unwrap_or(0)), 1);
                        obs.evaluations += n;
                    }
                }
            }
        }
    } else {
        obs.count("note:shuttle-binary-missing");
    }
    // ---- Miri ----
    let (seeds, rate) = tier.pick(("0..4", "0.1"), ("0..64", "0.1"));
    let scenario_seed = seed % 1000;
    match run_miri(scenario_seed, seeds, rate) {
        MiriOutcome::Ok(n) => {
            obs.add("miri-interleavings-completed", n);
            obs.evaluations += n * 28;
        }
        MiriOutcome::Violation(d) => {
            let case = SideCase::Miri {
                scenario_seed,
                seeds: seeds.to_string(),
                rate: rate.to_string(),
            };
            fails.push((json!({"Side": case}), Failure::new("C19", "miri-threads", "miri", d)));
        }
        MiriOutcome::Unavailable(why) => {
            // not a property violation and not silently dropped either
            obs.count("note:miri-unavailable");
            println!("NOTE C19: Miri part skipped ({why})");
        }
    }
    fails
}

/// Replay a seeded sample of inputs through the crate's own SliceReader
/// under Miri (C02 / C13 thorough tier): a stricter memory monitor for the
/// same simulated runs, not a search engine. `Ok(n)` = n inputs replayed;
/// `Err((violation?, text))`.
pub fn run_miri_sample(tag: &str, lines: &[String]) -> Result<u64, (bool, String)> {
    let dir = std::env::var("VERIF_MIRI_DIR")
        .map(std::path::PathBuf::from)
        .unwrap_or_else(|_| verif_root().join("sim/miri"));
    if !dir.exists() {
        return Err((false, "sim/miri missing".into()));
    }
    let out_dir = out_root().join("replays");
    let _ = std::fs::create_dir_all(&out_dir);
    let file = out_dir.join(format!("miri-sample-{tag}.txt"));
    if std::fs::write(&file, lines.join("\n")).is_err() {
        return Err((false, "cannot write the sample file".into()));
    }
    let out = Command::new("cargo")
        .current_dir(&dir)
        .env("MIRIFLAGS", "-Zmiri-disable-isolation")
        .env("CARGO_NET_OFFLINE", "true")
        .env_remove("RUSTFLAGS")
        .args(["+nightly", "miri", "run", "--offline", "--", "sample", file.to_str().unwrap_or("")])
        .stdin(Stdio::null())
        .output();
    let out = match out {
        Ok(o) => o,
        Err(e) => return Err((false, format!("cannot start cargo miri: {e}"))),
    };
    let so = String::from_utf8_lossy(&out.stdout).to_string();
    let se = String::from_utf8_lossy(&out.stderr).to_string();
    if se.contains("Undefined Behavior") || se.contains("error: unsupported operation") && se.contains("out-of-bounds") {
        let line = se.lines().find(|l| l.contains("Undefined Behavior")).unwrap_or("").trim().to_string();
        return Err((true, format!("Miri reports on the sample {}: {line}", file.display())));
    }
    if let Some(l) = so.lines().find(|l| l.starts_with("sample ok")) {
        let n = l.split_whitespace().nth(2).and_then(|x| x.parse().ok()).unwrap_or(0);
        return Ok(n);
    }
    let tail: Vec<&str> = se.lines().rev().take(3).collect();
    Err((false, format!("sample did not complete; exit {:?}; {}", out.status.code(), tail.join(" | "))))
}
