//! Drivers for the two side crates of C19 (shuttle schedules, Miri
//! preemption). Filled in by `threads/` and `miri/`.

use crate::core::*;
use serde_json::Value;

pub fn run_side_crates(_tier: Tier, _seed: u64, _obs: &mut Obs) -> Vec<(Value, Failure)> {
    Vec::new()
}
