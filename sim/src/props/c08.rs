//! C08: decoding consumes exactly the declared length; octets beyond it have
//! no influence. History checks over one reader (several decodes from one
//! buffer), with the transport's coalescing and trailing-octet faults.

use crate::conv::*;
use crate::core::*;
use crate::deliver::*;
use crate::gen::*;
use crate::model::*;
use crate::records::*;
use crate::rng::{fnv1a, Rng};
use crate::seams::*;
use rl2tp::common::{DecodeError, Reader, SliceReader};
use rl2tp::Message;
use serde::{Deserialize, Serialize};
use serde_json::json;

#[derive(Clone, Debug, Serialize, Deserialize)]
pub enum Case08 {
    /// k messages coalesced into one buffer, then a trail
    Pack {
        msgs: Vec<HexBytes>,
        #[serde(with = "hexser")]
        trail: Vec<u8>,
        reader: ReaderCfg,
        opts: u8,
    },
    /// AVP records with usable lengths, decoded together and one by one
    Tiling {
        records: Vec<HexBytes>,
        reader: ReaderCfg,
    },
}

#[derive(Clone, Debug, PartialEq, Eq, Serialize, Deserialize)]
pub struct HexBytes(#[serde(with = "hexser")] pub Vec<u8>);

type SeqItem = (Result<SpecMessage, Vec<DecodeError>>, usize, usize);

/// k successive decodes from one reader over `b`:
/// (result, remaining after the call, highest octet index addressed so far).
fn decode_seq(b: &[u8], k: usize, opts: Opts, rcfg: &ReaderCfg) -> Result<Vec<SeqItem>, (usize, Caught)> {
    let mut sink = Vec::new();
    decode_seq_rf(b, k, opts, rcfg, &mut sink)
}

/// As `decode_seq`; the requests a `Refusing` reader declined go to `declined`.
fn decode_seq_rf(
    b: &[u8],
    k: usize,
    opts: Opts,
    rcfg: &ReaderCfg,
    declined: &mut Vec<(usize, usize)>,
) -> Result<Vec<SeqItem>, (usize, Caught)> {
    let mut out = Vec::new();
    match rcfg {
        ReaderCfg::Real => {
            let mut r = SliceReader::from(b);
            for i in 0..k {
                let res = guard(|| Message::<&[u8]>::try_read_validate(&mut r, crate_opts(opts)))
                    .map_err(|c| (i, c))?;
                out.push((res.map(|m| from_crate_msg(&m)), r.len(), 0));
            }
        }
        ReaderCfg::Slice | ReaderCfg::Reentrant { .. } | ReaderCfg::Refusing(_) => {
            let mon = Monitor::new(step_budget(b.len()) * k as u64 + 64, false);
            if let ReaderCfg::Refusing(c) = rcfg {
                mon.borrow_mut().refuse_cuts = c.clone();
            }
            // the nested use happens once, somewhere in the sequence
            let _slot = arm_reentry(&mon, rcfg);
            let mut r = SimSlice::new(b, mon.clone());
            for i in 0..k {
                let res = guard(|| Message::<&[u8]>::try_read_validate(&mut r, crate_opts(opts)))
                    .map_err(|c| (i, c))?;
                let hi = mon.borrow().touched_hi;
                let rem = r.len();
                out.push((res.map(|m| from_crate_msg(&m)), rem, hi));
            }
            *declined = std::mem::take(&mut mon.borrow_mut().refusals);
        }
        ReaderCfg::Sparse(_) => {
            // not used for packs
        }
        ReaderCfg::Owned | ReaderCfg::Segmented(_) => {
            let cuts: &[usize] = match rcfg {
                ReaderCfg::Segmented(c) => c,
                _ => &[],
            };
            let mon = Monitor::new(step_budget(b.len()) * k as u64 + 64, false);
            let mut r = SimSeg::new(b, cuts, mon.clone());
            for i in 0..k {
                let res = guard(|| Message::<Vec<u8>>::try_read_validate(&mut r, crate_opts(opts)))
                    .map_err(|c| (i, c))?;
                let hi = mon.borrow().touched_hi;
                let rem = r.len();
                out.push((res.map(|m| from_crate_msg(&m)), rem, hi));
            }
        }
    }
    Ok(out)
}

/// Declared length of an encoded message, from flag word and Length only.
/// `None`: a data message without length field (extends to the end).
fn declared_len(m: &[u8]) -> Option<usize> {
    if m.len() < 4 {
        return None;
    }
    let w = u16::from_be_bytes([m[0], m[1]]);
    if w & FLAG_L != 0 {
        Some(u16::from_be_bytes([m[2], m[3]]) as usize)
    } else {
        None
    }
}

fn kind(m: &[u8]) -> &'static str {
    if m.len() >= 2 && m[0] & 1 != 0 {
        "control"
    } else {
        "data-with-length"
    }
}

fn hexcut(b: &[u8]) -> String {
    to_hex(&b[..b.len().min(80)])
}

fn exec_c08(case: &Case08, obs: &mut Obs) -> Result<(), Failure> {
    match case {
        Case08::Pack {
            msgs,
            trail,
            reader,
            opts,
        } => {
            let o = Opts::from_index(*opts);
            // each message alone (self-relative reference)
            let mut alone = Vec::new();
            let mut ends = Vec::new();
            let mut buf = Vec::new();
            for (i, HexBytes(m)) in msgs.iter().enumerate() {
                let a = match decode_msg(m, Some(o), &ReaderCfg::Real, false) {
                    Ok(a) => a,
                    Err(_) => return Ok(()), // not decodable alone: C01/C04's business
                };
                let a = if a.result.is_err() {
                    // rejected alone: if the reference peer produced it as a
                    // valid message ("repeated decode of encode(m1)++..++
                    // encode(mk) yields m1..mk"), the reference decoder's
                    // value stands in; otherwise the property does not speak
                    match spec_decode(m, o).result {
                        Ok(v) => {
                            obs.count("probe:alone-rejected-reference-accepts");
                            MsgOut {
                                result: Ok(v),
                                remaining: 0,
                                mon: MonSnap::none(),
                            }
                        }
                        Err(_) => return Ok(()),
                    }
                } else {
                    a
                };
                let d = match declared_len(m) {
                    Some(d) if d == m.len() => d,
                    None if i + 1 == msgs.len() && trail.is_empty() => m.len(),
                    _ => return Ok(()), // generator invariant broken by shrinking
                };
                alone.push(a.result);
                buf.extend_from_slice(m);
                ends.push(buf.len());
                let _ = d;
            }
            buf.extend_from_slice(trail);
            let total = buf.len();
            obs.steps += msgs.len() as u64;
            let mut declined = Vec::new();
            let seq = decode_seq_rf(&buf, msgs.len(), o, reader, &mut declined).map_err(|(i, c)| {
                Failure::new(
                    "C08",
                    "back-to-back-decoding",
                    kind(&msgs[i].0),
                    format!(
                        "message #{i} of a pack of {} ({} octets + {} trailing) decodes alone but not from the shared reader: {}; buffer {}",
                        msgs.len(),
                        total - trail.len(),
                        trail.len(),
                        c.text(),
                        hexcut(&buf)
                    ),
                )
            })?;
            let refusing = matches!(reader, ReaderCfg::Refusing(_));
            if refusing {
                obs.count("fault:reader-declines-spans");
                obs.add("fault:read-declined", declined.len() as u64);
                if hidden_payload_declined(&buf, &declined) {
                    obs.count("skipped:hidden-payload-declined-unspecified");
                    return Ok(());
                }
            }
            for (j, (res, rem, hi)) in seq.iter().enumerate() {
                let cls = kind(&msgs[j].0);
                if refusing {
                    // read faults: results may differ by read errors only;
                    // a control message is still consumed to its declared end
                    read_fault_consistent(&alone[j], res).map_err(|d| {
                        Failure::new(
                            "C08",
                            "read-fault-changes-only-read-errors",
                            cls,
                            format!("decode #{j} through a reader that declines spans across {:?}: {}; buffer {}", reader, d, hexcut(&buf)),
                        )
                    })?;
                    if cls != "control" && res.is_err() {
                        break; // a declined payload is not consumed: nothing to say about what follows
                    }
                } else if res.as_ref().ok() != alone[j].as_ref().ok() || res.is_err() {
                    return Err(Failure::new(
                        "C08",
                        "back-to-back-decoding",
                        cls,
                        format!(
                            "decode #{j} from the shared reader gives {}, the message alone gives {}; buffer {} (message boundaries at {:?}, {} trailing octets)",
                            result_text(res),
                            result_text(&alone[j]),
                            hexcut(&buf),
                            ends,
                            trail.len()
                        ),
                    ));
                }
                if *rem != total - ends[j] {
                    return Err(Failure::new(
                        "C08",
                        "consumes-declared-length",
                        cls,
                        format!(
                            "after decode #{j} the reader holds {} octets; declared lengths leave {} (buffer of {} octets, boundaries {:?})",
                            rem,
                            total - ends[j],
                            total,
                            ends
                        ),
                    ));
                }
                if *hi > ends[j] {
                    return Err(Failure::new(
                        "C08",
                        "no-read-beyond-declared-end",
                        cls,
                        format!(
                            "while decoding message #{j} (declared end at offset {}) the decoder addressed octets up to offset {}",
                            ends[j],
                            hi
                        ),
                    ));
                }
            }
            Ok(())
        }
        Case08::Tiling { records, reader } => {
            let mut all = Vec::new();
            let mut expected = Vec::new();
            for HexBytes(r) in records {
                // each record must be well delimited: its own length field
                // covers exactly its octets
                if r.len() < 6 || (((r[0] >> 6) as usize) << 8 | r[1] as usize) != r.len() {
                    return Ok(());
                }
                let one = match decode_avps(r, &ReaderCfg::Real, false) {
                    Ok(o) => o,
                    Err(_) => return Ok(()),
                };
                if one.items.len() != 1 {
                    return Err(Failure::new(
                        "C08",
                        "avp-tiling",
                        "single-record",
                        format!("a single well-delimited record {} decodes to {} items", hexcut(r), one.items.len()),
                    ));
                }
                expected.extend(one.items);
                all.extend_from_slice(r);
            }
            obs.steps += 1;
            let got = match decode_avps(&all, reader, false) {
                Ok(g) => g,
                Err(c) => {
                    return Err(Failure::new(
                        "C08",
                        "avp-tiling",
                        "concatenation",
                        format!("each record decodes alone, the concatenation fails: {}; {}", c.text(), hexcut(&all)),
                    ))
                }
            };
            obs.reader_calls += got.mon.calls;
            if let Some(v) = got.mon.violations.first() {
                return Err(Failure::new("C08", "avp-tiling", "sub-reader-escape", format!("{v}; input {}", hexcut(&all))));
            }
            let same = got.items.len() == expected.len()
                && got.items.iter().zip(expected.iter()).all(|(a, b)| match (a, b) {
                    (Ok(x), Ok(y)) => x == y,
                    (Err(x), Err(y)) => err_kind(x) == err_kind(y),
                    _ => false,
                });
            if !same {
                let txt = |v: &Vec<Result<SpecAvp, DecodeError>>| {
                    v.iter()
                        .map(|x| match x {
                            Ok(a) => format!("Ok(attr {})", a.attr),
                            Err(e) => errs_text(std::slice::from_ref(e)),
                        })
                        .collect::<Vec<_>>()
                        .join(", ")
                };
                return Err(Failure::new(
                    "C08",
                    "avp-tiling",
                    "concatenation",
                    format!(
                        "decode_avps(r1++..++rk) = [{}] but decode_avps(r1)++..++decode_avps(rk) = [{}]; input {}",
                        txt(&got.items),
                        txt(&expected),
                        hexcut(&all)
                    ),
                ));
            }
            if got.remaining != 0 {
                return Err(Failure::new(
                    "C08",
                    "avp-tiling",
                    "remaining",
                    format!("{} octets left after decoding a sequence of complete records", got.remaining),
                ));
            }
            Ok(())
        }
    }
}

/// A message that carries its own length (control, or data with L).
fn self_delimiting(rng: &mut Rng, sw: &Swarm, opts: Opts, obs: &mut Obs) -> Vec<u8> {
    if rng.chance(2, 3) {
        let lim = *rng.pick(&[40usize, 120, 600]);
        let m = gen_control(rng, sw, lim);
        let tape = gen_knobs(rng, 40);
        let mut k = Knobs::new(&tape);
        let b = spec_encode_with(&m, &mut k, opts);
        if k.fired > 0 {
            obs.count("probe:foreign-noncanonical");
        }
        b
    } else {
        let mut m = gen_data(rng, sw);
        if let SpecMessage::Data { length, ns_nr, offset, data, .. } = &mut m {
            *length = Some((data_header_len(true, ns_nr.is_some(), offset.is_some()) + data.len()) as u16);
        }
        obs.count("probe:data-with-length-in-pack");
        // prefer the real encoder for data (Sender R)
        match to_crate_msg(&m, &cal_bits).and_then(|c| real_encode_msg(&c).ok()) {
            Some(b) => b,
            None => spec_encode(&m),
        }
    }
}

pub struct C08;

impl Scenario for C08 {
    type Case = Case08;
    const ID: &'static str = "C08";
    const LEVEL: &'static str = "exploration";
    fn runs(tier: Tier) -> u64 {
        tier.pick(300_000, 20_000_000)
    }
    fn profiles() -> &'static [Profile] {
        &[Profile::Release]
    }
    fn run(rng: &mut Rng, ctx: &mut Ctx) {
        let sw = Swarm::draw(rng);
        let mut wl = rng.fork("workload");
        let mut sm = rng.fork("seams");
        let opts = Opts::from_index(*wl.pick(&[0u8, 7, 7, 2, 5]));
        for k in 0..4 {
            let n = if ctx.run % 64 == 3 && k == 1 { wl.urange(20, 60) } else { wl.urange(1, 6) };
            let mut msgs = Vec::new();
            for _ in 0..n {
                msgs.push(HexBytes(self_delimiting(&mut wl, &sw, opts, ctx.obs)));
            }
            if wl.chance(1, 8) {
                // two different messages that a 32-bit fingerprint cannot
                // tell apart, back to back (or with one message between them)
                let (x, y, _) = crate::collisions::colliding_pair(&mut wl);
                let at = wl.usize_below(msgs.len() + 1);
                msgs.insert(at, HexBytes(spec_encode(&y)));
                if wl.chance(1, 4) {
                    let other = self_delimiting(&mut wl, &sw, opts, ctx.obs);
                    msgs.insert(at, HexBytes(other));
                }
                msgs.insert(at, HexBytes(spec_encode(&x)));
                ctx.obs.count("probe:fingerprint-colliding-messages-back-to-back");
            }
            // trailing octets: nothing, a few octets, a further valid
            // message, a valid AVP record, a UTF-8 continuation
            let trail = if ctx.run % 256 == 9 && k == 0 {
                ctx.obs.count("probe:trail-beyond-64k");
                let n = *wl.pick(&[65_524usize, 65_536, 65_600, 70_000]);
                if wl.bool() { vec![0u8; n] } else { wl.bytes(n) }
            } else { match wl.below(8) {
                0 | 1 => Vec::new(),
                2 => {
                    let n = *wl.pick(&[1usize, 5, 6, 12]);
                    wl.bytes(n)
                }
                3 => self_delimiting(&mut wl, &sw, opts, ctx.obs),
                4 => good_record(&mut wl, &sw, true).bytes,
                5 => vec![0x82, 0xAC, 0x80],
                6 => {
                    // a data message without length field may only come last
                    let mut m = gen_data(&mut wl, &sw);
                    if let SpecMessage::Data { length, .. } = &mut m {
                        *length = None;
                    }
                    msgs.push(HexBytes(spec_encode(&m)));
                    Vec::new()
                }
                _ => {
                    let n = wl.urange(1, 64);
                    wl.bytes(n)
                }
            } };
            if !trail.is_empty() {
                ctx.obs.count("fault:append-trail");
            }
            if msgs.len() > 1 {
                ctx.obs.count("fault:coalesce");
            }
            let total: usize = msgs.iter().map(|m| m.0.len()).sum();
            let reader = if sm.chance(1, 3) {
                ReaderCfg::Real
            } else if sm.chance(1, 8) && total + trail.len() <= 8192 {
                // read faults
                draw_refusing(&mut sm, total + trail.len())
            } else {
                draw_reader(&mut sm, total + trail.len())
            };
            let case = Case08::Pack {
                msgs,
                trail,
                reader,
                opts: opts.index(),
            };
            ctx.obs.distinct(fnv1a(&serde_json::to_vec(&case).unwrap()));
            if ctx.run == 0 && k < 2 {
                let c2 = case.clone();
                ctx.obs.sample(|| json!(c2));
            }
            ctx.check::<C08>(&case);
        }
        for _ in 0..3 {
            let n = wl.urange(1, 8);
            let mut records = Vec::new();
            for _ in 0..n {
                let r = if wl.chance(1, 3) {
                    let kind = *wl.pick(&NONTERMINAL);
                    bad_record(&mut wl, &sw, kind)
                } else {
                    good_record(&mut wl, &sw, true)
                };
                records.push(HexBytes(r.bytes));
            }
            let total: usize = records.iter().map(|m| m.0.len()).sum();
            let reader = draw_reader(&mut sm, total);
            let case = Case08::Tiling { records, reader };
            ctx.obs.distinct(fnv1a(&serde_json::to_vec(&case).unwrap()));
            ctx.check::<C08>(&case);
        }
    }
    fn execute(case: &Case08, obs: &mut Obs) -> Result<(), Failure> {
        exec_c08(case, obs)
    }
    fn shrink(case: &Case08) -> Vec<Case08> {
        let mut out = Vec::new();
        match case {
            Case08::Pack {
                msgs,
                trail,
                reader,
                opts,
            } => {
                for i in (0..msgs.len()).rev() {
                    if msgs.len() > 1 {
                        let mut m = msgs.clone();
                        m.remove(i);
                        out.push(Case08::Pack {
                            msgs: m,
                            trail: trail.clone(),
                            reader: reader.clone(),
                            opts: *opts,
                        });
                    }
                }
                if *reader != ReaderCfg::Real && *reader != ReaderCfg::Slice {
                    out.push(Case08::Pack {
                        msgs: msgs.clone(),
                        trail: trail.clone(),
                        reader: ReaderCfg::Slice,
                        opts: *opts,
                    });
                }
                for t in shrink_bytes(trail).into_iter().take(16) {
                    out.push(Case08::Pack {
                        msgs: msgs.clone(),
                        trail: t,
                        reader: reader.clone(),
                        opts: *opts,
                    });
                }
                for (i, HexBytes(m)) in msgs.iter().enumerate() {
                    for s in super::c05_c10::shrink_records(m, 12).into_iter().take(24) {
                        let mut ms = msgs.clone();
                        ms[i] = HexBytes(s);
                        out.push(Case08::Pack {
                            msgs: ms,
                            trail: trail.clone(),
                            reader: reader.clone(),
                            opts: *opts,
                        });
                    }
                }
            }
            Case08::Tiling { records, reader } => {
                for i in (0..records.len()).rev() {
                    if records.len() > 1 {
                        let mut r = records.clone();
                        r.remove(i);
                        out.push(Case08::Tiling {
                            records: r,
                            reader: reader.clone(),
                        });
                    }
                }
                if *reader != ReaderCfg::Slice {
                    out.push(Case08::Tiling {
                        records: records.clone(),
                        reader: ReaderCfg::Slice,
                    });
                }
                for (i, HexBytes(r)) in records.iter().enumerate() {
                    for s in super::c05_c10::shrink_records(r, 0).into_iter().take(8) {
                        let mut rs = records.clone();
                        rs[i] = HexBytes(s);
                        out.push(Case08::Tiling {
                            records: rs,
                            reader: reader.clone(),
                        });
                    }
                }
            }
        }
        out
    }
    fn meta() -> Meta {
        Meta {
            rule: "each run: 4 packs of 1-6 self-delimiting messages (control messages from the reference sender, canonical or foreign; data messages carrying a length field from the real encoder; a data message without length only as the last one) coalesced into one buffer and followed by a trail (nothing; 1/5/6/12 or up to 64 PRNG octets; a further valid message; a valid AVP record; UTF-8 continuation octets), decoded by k successive try_read_validate calls on ONE reader (the crate's SliceReader or a monitored back-end); plus 3 AVP-record lists (good records and bad records with usable lengths). History oracles: decode #j equals the decode of message j alone; the reader's len() after call j equals total minus the sum of declared lengths; the monitored reader was never asked for an octet at or beyond the declared end of the message being decoded; decode_avps(r1++..++rk) = decode_avps(r1)++..++decode_avps(rk) with every per-type decoder confined to its sub-reader. distinct_nontrivial = distinct packs / record lists.",
            assumptions: vec!["self-relative: the reference for each message is its own decode from an exact-fit buffer; the model is used only for declared lengths and to generate traffic"],
            real: vec!["Message::try_read_validate", "AVP::try_read_greedy", "SliceReader::subreader", "Message::write (data)"],
            stub: vec!["channel: coalescing and trailing-octet faults", "reference sender", "reader back-ends"],
            faults_not_applicable: "crash/restart, disk, partition, clock faults: no state, storage, membership or clock in rl2tp",
        }
    }
}
