//! Sender-side properties. C03, C04, C06 and C07 are the fault-free
//! baseline of the simulation (no fault or schedule space is searched for
//! them): Sender R encodes through a simulator-owned writer, the channel
//! delivers unaltered, Receiver R decodes under the strictest options.
//! C09 is a history property over one writer.

use crate::conv::*;
use crate::core::*;
use crate::deliver::*;
use crate::gen::*;
use crate::model::*;
use crate::rng::{fnv1a, Rng};
use crate::seams::*;
use rl2tp::avp::AVP;
use rl2tp::Message;
use serde::{Deserialize, Serialize};
use serde_json::json;

#[derive(Clone, Debug, PartialEq, Eq, Serialize, Deserialize)]
pub enum Value {
    Msg(SpecMessage),
    Avp(SpecAvp),
}

#[derive(Clone, Debug, Serialize, Deserialize)]
pub struct Case {
    pub values: Vec<Value>,
    pub writer: WriterCfg,
    #[serde(with = "hexser")]
    pub prefix: Vec<u8>,
    pub reader: ReaderCfg,
}

pub enum CrateValue {
    Msg(Message<Vec<u8>>),
    Avp(AVP),
}

pub fn to_crate(v: &Value) -> Option<CrateValue> {
    match v {
        Value::Msg(m) => to_crate_msg(m, &cal_bits).map(CrateValue::Msg),
        Value::Avp(a) => to_crate_avp(a, &cal_bits).map(CrateValue::Avp),
    }
}

/// What a re-entrant writer encodes, into a writer of its own, while it
/// serves a call of the encode in progress: a message that has nothing in
/// common with the one in progress.
fn sibling_encode() {
    use rl2tp::avp::types as t;
    let _ = guard(|| {
        let mut w = rl2tp::common::VecWriter::new();
        rl2tp::Message::<Vec<u8>>::Control(rl2tp::ControlMessage {
            length: 0,
            tunnel_id: 0x5151,
            session_id: 0x5252,
            ns: 0x5353,
            nr: 0x5454,
            avps: vec![
                AVP::MessageType(t::MessageType::Hello),
                AVP::HostName(t::HostName::from(b"nested-side-of-the-writer".to_vec())),
                AVP::AssignedTunnelId(t::AssignedTunnelId { value: 0x5555 }),
            ],
        })
        .write(&mut w);
    });
}

/// Encode `v` with the real encoder into `w` (one top-level encode call).
/// A `Reentrant*` writer that its check has not armed itself uses the
/// library while it serves this call: during `depth + 1` consecutive calls
/// from the `at`-th on it encodes an unrelated control message into a
/// writer of its own.
pub fn encode_into(v: &CrateValue, w: &mut SimWriter) -> Result<(), Caught> {
    w.begin_value();
    let armed_here = match (w.reentrant, w.reentry.is_none()) {
        (Some((at, depth)), true) => {
            w.reentry = Some((at as u64, Box::new(sibling_encode)));
            w.reentry_span = depth as u64 + 1;
            true
        }
        _ => false,
    };
    let r = guard(|| match v {
        CrateValue::Msg(m) => m.write(w),
        CrateValue::Avp(a) => a.write(w),
    });
    if armed_here {
        w.reentry = None;
        w.reentry_span = 1;
    }
    r
}

pub fn encode_fresh(v: &CrateValue) -> Result<Vec<u8>, Caught> {
    match v {
        CrateValue::Msg(m) => real_encode_msg(m),
        CrateValue::Avp(a) => real_encode_avp(a),
    }
}

fn spec_of(v: &Value) -> Vec<u8> {
    match v {
        Value::Msg(m) => spec_encode(m),
        Value::Avp(a) => spec_encode_avp(a),
    }
}

fn short(v: &Value) -> String {
    let s = serde_json::to_string(v).unwrap_or_default();
    if s.len() > 300 {
        format!("{}...", &s[..300])
    } else {
        s
    }
}

fn kind_class(v: &Value) -> String {
    match v {
        Value::Avp(a) => format!("avp-{}", if a.is_hidden() { "hidden".to_string() } else { a.attr.to_string() }),
        Value::Msg(SpecMessage::Control { .. }) => "control".into(),
        Value::Msg(SpecMessage::Data {
            length,
            ns_nr,
            offset,
            prio,
            ..
        }) => format!(
            "data{}{}{}{}",
            if length.is_some() { "-L" } else { "" },
            if ns_nr.is_some() { "-S" } else { "" },
            if offset.is_some() { "-O" } else { "" },
            if *prio { "-P" } else { "" }
        ),
    }
}

fn draw_writer(rng: &mut Rng) -> (WriterCfg, Vec<u8>) {
    let w = match rng.below(4) {
        0 => WriterCfg::Real,
        1 => WriterCfg::Vec,
        2 if rng.chance(1, 3) => {
            if rng.chance(1, 3) {
                WriterCfg::ReentrantDeep(rng.range(1, 14) as u8, rng.range(2, 4) as u8)
            } else {
                WriterCfg::Reentrant(rng.range(1, 12) as u8)
            }
        }
        3 if rng.chance(1, 3) => {
            // the patchable tail of a long stream: positions around and far
            // beyond the 16- and 32-bit marks
            let two32 = 1u64 << 32;
            WriterCfg::Based(match rng.below(8) {
                0 => two32,
                1 => two32 - *rng.pick(&[1u64, 2, 3, 5, 12, 24, 100]),
                2 => two32 - rng.range(1, 70_000),
                3 => two32 + rng.range(0, 70_000),
                4 => *rng.pick(&[1u64 << 31, (1 << 31) - 7, 1 << 33, 1 << 40, 1 << 48, 1 << 62]),
                5 => 65_536 * rng.range(1, 70_000) - rng.range(0, 14),
                6 => rng.range(1, 1 << 20),
                _ => rng.next_u64() >> rng.range(2, 40),
            })
        }
        _ => WriterCfg::Paged(*rng.pick(&[1usize, 2, 3, 7, 8, 13, 16, 64, 255, 256])),
    };
    let sides = if rng.chance(1, 24) { 9 } else { 8 };
    let pl = match rng.below(sides) {
        8 => *rng.pick(&[65_532usize, 65_533, 65_534, 65_535, 65_536, 65_540, 131_070, 131_072]),
        0 | 1 => 0,
        2 => 1,
        3 => 2,
        4 => 3,
        5 => *rng.pick(&[7usize, 255, 256, 4095]),
        6 => rng.urange(0, 5000),
        _ => rng.urange(0, 40),
    };
    let prefix = if pl >= 20 && rng.bool() {
        // adversarial: a prefix that is itself a valid control message, so a
        // back-patch at absolute offset 2 would corrupt *its* Length field
        let mut p = spec_encode(&SpecMessage::Control {
            length: 0,
            tunnel_id: 1,
            session_id: 2,
            ns: 3,
            nr: 4,
            avps: vec![SpecAvp {
                attr: 0,
                val: Val::Code(6),
            }],
        });
        p.extend_from_slice(&rng.bytes(pl - 20));
        p
    } else {
        rng.bytes(pl)
    };
    (w, prefix)
}

fn shrink_case(c: &Case) -> Vec<Case> {
    let mut out = Vec::new();
    if c.values.len() > 1 {
        for i in (0..c.values.len()).rev() {
            let mut v = c.values.clone();
            v.remove(i);
            out.push(Case {
                values: v,
                ..c.clone()
            });
        }
    }
    if let WriterCfg::ReentrantDeep(at, d) = c.writer {
        out.push(Case {
            writer: if d > 2 { WriterCfg::ReentrantDeep(at, d - 1) } else { WriterCfg::Reentrant(at) },
            ..c.clone()
        });
    }
    if c.writer != WriterCfg::Vec && c.writer != WriterCfg::Real && !matches!(c.writer, WriterCfg::Reentrant(_) | WriterCfg::ReentrantDeep(..)) {
        out.push(Case {
            writer: WriterCfg::Vec,
            ..c.clone()
        });
    }
    if c.reader != ReaderCfg::Real {
        out.push(Case {
            reader: ReaderCfg::Real,
            ..c.clone()
        });
    }
    if !c.prefix.is_empty() {
        out.push(Case {
            prefix: Vec::new(),
            ..c.clone()
        });
        out.push(Case {
            prefix: vec![0xEE; 1],
            ..c.clone()
        });
        out.push(Case {
            prefix: vec![0xEE; c.prefix.len()],
            ..c.clone()
        });
    }
    for (i, v) in c.values.iter().enumerate() {
        let cands: Vec<Value> = match v {
            Value::Msg(m) => shrink_msg(m).into_iter().map(Value::Msg).collect(),
            Value::Avp(a) => shrink_avp(a).into_iter().map(Value::Avp).collect(),
        };
        for s in cands {
            let mut vs = c.values.clone();
            vs[i] = s;
            out.push(Case {
                values: vs,
                ..c.clone()
            });
        }
    }
    out
}

fn probes_for(v: &Value, enc_len: usize, obs: &mut Obs) {
    match v {
        Value::Avp(_) => {
            if enc_len > 255 {
                obs.count("probe:avp-length-needs-high-bits");
            }
            if enc_len == 1023 {
                obs.count("probe:avp-length-1023");
            }
        }
        Value::Msg(SpecMessage::Control { avps, .. }) => {
            if enc_len > 255 {
                obs.count("probe:message-length-gt-255");
            }
            if enc_len >= 32768 {
                obs.count("probe:message-length-ge-32768");
            }
            if enc_len == 65535 {
                obs.count("probe:message-length-65535");
            }
            if avps.is_empty() {
                obs.count("probe:zlb");
            }
            if avps.iter().any(|a| encoded_len(a) > 255) {
                obs.count("probe:avp-length-needs-high-bits");
            }
        }
        _ => {}
    }
}

const STUBS: [&str; 3] = [
    "writer back-ends: SimWriter flat / paged (harness implementations of rl2tp::Writer) with a PRNG prefix",
    "reader back-ends: SimSlice / SimSeg (harness implementations of rl2tp::Reader)",
    "channel: delivers octets unaltered (fault-free configuration)",
];
const NA_BASELINE: &str = "message loss, duplication, reordering, corruption in transit, crash, disk and clock faults do not apply: the property speaks of values the caller hands to the encoder, not of traffic; injected instead: execution environments and seam behaviours (see faults_fired)";

// ===========================================================================
// C03
// ===========================================================================

pub struct C03;

/// Several values in one case are a history: each is encoded and decoded
/// in turn on one thread (of its own), and each must round-trip.
fn exec_c03(case: &Case, obs: &mut Obs) -> Result<(), Failure> {
    if case.values.len() <= 1 {
        return exec_c03_one(case, obs);
    }
    obs.count("probe:round-trip-history");
    on_fresh_thread(|| {
        for (i, v) in case.values.iter().enumerate() {
            let one = Case {
                values: vec![v.clone()],
                writer: case.writer.clone(),
                prefix: case.prefix.clone(),
                reader: case.reader.clone(),
            };
            if let Err(mut f) = exec_c03_one(&one, obs) {
                f.class = format!("history:{}", f.class);
                f.detail = format!("value #{i} of {} values round-tripped one after the other: {}", case.values.len(), f.detail);
                return Err(f);
            }
        }
        Ok(())
    })
}

fn exec_c03_one(case: &Case, obs: &mut Obs) -> Result<(), Failure> {
    let v = match case.values.first() {
        Some(v) => v,
        None => return Ok(()),
    };
    let cv = match to_crate(v) {
        Some(c) => c,
        None => {
            obs.count("skipped:no-crate-representation");
            return Ok(());
        }
    };
    let cls = kind_class(v);
    let mut w = SimWriter::new(&case.writer, &case.prefix);
    if let Err(c) = encode_into(&cv, &mut w) {
        return Err(Failure::new(
            "C03",
            "encodable-value-encodes",
            &cls,
            format!("encoding a value of the encodable domain failed: {}; value {}", c.text(), short(v)),
        ));
    }
    obs.writer_calls += w.calls;
    let all = w.contents();
    if all.len() < case.prefix.len() {
        return Ok(()); // C09's business
    }
    let enc = &all[case.prefix.len()..];
    probes_for(v, enc.len(), obs);
    obs.steps += 2;
    match (&cv, v) {
        (CrateValue::Msg(m), Value::Msg(_)) => {
            // what node A sent, in model terms, with length := |encode(m)|
            let mut sent = from_crate_msg(m);
            if let SpecMessage::Control { length, .. } = &mut sent {
                *length = enc.len() as u16;
            }
            let out = decode_msg(enc, Some(Opts::STRICT), &case.reader, false).map_err(|c| {
                Failure::new(
                    "C03",
                    "round-trip",
                    &cls,
                    format!("decoding the encoder's own output failed: {}; octets {}", c.text(), to_hex(&enc[..enc.len().min(80)])),
                )
            })?;
            obs.reader_calls += out.mon.calls;
            match &out.result {
                Ok(got) if *got == sent => Ok(()),
                other => Err(Failure::new(
                    "C03",
                    "round-trip",
                    &cls,
                    format!(
                        "decode_strict(encode(m)) = {} but m = {} ({} octets emitted: {})",
                        result_text(other),
                        short(&Value::Msg(sent)),
                        enc.len(),
                        to_hex(&enc[..enc.len().min(80)])
                    ),
                )),
            }
        }
        (CrateValue::Avp(a), Value::Avp(_)) => {
            let sent = from_crate_avp(a);
            let out = decode_avps(enc, &case.reader, false).map_err(|c| {
                Failure::new(
                    "C03",
                    "round-trip",
                    &cls,
                    format!("decoding the encoder's own output failed: {}; octets {}", c.text(), to_hex(&enc[..enc.len().min(80)])),
                )
            })?;
            obs.reader_calls += out.mon.calls;
            let ok = out.items.len() == 1 && matches!(&out.items[0], Ok(g) if *g == sent);
            if ok {
                Ok(())
            } else {
                Err(Failure::new(
                    "C03",
                    "round-trip",
                    &cls,
                    format!(
                        "decode_avps(encode(a)) gave {} item(s) {:?}, a = {} (octets {})",
                        out.items.len(),
                        out.items.iter().map(|x| match x { Ok(a) => serde_json::to_string(a).unwrap_or_default(), Err(e) => errs_text(std::slice::from_ref(e)) }).collect::<Vec<_>>(),
                        short(v),
                        to_hex(&enc[..enc.len().min(80)])
                    ),
                ))
            }
        }
        _ => Ok(()),
    }
}

impl Scenario for C03 {
    type Case = Case;
    const ID: &'static str = "C03";
    const LEVEL: &'static str = "exploration";
    fn runs(tier: Tier) -> u64 {
        tier.pick(300_000, 20_000_000)
    }
    fn profiles() -> &'static [Profile] {
        &[Profile::Release]
    }
    fn run(rng: &mut Rng, ctx: &mut Ctx) {
        let sw = Swarm::draw(rng);
        let mut wl = rng.fork("workload");
        let mut sm = rng.fork("seams");
        // every kind appears in every batch: cycle the 39 kinds over runs
        let forced = ALL_ATTRS[(ctx.run % 39) as usize];
        let mut values = Vec::new();
        values.push(Value::Avp(gen_avp_of(&mut wl, &sw, forced)));
        let mut swb = sw.clone();
        swb.size = SizeRegime::Boundary;
        values.push(Value::Avp(gen_avp_of(&mut wl, &swb, forced)));
        values.push(Value::Avp(gen_hidden(&mut wl, &sw)));
        for _ in 0..3 {
            values.push(Value::Avp(gen_avp(&mut wl, &sw)));
        }
        let limit = if wl.chance(1, 30) {
            65535
        } else {
            *wl.pick(&[64usize, 300, 1500, 5000])
        };
        let mut sw2 = sw.clone();
        if limit == 65535 {
            sw2.size = SizeRegime::Boundary;
            sw2.max_avps = 90;
        }
        for _ in 0..4 {
            values.push(Value::Msg(gen_control(&mut wl, &sw2, limit)));
        }
        for (k, v) in values.into_iter().enumerate() {
            let (writer, prefix) = draw_writer(&mut sm);
            let reader = if sm.chance(1, 4) {
                ReaderCfg::Real
            } else {
                draw_reader(&mut sm, 64)
            };
            let nontrivial = match &v {
                Value::Msg(SpecMessage::Control { avps, .. }) => avps.len() >= 2,
                Value::Avp(a) => encoded_len(a) > 8,
                _ => false,
            };
            if nontrivial {
                ctx.obs.distinct(fnv1a(&serde_json::to_vec(&v).unwrap()));
            }
            let case = Case {
                values: vec![v],
                writer,
                prefix,
                reader,
            };
            if ctx.run == 0 && k < 2 {
                let c2 = case.clone();
                ctx.obs.sample(|| json!(c2));
            }
            ctx.check::<C03>(&case);
        }
        // a history of related messages: near-copies of one message, or two
        // different messages that a 32-bit fingerprint cannot tell apart
        if ctx.history_this_run() {
            let values: Vec<Value> = if wl.chance(1, 3) {
                let (x, y, _) = crate::collisions::colliding_pair(&mut wl);
                let mut v = vec![Value::Msg(x.clone()), Value::Msg(y)];
                if wl.bool() {
                    v.push(Value::Msg(x));
                }
                v
            } else {
                let base = gen_control(&mut wl, &sw, 300);
                let n = wl.urange(1, 3);
                let mut v = vec![Value::Msg(base.clone())];
                v.extend(related_messages(&mut wl, &base, n).into_iter().map(Value::Msg));
                v
            };
            let reader = if sm.bool() { ReaderCfg::Real } else { draw_reader(&mut sm, 64) };
            ctx.check::<C03>(&Case {
                values,
                writer: if sm.bool() { WriterCfg::Real } else { WriterCfg::Vec },
                prefix: Vec::new(),
                reader,
            });
        }
    }
    fn execute(case: &Case, obs: &mut Obs) -> Result<(), Failure> {
        exec_c03(case, obs)
    }
    fn shrink(case: &Case) -> Vec<Case> {
        shrink_case(case)
    }
    fn meta() -> Meta {
        Meta {
            rule: "NO TRANSPORT FAULT applies to this property (its quantifier has none); what is injected is the execution environment (one case in ten runs right after a refused operation on the same thread, or inside a destructor while the thread unwinds: faults_fired env-*) and the behaviour of the Reader/Writer seams. Each run draws a swarm (enabled AVP kinds, size regime incl. payloads of 249-257 and 1012-1017 octets, ASCII / multi-byte UTF-8 strings, uniform / extreme integers) and encodes 6 single AVPs (the run's forced kind twice, so all 39 kinds recur every 39 runs; one opaque hidden AVP of any attribute type) and 4 control messages (0-24 AVPs, occasionally filled to the 65535 limit) with the real encoder into a simulator-owned writer (real / flat / paged, PRNG prefix), then decodes strictly through a PRNG reader back-end; oracle decode_strict(encode(m)) = m[length := |encode(m)|]. distinct_nontrivial = distinct values that are control messages with >= 2 AVPs or single AVPs with more than 2 payload octets.",
            assumptions: vec![
                "values are compared field by field through public fields; the private bitmask word is observed through AVP::write",
                "the sent value is taken from the crate value actually handed to the encoder, so constructor defects (Bearer Capabilities) surface under C06, not here",
            ],
            real: vec!["Message::write", "AVP::write", "Message::try_read_validate (strict)", "AVP::try_read_greedy", "all 39 payload writers/readers + Hidden"],
            stub: STUBS.to_vec(),
            faults_not_applicable: NA_BASELINE,
        }
    }
}

// ===========================================================================
// C04
// ===========================================================================

pub struct C04;

fn exec_c04(case: &Case, obs: &mut Obs) -> Result<(), Failure> {
    let v = match case.values.first() {
        Some(v @ Value::Msg(SpecMessage::Data { .. })) => v,
        _ => return Ok(()),
    };
    let m = match v {
        Value::Msg(m) => m,
        _ => return Ok(()),
    };
    let cv = to_crate(v).unwrap();
    let cls = kind_class(v);
    let mut w = SimWriter::new(&case.writer, &case.prefix);
    if let Err(c) = encode_into(&cv, &mut w) {
        return Err(Failure::new(
            "C04",
            "encodable-value-encodes",
            &cls,
            format!("encoding failed: {}; value {}", c.text(), short(v)),
        ));
    }
    obs.writer_calls += w.calls;
    let all = w.contents();
    let enc = &all[case.prefix.len().min(all.len())..];
    let expected = data_expected_after_decode(m);
    obs.steps += 2;
    let out = decode_msg(enc, Some(Opts::STRICT), &case.reader, false).map_err(|c| {
        Failure::new(
            "C04",
            "round-trip",
            if cls.contains("-L") { "length-field" } else { &cls },
            format!(
                "decoding the encoder's own output failed: {}; {} octets {}; value {}",
                c.text(),
                enc.len(),
                to_hex(&enc[..enc.len().min(48)]),
                short(v)
            ),
        )
    })?;
    obs.reader_calls += out.mon.calls;
    if let ReaderCfg::Refusing(_) = &case.reader {
        // read faults: the result may differ from the fault-free one by a
        // read error only
        obs.add("fault:read-declined", out.mon.refusals.len() as u64);
        let base = Ok(expected.clone());
        return read_fault_consistent(&base, &out.result).map_err(|d| {
            Failure::new(
                "C04",
                "read-fault-changes-only-read-errors",
                &cls,
                format!("decoding {} through a reader that declines spans across {:?}: {}", to_hex(&enc[..enc.len().min(48)]), case.reader, d),
            )
        });
    }
    match &out.result {
        Ok(got) if *got == expected => {
            if out.remaining != 0 {
                return Err(Failure::new(
                    "C04",
                    "reader-empty-after-decode",
                    &cls,
                    format!("{} octets left in the reader after decoding {}", out.remaining, short(v)),
                ));
            }
            Ok(())
        }
        other => {
            // name the differing field for the class
            let field = match (other, &expected) {
                (
                    Ok(SpecMessage::Data { prio: gp, data: gd, length: gl, ns_nr: gs, .. }),
                    SpecMessage::Data { prio: ep, data: ed, length: el, ns_nr: es, .. },
                ) => {
                    if gp != ep {
                        "priority"
                    } else if gd != ed {
                        "payload"
                    } else if gl != el {
                        "length"
                    } else if gs != es {
                        "ns-nr"
                    } else {
                        "ids"
                    }
                }
                (Err(_), _) => "rejected",
                _ => "kind",
            };
            let has_l = cls.contains("-L");
            let root = match field {
                "priority" => "priority",
                "rejected" | "payload" | "length" if has_l => "length-field",
                "rejected" if cls.contains("-O") => "offset-field",
                other => other,
            };
            Err(Failure::new(
                "C04",
                "round-trip",
                root,
                format!(
                    "decode(encode(d)) = {} but expected {} ({} octets: {})",
                    result_text(other),
                    short(&Value::Msg(expected.clone())),
                    enc.len(),
                    to_hex(&enc[..enc.len().min(48)])
                ),
            ))
        }
    }
}

impl Scenario for C04 {
    type Case = Case;
    const ID: &'static str = "C04";
    const LEVEL: &'static str = "exploration";
    fn runs(tier: Tier) -> u64 {
        tier.pick(100_000, 6_000_000)
    }
    fn profiles() -> &'static [Profile] {
        &[Profile::Dev, Profile::Release]
    }
    fn run(rng: &mut Rng, ctx: &mut Ctx) {
        let sw = Swarm::draw(rng);
        let mut wl = rng.fork("workload");
        let mut sm = rng.fork("seams");
        let mut msgs: Vec<SpecMessage> = Vec::new();
        // complete lattice in every run: 16 flag combinations x boundary
        // payload sizes x boundary offsets (ids and octets from the PRNG)
        let sizes = [1usize, 2, 3, 255, 256];
        let size = sizes[(ctx.run % 5) as usize];
        for combo in 0..16u8 {
            let (l, s, o, p) = (combo & 1 != 0, combo & 2 != 0, combo & 4 != 0, combo & 8 != 0);
            let offs: Vec<Option<u16>> = if o {
                let max = (size - 1) as u16;
                let mut v = vec![Some(0), Some(max), Some(max.min(1))];
                v.dedup();
                v
            } else {
                vec![None]
            };
            for off in offs {
                let total = data_header_len(l, s, o) + size;
                msgs.push(SpecMessage::Data {
                    prio: p,
                    length: if l { Some(total as u16) } else { None },
                    tunnel_id: wl.extreme(16) as u16,
                    session_id: wl.extreme(16) as u16,
                    ns_nr: if s {
                        Some((wl.extreme(16) as u16, wl.extreme(16) as u16))
                    } else {
                        None
                    },
                    offset: off,
                    data: wl.bytes(size),
                });
            }
        }
        for _ in 0..8 {
            msgs.push(gen_data(&mut wl, &sw));
        }
        // the largest payloads
        if ctx.run % 16 == 0 {
            for &(l, s, o) in &[(true, true, true), (false, false, false), (true, false, false)] {
                let hdr = data_header_len(l, s, o);
                let dl = 65535 - hdr;
                msgs.push(SpecMessage::Data {
                    prio: wl.bool(),
                    length: if l { Some(65535) } else { None },
                    tunnel_id: wl.u16(),
                    session_id: wl.u16(),
                    ns_nr: if s { Some((wl.u16(), wl.u16())) } else { None },
                    offset: if o { Some(wl.range(0, 300) as u16) } else { None },
                    data: wl.bytes(dl),
                });
                ctx.obs.count("probe:data-total-65535");
            }
        }
        // without a length field nothing bounds a data message to 16 bits
        if ctx.run % 16 == 8 {
            for &(s, o) in &[(false, true), (true, true), (false, false)] {
                let dl = *wl.pick(&[65_536usize, 65_537, 65_540, 70_000, 131_073]);
                let off = if o {
                    Some(*wl.pick(&[1u16, 5, 300, 65_535]))
                } else {
                    None
                };
                msgs.push(SpecMessage::Data {
                    prio: wl.bool(),
                    length: None,
                    tunnel_id: wl.u16(),
                    session_id: wl.u16(),
                    ns_nr: if s { Some((wl.u16(), wl.u16())) } else { None },
                    offset: off,
                    data: wl.bytes(dl),
                });
                ctx.obs.count("probe:data-payload-beyond-64k");
            }
        }
        for (k, m) in msgs.into_iter().enumerate() {
            let (writer, prefix) = draw_writer(&mut sm);
            let reader = if sm.chance(1, 4) {
                ReaderCfg::Real
            } else if sm.chance(1, 8) {
                // read faults: discontinuities anywhere in header, padding or payload
                let guess = 14 + match &m {
                    SpecMessage::Data { data, .. } => data.len().min(4000),
                    _ => 0,
                };
                ctx.obs.count("fault:reader-declines-spans");
                draw_refusing(&mut sm, guess)
            } else {
                draw_reader(&mut sm, 32)
            };
            if let SpecMessage::Data { length, ns_nr, offset, prio, data, .. } = &m {
                let flags = length.is_some() as u64 | (ns_nr.is_some() as u64) << 1 | (offset.is_some() as u64) << 2 | (*prio as u64) << 3;
                ctx.obs.distinct(crate::rng::mix2(flags << 32 | (offset.unwrap_or(0) as u64) << 16 | data.len() as u64, fnv1a(data)));
                if offset.is_some() && data.len() == offset.unwrap() as usize + 1 {
                    ctx.obs.count("probe:offset-pad-plus-one-octet-payload");
                }
            }
            let case = Case {
                values: vec![Value::Msg(m)],
                writer,
                prefix,
                reader,
            };
            if ctx.run == 0 && k < 2 {
                let c2 = case.clone();
                ctx.obs.sample(|| json!(c2));
            }
            ctx.check::<C04>(&case);
        }
    }
    fn execute(case: &Case, obs: &mut Obs) -> Result<(), Failure> {
        exec_c04(case, obs)
    }
    fn shrink(case: &Case) -> Vec<Case> {
        shrink_case(case)
    }
    fn meta() -> Meta {
        Meta {
            rule: "NO TRANSPORT FAULT applies to this property (its quantifier has none); what is injected is the execution environment (one case in ten runs right after a refused operation on the same thread, or inside a destructor while the thread unwinds: faults_fired env-*) and the behaviour of the Reader/Writer seams. Every run covers the complete lattice of 16 L/S/O/P combinations x offset size {0, 1, |data|-1} at one of the payload sizes {1,2,3,255,256} (rotating over runs), plus 8 PRNG data messages and, every 16th run, 65535-octet totals; ids/Ns/Nr at extremes; length absent or the true total. Encoded by the real encoder into a simulator-owned writer, decoded under the strictest options through a PRNG reader back-end; oracle decode(encode(d)) = d[offset := None, data := data[n..]] and the reader is empty afterwards. distinct_nontrivial = distinct (flag combination, offset, payload) triples.",
            assumptions: vec!["length, when present, counts octets from the first flag octet (property text)"],
            real: vec!["Message::write (data)", "Message::try_read_validate (strict)"],
            stub: STUBS.to_vec(),
            faults_not_applicable: NA_BASELINE,
        }
    }
}

// ===========================================================================
// C06
// ===========================================================================

pub struct C06;

#[derive(Clone, Debug, Serialize, Deserialize)]
pub enum Case06 {
    Value(Case),
    /// bitmask AVP built through its public constructor, each capability
    /// passed to the parameter that bears its name
    Ctor { attr: u16, cap_a: bool, cap_b: bool },
    /// related values (the same message, one with another Ns, id, AVP value,
    /// AVP order ...) encoded one after the other on one thread; each must
    /// come out as the specification says
    History(Vec<Case>),
}

fn first_diff(a: &[u8], b: &[u8]) -> usize {
    a.iter()
        .zip(b.iter())
        .position(|(x, y)| x != y)
        .unwrap_or_else(|| a.len().min(b.len()))
}

fn exec_c06(case: &Case06, obs: &mut Obs) -> Result<(), Failure> {
    match case {
        Case06::History(steps) => {
            obs.count("probe:related-values-history");
            on_fresh_thread(|| {
                for (i, st) in steps.iter().enumerate() {
                    if let Err(mut f) = exec_c06(&Case06::Value(st.clone()), obs) {
                        if steps.len() > 1 {
                            f.class = format!("history:{}", f.class);
                            f.detail = format!("value #{i} of {} related values encoded one after the other: {}", steps.len(), f.detail);
                        }
                        return Err(f);
                    }
                }
                Ok(())
            })
        }
        Case06::Ctor { attr, cap_a, cap_b } => {
            let bits = match cal(*attr) {
                Ok(b) => b,
                Err(_) => return Ok(()), // accessor defect: C05's business
            };
            let avp = match guard(|| mask_via_ctor(*attr, *cap_a, *cap_b)) {
                Ok(Some(a)) => a,
                _ => return Ok(()),
            };
            let enc = real_encode_avp(&avp).map_err(|c| {
                Failure::new("C06", "octets-equal-spec", &format!("ctor-{attr}"), c.text())
            })?;
            let want_word = (if *cap_a { bits.a } else { 0 }) | (if *cap_b { bits.b } else { 0 });
            let want = spec_encode_avp(&SpecAvp {
                attr: *attr,
                val: Val::Mask(want_word),
            });
            obs.steps += 1;
            if enc != want {
                let names = match attr {
                    3 => ("async_framing_supported", "sync_framing_supported"),
                    4 => ("analog_access_supported", "digital_access_supported"),
                    _ => ("analog_request", "digital_request"),
                };
                return Err(Failure::new(
                    "C06",
                    "octets-equal-spec",
                    &format!("ctor-{attr}"),
                    format!(
                        "{} built with {}={}, {}={} encodes as {} but the specified octets are {} (accessor-calibrated bits: {}={:#x}, {}={:#x})",
                        name_of(*attr).unwrap_or("?"),
                        names.0, cap_a, names.1, cap_b,
                        to_hex(&enc), to_hex(&want),
                        names.0, bits.a, names.1, bits.b
                    ),
                ));
            }
            Ok(())
        }
        Case06::Value(c) => {
            let v = match c.values.first() {
                Some(v) => v,
                None => return Ok(()),
            };
            let cv = match to_crate(v) {
                Some(x) => x,
                None => {
                    obs.count("skipped:no-crate-representation");
                    return Ok(());
                }
            };
            let cls = kind_class(v);
            let mut w = SimWriter::new(&c.writer, &c.prefix);
            if let Err(e) = encode_into(&cv, &mut w) {
                return Err(Failure::new(
                    "C06",
                    "encodable-value-encodes",
                    &cls,
                    format!("encoding failed: {}; value {}", e.text(), short(v)),
                ));
            }
            obs.writer_calls += w.calls;
            obs.steps += 1;
            let all = w.contents();
            let enc = &all[c.prefix.len().min(all.len())..];
            let want = spec_of(v);
            probes_for(v, enc.len(), obs);
            if enc != &want[..] {
                let d = first_diff(enc, &want);
                return Err(Failure::new(
                    "C06",
                    "octets-equal-spec",
                    &cls,
                    format!(
                        "encoder output differs from the specification at offset {} (real {} octets, spec {}): real ..{}.., spec ..{}..; value {}",
                        d,
                        enc.len(),
                        want.len(),
                        to_hex(&enc[d.saturating_sub(8).min(enc.len())..(d + 8).min(enc.len())]),
                        to_hex(&want[d.saturating_sub(8).min(want.len())..(d + 8).min(want.len())]),
                        short(v)
                    ),
                ));
            }
            Ok(())
        }
    }
}

impl Scenario for C06 {
    type Case = Case06;
    const ID: &'static str = "C06";
    const LEVEL: &'static str = "exploration";
    fn runs(tier: Tier) -> u64 {
        tier.pick(300_000, 20_000_000)
    }
    fn profiles() -> &'static [Profile] {
        &[Profile::Release]
    }
    fn run(rng: &mut Rng, ctx: &mut Ctx) {
        let sw = Swarm::draw(rng);
        let mut wl = rng.fork("workload");
        let mut sm = rng.fork("seams");
        if ctx.run % 8 == 0 {
            for attr in [3u16, 4, 18, 19] {
                for combo in 0..4u8 {
                    ctx.check::<C06>(&Case06::Ctor {
                        attr,
                        cap_a: combo & 1 != 0,
                        cap_b: combo & 2 != 0,
                    });
                    ctx.obs.distinct(0xC7_0000 + (attr as u64) * 4 + combo as u64);
                }
            }
        }
        let forced = ALL_ATTRS[(ctx.run % 39) as usize];
        let mut values = Vec::new();
        values.push(Value::Avp(gen_avp_of(&mut wl, &sw, forced)));
        values.push(Value::Avp(gen_hidden(&mut wl, &sw)));
        for _ in 0..2 {
            values.push(Value::Avp(gen_avp(&mut wl, &sw)));
        }
        for _ in 0..3 {
            let limit = *wl.pick(&[64usize, 300, 1500, 5000]);
            values.push(Value::Msg(gen_control(&mut wl, &sw, limit)));
        }
        for _ in 0..3 {
            // data messages with stale / arbitrary length and offset values:
            // the encoder writes them verbatim
            let mut d = gen_data(&mut wl, &sw);
            if let SpecMessage::Data { length, offset, .. } = &mut d {
                if wl.bool() {
                    if length.is_some() {
                        *length = Some(wl.extreme(16) as u16);
                    }
                    if offset.is_some() {
                        *offset = Some(wl.extreme(16) as u16);
                    }
                }
            }
            values.push(Value::Msg(d));
        }
        for (k, v) in values.into_iter().enumerate() {
            let (writer, prefix) = draw_writer(&mut sm);
            let nontrivial = match &v {
                Value::Msg(SpecMessage::Control { avps, .. }) => avps.len() >= 2,
                Value::Msg(_) => true,
                Value::Avp(a) => encoded_len(a) > 8,
            };
            if nontrivial {
                ctx.obs.distinct(fnv1a(&serde_json::to_vec(&v).unwrap()));
            }
            let case = Case06::Value(Case {
                values: vec![v],
                writer,
                prefix,
                reader: ReaderCfg::Real,
            });
            if ctx.run == 1 && k < 2 {
                let c2 = case.clone();
                ctx.obs.sample(|| json!(c2));
            }
            ctx.check::<C06>(&case);
        }
        // related values one after the other
        if ctx.history_this_run() {
            let limit = *wl.pick(&[64usize, 300, 1500]);
            let base = if wl.chance(3, 4) { gen_control(&mut wl, &sw, limit) } else { gen_data(&mut wl, &sw) };
            let n = wl.urange(2, 5);
            let mut steps = vec![Case {
                values: vec![Value::Msg(base.clone())],
                writer: WriterCfg::Real,
                prefix: Vec::new(),
                reader: ReaderCfg::Real,
            }];
            for m in related_messages(&mut wl, &base, n) {
                let (writer, prefix) = if sm.chance(1, 3) { draw_writer(&mut sm) } else { (WriterCfg::Real, Vec::new()) };
                steps.push(Case {
                    values: vec![Value::Msg(m)],
                    writer,
                    prefix,
                    reader: ReaderCfg::Real,
                });
            }
            ctx.check::<C06>(&Case06::History(steps));
        }
    }
    fn execute(case: &Case06, obs: &mut Obs) -> Result<(), Failure> {
        exec_c06(case, obs)
    }
    fn shrink(case: &Case06) -> Vec<Case06> {
        match case {
            Case06::History(steps) => {
                let mut out = Vec::new();
                if steps.len() == 1 {
                    out.push(Case06::Value(steps[0].clone()));
                }
                for i in 0..steps.len() {
                    let mut v = steps.clone();
                    v.remove(i);
                    if !v.is_empty() {
                        out.push(Case06::History(v));
                    }
                }
                for i in 0..steps.len() {
                    for alt in shrink_case(&steps[i]).into_iter().take(10) {
                        let mut v = steps.clone();
                        v[i] = alt;
                        out.push(Case06::History(v));
                    }
                }
                out
            }
            Case06::Ctor { .. } => Vec::new(),
            Case06::Value(c) => shrink_case(c).into_iter().map(Case06::Value).collect(),
        }
    }
    fn meta() -> Meta {
        Meta {
            rule: "NO TRANSPORT FAULT applies to this property (its quantifier has none); what is injected is the execution environment (one case in ten runs right after a refused operation on the same thread, or inside a destructor while the thread unwinds: faults_fired env-*) and the behaviour of the Reader/Writer seams. Same swarm workload as C03 plus data messages with stale/arbitrary length and offset values and, every 8th run, the four bitmask kinds built through their public constructors for all four argument pairs; the real encoder's octets (simulator-owned writer, PRNG prefix removed) must equal the reference encoder's byte for byte; the first differing offset is reported. distinct_nontrivial = distinct values (control with >= 2 AVPs, data messages, AVPs with > 2 payload octets, constructor argument pairs).",
            assumptions: vec![
                "trusted base: the reference encoder in /verif/sim/src/model (written from RFC 2661 with the crate's bit numbering, cross-checked against the repository's octet vectors in selftest)",
                "which of the two low-octet bits carries which named capability is calibrated from each kind's own public accessors, so a repair on either side (constructor or accessor) is accepted",
            ],
            real: vec!["Message::write", "AVP::write", "all payload writers", "bitmask constructors"],
            stub: vec![STUBS[0], "reference encoder (model)"],
            faults_not_applicable: NA_BASELINE,
        }
    }
}

// ===========================================================================
// C07
// ===========================================================================

pub struct C07;

#[derive(Clone, Debug, Serialize, Deserialize)]
pub enum Case07 {
    Value(Case),
    Hide {
        avp: SpecAvp,
        #[serde(with = "hexser")]
        secret: Vec<u8>,
        rv: [u8; 4],
        #[serde(with = "hexser")]
        lp: Vec<u8>,
    },
}

/// A crate AVP with an over-long payload (no model counterpart needed).
fn oversize_avp(rng: &mut Rng, payload: usize) -> SpecAvp {
    let attr = *rng.pick(&[7u16, 11, 26, 30, 37, 8, 21]);
    let val = match fmt_of(attr) {
        Some(Fmt::Str) => Val::Str(utf8_of_len(rng, payload, StrRegime::Ascii)),
        _ => Val::Bytes(rng.bytes(payload)),
    };
    SpecAvp { attr, val }
}

fn exec_c07(case: &Case07, obs: &mut Obs) -> Result<(), Failure> {
    match case {
        Case07::Hide { avp, secret, rv, lp } => {
            let a = match to_crate_avp(avp, &cal_bits) {
                Some(a) => a,
                None => return Ok(()),
            };
            let payload = spec_payload(avp);
            let rvv = rl2tp::avp::types::RandomVector::from(*rv);
            let ap = [0x5Au8; 16];
            obs.steps += 1;
            let r = guard(|| a.hide(secret, &rvv, lp, &ap));
            let h = match r {
                Err(_) => {
                    obs.count("probe:hide-refused");
                    return Ok(()); // refused loudly
                }
                Ok(AVP::Hidden(h)) => h,
                Ok(_) => return Ok(()),
            };
            let plain = match spec_decrypt(h.attribute_type, &h.value, secret, &rv[..]) {
                Some(p) => p,
                None => {
                    return Err(Failure::new(
                        "C07",
                        "hidden-original-length-exact",
                        "hide",
                        format!("hide returned a value of {} octets (not a positive multiple of 16)", h.value.len()),
                    ))
                }
            };
            let l = u16::from_be_bytes([plain[0], plain[1]]) as usize;
            if l != payload.len() && l != payload.len() + 6 {
                return Err(Failure::new(
                    "C07",
                    "hidden-original-length-exact",
                    "hide",
                    format!(
                        "hide returned normally for a {}-octet payload but stored original length {} (neither |value| nor 6+|value|): wrapped or clipped",
                        payload.len(),
                        l
                    ),
                ));
            }
            // encoding the hidden AVP: exact or refused
            let enc = guard(|| {
                let mut w = SimWriter::new(&WriterCfg::Vec, &[]);
                w.begin_value();
                AVP::Hidden(h.clone()).write(&mut w);
                w.contents()
            });
            if let Ok(enc) = enc {
                let len = (((enc[0] >> 6) as usize) << 8) | enc[1] as usize;
                if len != enc.len() {
                    return Err(Failure::new(
                        "C07",
                        "avp-length-exact",
                        "avp-hidden",
                        format!("hidden AVP of {} octets carries length field {}", enc.len(), len),
                    ));
                }
            } else {
                obs.count("probe:hidden-avp-write-refused");
            }
            Ok(())
        }
        Case07::Value(c) => {
            let v = match c.values.first() {
                Some(v) => v,
                None => return Ok(()),
            };
            let cv = match to_crate(v) {
                Some(x) => x,
                None => return Ok(()),
            };
            let cls = kind_class(v);
            let mut w = SimWriter::new(&c.writer, &c.prefix);
            obs.steps += 1;
            let r = encode_into(&cv, &mut w);
            obs.writer_calls += w.calls;
            if r.is_err() {
                obs.count("probe:encode-refused");
                // refusing is only right for an oversize value
                let oversize = match v {
                    Value::Avp(a) => encoded_len(a) > 1023,
                    Value::Msg(SpecMessage::Control { avps, .. }) => {
                        avps.iter().any(|a| encoded_len(a) > 1023)
                            || 12 + avps.iter().map(encoded_len).sum::<usize>() > 65535
                    }
                    _ => false,
                };
                if !oversize {
                    return Err(Failure::new(
                        "C07",
                        "in-range-value-encodes",
                        &cls,
                        format!("encoder refused a value within the limits: {}; {}", r.err().unwrap().text(), short(v)),
                    ));
                }
                return Ok(());
            }
            let all = w.contents();
            let enc = &all[c.prefix.len().min(all.len())..];
            match (&cv, v) {
                (CrateValue::Avp(a), _) => {
                    let len = if enc.len() >= 2 {
                        (((enc[0] >> 6) as usize) << 8) | enc[1] as usize
                    } else {
                        0
                    };
                    if enc.len() == 1023 {
                        obs.count("probe:avp-length-1023");
                    }
                    if len != enc.len() {
                        return Err(Failure::new(
                            "C07",
                            "avp-length-exact",
                            &cls,
                            format!("AVP::write returned normally: {} octets emitted, length field says {}", enc.len(), len),
                        ));
                    }
                    let gl = guard(|| a.get_length()).unwrap_or(usize::MAX);
                    if gl.wrapping_add(6) != enc.len() {
                        return Err(Failure::new(
                            "C07",
                            "get-length-matches",
                            &cls,
                            format!("6 + get_length() = {} but {} octets were emitted for {}", gl.wrapping_add(6), enc.len(), short(v)),
                        ));
                    }
                    // the back-patch recorded at the seam
                    if let Some(p) = w.patches.last() {
                        let val = if p.bytes.len() == 2 {
                            (((p.bytes[0] >> 6) as usize) << 8) | p.bytes[1] as usize
                        } else {
                            usize::MAX
                        };
                        if val != p.len_at_patch - w.value_start {
                            return Err(Failure::new(
                                "C07",
                                "back-patch-value",
                                &cls,
                                format!("back-patched length {} but the value spans {} octets", val, p.len_at_patch - w.value_start),
                            ));
                        }
                    }
                    Ok(())
                }
                (CrateValue::Msg(Message::Control(cm)), _) => {
                    if enc.len() == 65535 {
                        obs.count("probe:message-length-65535");
                    }
                    let walk = walk_control(enc).map_err(|e| {
                        Failure::new(
                            "C07",
                            "length-walker",
                            &cls,
                            format!("Message::write returned normally with {} octets but the length walker fails: {}", enc.len(), e),
                        )
                    })?;
                    if walk.declared != enc.len() || walk.slack != 0 {
                        return Err(Failure::new(
                            "C07",
                            "message-length-exact",
                            &cls,
                            format!("{} octets emitted, Length field {}, {} octets of the body not covered by AVP records", enc.len(), walk.declared, walk.slack),
                        ));
                    }
                    if walk.records.len() != cm.avps.len() {
                        return Err(Failure::new(
                            "C07",
                            "avps-tile-body",
                            &cls,
                            format!("{} AVPs encoded but the body holds {} records", cm.avps.len(), walk.records.len()),
                        ));
                    }
                    for (a, (_, l)) in cm.avps.iter().zip(walk.records.iter()) {
                        let gl = guard(|| a.get_length()).unwrap_or(usize::MAX);
                        if gl.wrapping_add(6) != *l {
                            return Err(Failure::new(
                                "C07",
                                "get-length-matches",
                                &format!("avp-{}", from_crate_avp(a).attr),
                                format!("6 + get_length() = {} but the record is {} octets", gl.wrapping_add(6), l),
                            ));
                        }
                    }
                    Ok(())
                }
                _ => Ok(()),
            }
        }
    }
}

impl Scenario for C07 {
    type Case = Case07;
    const ID: &'static str = "C07";
    const LEVEL: &'static str = "exploration";
    fn runs(tier: Tier) -> u64 {
        tier.pick(80_000, 3_000_000)
    }
    fn profiles() -> &'static [Profile] {
        &[Profile::Dev, Profile::Release]
    }
    fn run(rng: &mut Rng, ctx: &mut Ctx) {
        let sw = Swarm::draw(rng);
        let mut wl = rng.fork("workload");
        let mut sm = rng.fork("seams");
        let mut cases: Vec<Case07> = Vec::new();
        let push_val = |v: Value, sm: &mut Rng, cases: &mut Vec<Case07>| {
            let (writer, prefix) = draw_writer(sm);
            cases.push(Case07::Value(Case {
                values: vec![v],
                writer,
                prefix,
                reader: ReaderCfg::Real,
            }));
        };
        // every kind: get_length against the emitted size
        let forced = ALL_ATTRS[(ctx.run % 39) as usize];
        push_val(Value::Avp(gen_avp_of(&mut wl, &sw, forced)), &mut sm, &mut cases);
        let mut swb = sw.clone();
        swb.size = SizeRegime::Boundary;
        push_val(Value::Avp(gen_avp_of(&mut wl, &swb, forced)), &mut sm, &mut cases);
        push_val(Value::Avp(gen_avp(&mut wl, &sw)), &mut sm, &mut cases);
        push_val(Value::Msg(gen_control(&mut wl, &sw, 3000)), &mut sm, &mut cases);
        // at-limit and over-limit AVP payloads
        for pl in [1016usize, 1017, 1018, 1019, 1273, 2000] {
            if wl.chance(1, 2) {
                push_val(Value::Avp(oversize_avp(&mut wl, pl)), &mut sm, &mut cases);
            }
        }
        if ctx.run % 8 == 3 {
            for pl in [65_529usize, 65_530, 65_535, 65_536, 65_600, 66_553, 66_554, 131_080] {
                if wl.chance(1, 2) {
                    push_val(Value::Avp(oversize_avp(&mut wl, pl)), &mut sm, &mut cases);
                    ctx.obs.count("probe:avp-size-wraps-16-bits");
                }
            }
        }
        if wl.chance(1, 3) {
            let hl = *wl.pick(&[1016usize, 1017, 1018, 1024, 1030]);
            push_val(
                Value::Avp(SpecAvp {
                    attr: wl.u16(),
                    val: Val::Hidden(wl.bytes(hl)),
                }),
                &mut sm,
                &mut cases,
            );
        }
        // messages at 65534..65537 octets: 1023-octet AVPs plus one filler
        if ctx.run % 6 == 0 {
            let target = *wl.pick(&[65534usize, 65535, 65536, 65537, 65535]);
            let mut avps = vec![SpecAvp {
                attr: 0,
                val: Val::Code(1),
            }];
            let mut total = 12 + 8;
            while total + 1023 + 7 <= target {
                avps.push(SpecAvp {
                    attr: 7,
                    val: Val::Bytes(wl.bytes(1017)),
                });
                total += 1023;
            }
            let rest = target - total;
            if rest >= 7 {
                avps.push(SpecAvp {
                    attr: 11,
                    val: Val::Bytes(wl.bytes(rest - 6)),
                });
            }
            push_val(
                Value::Msg(SpecMessage::Control {
                    length: 0,
                    tunnel_id: wl.u16(),
                    session_id: wl.u16(),
                    ns: wl.u16(),
                    nr: wl.u16(),
                    avps,
                }),
                &mut sm,
                &mut cases,
            );
        }
        // a message containing one oversize AVP
        if wl.chance(1, 4) {
            let bl = *wl.pick(&[1018usize, 1400]);
            let big = oversize_avp(&mut wl, bl);
            push_val(
                Value::Msg(SpecMessage::Control {
                    length: 0,
                    tunnel_id: 1,
                    session_id: 1,
                    ns: 0,
                    nr: 0,
                    avps: vec![
                        SpecAvp {
                            attr: 0,
                            val: Val::Code(2),
                        },
                        big,
                    ],
                }),
                &mut sm,
                &mut cases,
            );
        }
        // hide at its limits
        for _ in 0..2 {
            let pl = *wl.pick(&[1usize, 100, 990, 1006, 1007, 1016, 1017, 1018, 1030, 2000]);
            let avp = oversize_avp(&mut wl, pl);
            let total = *wl.pick(&[1008usize, 1009, 1007, 1024]);
            let lpl = total.saturating_sub(2 + pl).min(64);
            let rvb = wl.bytes(4);
            let sl = wl.urange(0, 20);
            let ll = if wl.bool() { lpl } else { wl.urange(0, 30) };
            cases.push(Case07::Hide {
                avp,
                secret: wl.bytes(sl),
                rv: [rvb[0], rvb[1], rvb[2], rvb[3]],
                lp: wl.bytes(ll),
            });
        }
        for (k, c) in cases.into_iter().enumerate() {
            let h = fnv1a(&serde_json::to_vec(&c).unwrap());
            let boundary = match &c {
                Case07::Hide { .. } => true,
                Case07::Value(cc) => match cc.values.first() {
                    Some(Value::Avp(a)) => encoded_len(a) > 255,
                    Some(Value::Msg(SpecMessage::Control { avps, .. })) => avps.len() >= 2,
                    _ => false,
                },
            };
            if boundary {
                ctx.obs.distinct(h);
            }
            if ctx.run == 0 && k < 2 {
                let c2 = c.clone();
                ctx.obs.sample(|| {
                    let s = serde_json::to_string(&c2).unwrap();
                    json!(if s.len() > 600 { format!("{}...", &s[..600]) } else { s })
                });
            }
            ctx.check::<C07>(&c);
        }
    }
    fn execute(case: &Case07, obs: &mut Obs) -> Result<(), Failure> {
        exec_c07(case, obs)
    }
    fn shrink(case: &Case07) -> Vec<Case07> {
        match case {
            Case07::Value(c) => shrink_case(c).into_iter().map(Case07::Value).collect(),
            Case07::Hide { avp, secret, rv, lp } => {
                let mut out = Vec::new();
                if !secret.is_empty() {
                    out.push(Case07::Hide {
                        avp: avp.clone(),
                        secret: Vec::new(),
                        rv: *rv,
                        lp: lp.clone(),
                    });
                }
                if !lp.is_empty() {
                    out.push(Case07::Hide {
                        avp: avp.clone(),
                        secret: secret.clone(),
                        rv: *rv,
                        lp: Vec::new(),
                    });
                }
                out
            }
        }
    }
    fn meta() -> Meta {
        Meta {
            rule: "NO TRANSPORT FAULT applies to this property (its quantifier has none); what is injected is the execution environment (one case in ten runs right after a refused operation on the same thread, or inside a destructor while the thread unwinds: faults_fired env-*) and the behaviour of the Reader/Writer seams. Each run encodes the run's forced AVP kind at typical and boundary sizes, PRNG AVPs and control messages, AVP payloads of 1016/1017/1018/1019/1273/2000 octets, hidden values of 1016-1030 octets, (every 6th run) control messages assembled to 65534/65535/65536/65537 octets from 1023-octet AVPs plus a filler, messages holding one oversize AVP, and hide() inputs at 2+|payload|+|lp| = 1007/1008/1009/1024 and original AVPs of 1022-2006 octets; in dev and release profile. Whenever the encoder returns, an independent length walker (flag word, Length, 10-bit AVP lengths only) must find Length = octets emitted, records tiling the body exactly, 6 + get_length() = record size for every AVP, and the back-patch recorded at the writer seam equal to the value's extent; a refusal (unwind) is accepted only for oversize values. distinct_nontrivial = distinct cases with an AVP over 255 octets, a message with >= 2 AVPs, or a hide call.",
            assumptions: vec!["'fails loudly' = unwinds; caught under a silent panic hook"],
            real: vec!["Message::write", "AVP::write", "AVP::get_length", "AVP::hide"],
            stub: vec![STUBS[0], "independent length walker (model)", "model MD5 / decrypt to read the stored original length"],
            faults_not_applicable: NA_BASELINE,
        }
    }
}

// ===========================================================================
// C09
// ===========================================================================

pub struct C09;

/// One complete encode of `v` into a writer of its own whose `at`-th call
/// performs the next nested encode, `depth` more levels deep.
fn nested_encode(v: &Value, at: u8, depth: u8) {
    if let Some(cv) = to_crate(v) {
        if depth == 0 {
            let _ = encode_fresh(&cv);
            return;
        }
        let mut w = SimWriter::new(&WriterCfg::Vec, &[0x5A; 3]);
        let v2 = v.clone();
        w.reentry = Some((at as u64, Box::new(move || nested_encode(&v2, at, depth - 1))));
        let _ = encode_into(&cv, &mut w);
    }
}

fn exec_c09(case: &Case, obs: &mut Obs) -> Result<(), Failure> {
    // A history is cut into segments at every refused value: whatever a
    // refused encode leaves in its writer is unspecified, so what follows
    // goes into a fresh writer of the same kind; what preceded it must be
    // intact. (got octets, value indices, octets held when the refusal
    // happened / None for the last segment)
    struct Segment {
        got: Vec<u8>,
        values: Vec<usize>,
        refused: Option<(usize, String)>,
    }
    let mut segments: Vec<Segment> = Vec::new();
    let mut w = SimWriter::new(&case.writer, &case.prefix);
    let base = w.base;
    let mut last_len = base + case.prefix.len();
    let mut current: Vec<usize> = Vec::new();
    for (i, v) in case.values.iter().enumerate() {
        let cv = match to_crate(v) {
            Some(c) => c,
            None => continue,
        };
        obs.steps += 1;
        let cls = format!(
            "{}{}",
            if matches!(v, Value::Avp(_)) { "avp" } else { "message" },
            if case.prefix.is_empty() && i == 0 { "-at-zero" } else { "" }
        );
        let re = match case.writer {
            WriterCfg::Reentrant(at) => Some((at, 1u8)),
            WriterCfg::ReentrantDeep(at, depth) => Some((at, depth.max(1))),
            _ => None,
        };
        if let Some((at, depth)) = re {
            // on the at-th writer call of this value, the same value is
            // encoded once more, completely, into a writer of its own -
            // which, when nested, re-enters in the same way
            let again = v.clone();
            w.reentry = Some((at as u64, Box::new(move || nested_encode(&again, at, depth - 1))));
            obs.count("probe:reentrant-encode");
        }
        if let Err(c) = encode_into(&cv, &mut w) {
            // refused: keep what the writer held before this value began
            let mut got = w.contents();
            got.truncate(w.value_start.saturating_sub(base));
            segments.push(Segment {
                got,
                values: std::mem::take(&mut current),
                refused: Some((i, c.text())),
            });
            obs.count("probe:encode-after-refused-encode");
            let cfg = match &case.writer {
                WriterCfg::Full(_) => WriterCfg::Vec,
                other => other.clone(),
            };
            w = SimWriter::new(&cfg, &case.prefix);
            last_len = base + case.prefix.len();
            continue;
        }
        if let Some(vv) = w.violations.first() {
            return Err(Failure::new(
                "C09",
                "overwrite-inside-current-value",
                &cls,
                format!("while encoding value #{i} at writer offset {last_len}: {vv}"),
            ));
        }
        let now = {
            use rl2tp::common::Writer;
            w.len()
        };
        if now < last_len {
            return Err(Failure::new(
                "C09",
                "append-only",
                &cls,
                format!("writer shrank from {last_len} to {now} octets while encoding value #{i}"),
            ));
        }
        last_len = now;
        current.push(i);
    }
    obs.writer_calls += w.calls;
    if w.straddles > 0 {
        obs.add("probe:back-patch-straddles-page", w.straddles);
    }
    segments.push(Segment {
        got: w.contents(),
        values: current,
        refused: None,
    });
    // The reference encodings are taken afterwards (taking them first would
    // let a "last value encoded" shortcut see its own value) and on a thread
    // of their own (nothing the history left on this thread reaches them),
    // each into a fresh empty writer; refused values last.
    let values = &case.values;
    let full = matches!(case.writer, WriterCfg::Full(_));
    // (a thread of their own only when the history held a refused encode:
    // that is when something can have been left behind on this one)
    let needs_fresh_thread = segments.iter().any(|s| s.refused.is_some());
    let take_refs = || {
        let mut order: Vec<usize> = segments.iter().flat_map(|s| s.values.iter().copied()).collect();
        order.extend(segments.iter().filter_map(|s| s.refused.as_ref().map(|r| r.0)));
        let mut out: Vec<Option<Vec<u8>>> = vec![None; values.len()];
        for i in order {
            if let Some(cv) = to_crate(&values[i]) {
                out[i] = encode_fresh(&cv).ok();
            }
        }
        out
    };
    let refs: Vec<Option<Vec<u8>>> = if needs_fresh_thread { on_fresh_thread(take_refs) } else { take_refs() };
    for seg in &segments {
        if let Some((i, why)) = &seg.refused {
            // encodable alone but refused here: only a full writer may do that
            if refs[*i].is_some() && !full {
                return Err(Failure::new(
                    "C09",
                    "position-independent",
                    if matches!(values[*i], Value::Avp(_)) { "avp" } else { "message" },
                    format!("value #{i} encodes into an empty writer but fails after {} octets of earlier output: {}", seg.got.len(), why),
                ));
            }
        }
        let mut expected = case.prefix.clone();
        for &i in &seg.values {
            match &refs[i] {
                Some(f) => expected.extend_from_slice(f),
                None => return Ok(()), // encoded here but not alone: C07's business
            }
        }
        if seg.got != expected {
            let d = first_diff(&seg.got, &expected);
            let cls = if d < case.prefix.len() {
                "prefix-corrupted"
            } else if seg.refused.is_some() {
                "earlier-output-changed-by-refused-encode"
            } else {
                "concatenation"
            };
            return Err(Failure::new(
                "C09",
                "prefix-and-concatenation",
                cls,
                format!(
                    "writer content differs from prefix ++ encode(v1) ++ .. ++ encode(vk) at offset {} (prefix {} octets; got {} octets, expected {}; values {:?}{}): got ..{}.., expected ..{}..",
                    d,
                    case.prefix.len(),
                    seg.got.len(),
                    expected.len(),
                    seg.values,
                    match &seg.refused {
                        Some((i, _)) => format!(", then value #{i} was refused"),
                        None => String::new(),
                    },
                    to_hex(&seg.got[d.saturating_sub(4).min(seg.got.len())..(d + 8).min(seg.got.len())]),
                    to_hex(&expected[d.saturating_sub(4).min(expected.len())..(d + 8).min(expected.len())])
                ),
            ));
        }
    }
    Ok(())
}

impl Scenario for C09 {
    type Case = Case;
    const ID: &'static str = "C09";
    const LEVEL: &'static str = "exploration";
    fn runs(tier: Tier) -> u64 {
        tier.pick(300_000, 20_000_000)
    }
    fn profiles() -> &'static [Profile] {
        &[Profile::Release]
    }
    fn run(rng: &mut Rng, ctx: &mut Ctx) {
        let sw = Swarm::draw(rng);
        let mut wl = rng.fork("workload");
        let mut sm = rng.fork("seams");
        for k in 0..6 {
            // now and then a long batch whose total passes 64 KiB
            let n = if k == 5 && ctx.run % 32 == 7 { 60 } else { wl.urange(1, 6) };
            let mut values = Vec::new();
            for _ in 0..n {
                values.push(match wl.below(4) {
                    0 => Value::Avp(gen_avp(&mut wl, &sw)),
                    1 => Value::Msg(gen_data(&mut wl, &sw)),
                    _ => {
                        let lim = if n > 6 { 2500 } else { *wl.pick(&[64usize, 300, 1500]) };
                        Value::Msg(gen_control(&mut wl, &sw, lim))
                    }
                });
            }
            // related values in one history: copies and near-copies of an
            // earlier message of the sequence
            if values.len() >= 2 && wl.chance(1, 3) {
                let src = wl.usize_below(values.len());
                if let Value::Msg(m) = values[src].clone() {
                    for r in related_messages(&mut wl, &m, 2) {
                        let at = wl.usize_below(values.len());
                        if at != src {
                            values[at] = Value::Msg(r);
                        }
                    }
                }
            }
            // a value the encoder refuses (too large for its length field)
            // in the middle of the history: what follows goes into a fresh writer
            if values.len() >= 2 && wl.chance(1, 10) {
                let at = wl.usize_below(values.len() - 1);
                let bl = *wl.pick(&[1018usize, 1100, 2000]);
                let big = SpecAvp { attr: 7, val: Val::Bytes(wl.bytes(bl)) };
                values[at] = if wl.bool() {
                    Value::Avp(big)
                } else {
                    Value::Msg(SpecMessage::Control {
                        length: 0,
                        tunnel_id: wl.u16(),
                        session_id: 0,
                        ns: 0,
                        nr: 0,
                        avps: vec![SpecAvp { attr: 0, val: Val::Code(1) }, SpecAvp { attr: 9, val: Val::U16(7) }, big],
                    })
                };
                ctx.obs.count("fault:refused-value-inside-history");
            }
            let (mut writer, prefix) = draw_writer(&mut sm);
            if sm.chance(1, 12) && prefix.len() < 5000 {
                // a writer that runs full somewhere inside the history
                let total: usize = values.iter().map(|v| spec_of(v).len()).sum();
                writer = WriterCfg::Full(sm.urange(0, total.min(6000)));
                ctx.obs.count("fault:writer-full");
            }
            // stale `length` members that coincide with a writer position:
            // the end position of the message, its own true size, the
            // running total without the prefix
            {
                let mut before = 0usize;
                for v in values.iter_mut() {
                    let own = spec_of(v).len();
                    if let Value::Msg(SpecMessage::Control { length, .. }) = v {
                        match wl.below(6) {
                            0 => *length = (prefix.len() + before + own) as u16,
                            1 => *length = (before + own) as u16,
                            2 => *length = (prefix.len() + before) as u16,
                            _ => {}
                        }
                    }
                    before += own;
                }
            }
            if prefix.len() >= 65_532 {
                ctx.obs.count("probe:prefix-at-or-beyond-64k");
            }
            if !prefix.is_empty() || values.len() > 1 {
                ctx.obs.distinct(fnv1a(&serde_json::to_vec(&(&values, &prefix)).unwrap()));
            }
            ctx.obs.count(&format!("writer:{}", writer.name()));
            let case = Case {
                values,
                writer,
                prefix,
                reader: ReaderCfg::Real,
            };
            if ctx.run == 0 && k < 2 {
                let c2 = case.clone();
                ctx.obs.sample(|| json!(c2));
            }
            ctx.check::<C09>(&case);
        }
    }
    fn execute(case: &Case, obs: &mut Obs) -> Result<(), Failure> {
        exec_c09(case, obs)
    }
    fn shrink(case: &Case) -> Vec<Case> {
        shrink_case(case)
    }
    fn meta() -> Meta {
        Meta {
            rule: "each run: 6 histories of 1-6 Message::write / AVP::write calls into one simulator-owned writer (the crate's VecWriter, a flat monitored vector, or a paged rope with page size 1-256 so that a back-patch may straddle a page) that already holds a PRNG prefix (0, 1, 2, 3, 7, 255, 256, 4095 or PRNG octets; sometimes a prefix that is itself a valid control message, so that a back-patch at absolute offset 2 would corrupt its Length). During the history every write_bytes_at must lie inside the octets appended since the current top-level encode call began and len() must be monotone; afterwards the content must equal prefix ++ encode(v1) ++ ... ++ encode(vk), each encode(vi) taken from the same encoder into a fresh empty VecWriter. distinct_nontrivial = distinct (value list, prefix) histories with a non-empty prefix or more than one value.",
            assumptions: vec!["self-relative: the reference for each value is the crate's own encoding into an empty writer"],
            real: vec!["Message::write", "AVP::write", "VecWriter (one of three back-ends)"],
            stub: vec![STUBS[0]],
            faults_not_applicable: "transport, crash, disk and clock faults do not apply; the varied dimensions are the write history, the prefix and the writer implementation behind the seam",
        }
    }
}
