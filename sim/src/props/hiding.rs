//! C11 (hide then reveal, two parties sharing secret and random vector —
//! fault-free baseline), C12 (hidden value = RFC 2661 s4.3 computed by the
//! foreign peer with its own MD5 — fault-free baseline) and C13 (revealing
//! is total under key skew and ciphertext faults between the two parties).

use crate::conv::*;
use crate::core::*;
use crate::deliver::*;
use crate::gen::*;
use crate::model::*;
use crate::rng::{fnv1a, Rng};
use crate::seams::*;
use rl2tp::avp::types::{Hidden, RandomVector};
use rl2tp::avp::AVP;
use rl2tp::common::DecodeError;
use serde::{Deserialize, Serialize};
use serde_json::json;

#[derive(Clone, Debug, Serialize, Deserialize)]
pub struct HideCase {
    pub avp: SpecAvp,
    #[serde(with = "hexser")]
    pub secret: Vec<u8>,
    pub rv: [u8; 4],
    #[serde(with = "hexser")]
    pub lp: Vec<u8>,
    pub ap: [u8; 16],
    /// reveal side goes through the wire (encode, deliver, decode) first
    pub via_wire: bool,
    pub reader: ReaderCfg,
}

fn real_hide(c: &HideCase) -> Option<Result<AVP, Caught>> {
    let a = to_crate_avp(&c.avp, &cal_bits)?;
    let rv = RandomVector::from(c.rv);
    Some(guard(|| a.hide(&c.secret, &rv, &c.lp, &c.ap)))
}

fn real_reveal(h: AVP, secret: &[u8], rv: [u8; 4]) -> Result<Result<AVP, DecodeError>, Caught> {
    let rv = RandomVector::from(rv);
    guard(|| h.reveal(secret, &rv))
}

fn blocks_of(c: &HideCase) -> usize {
    (2 + spec_payload(&c.avp).len() + c.lp.len() + 15) / 16
}

fn hide_probes(c: &HideCase, obs: &mut Obs) {
    let n = blocks_of(c);
    obs.count(match n {
        1 => "probe:hidden-1-block",
        2 => "probe:hidden-2-blocks",
        3 => "probe:hidden-3-blocks",
        _ => "probe:hidden-4-or-more-blocks",
    });
    if (2 + spec_payload(&c.avp).len() + c.lp.len()) % 16 == 0 {
        obs.count("probe:hidden-no-alignment-padding");
    }
    if c.secret.is_empty() {
        obs.count("probe:empty-secret");
    }
    if c.lp.is_empty() {
        obs.count("probe:empty-length-padding");
    }
}

/// Workload shared by C11 and C12: an AVP that fits, keys, paddings chosen
/// to hit block counts 1, 2, 3, 4, 63 and residues 0, 1, 15.
fn gen_hide_case(rng: &mut Rng, sw: &Swarm, forced_attr: u16, sm: &mut Rng) -> HideCase {
    let mut sw2 = sw.clone();
    if sw2.size == SizeRegime::Boundary && rng.bool() {
        sw2.size = SizeRegime::Typical;
    }
    let mut avp = gen_avp_of(rng, &sw2, forced_attr);
    // must fit: 2 + |payload| + |lp| <= 1008
    if spec_payload(&avp).len() > 1006 {
        sw2.size = SizeRegime::Typical;
        avp = gen_avp_of(rng, &sw2, forced_attr);
    }
    let pl = spec_payload(&avp).len();
    let room = 1008 - 2 - pl;
    let mut lp_len = match rng.below(8) {
        0 => 0,
        1 => {
            // land on residue 0 / 1 / 15
            let want = *rng.pick(&[0usize, 1, 15]);
            let cur = (2 + pl) % 16;
            ((want + 16 - cur) % 16).min(room)
        }
        2 => {
            // land on a block count
            let blocks = *rng.pick(&[1usize, 2, 3, 4, 63]);
            (blocks * 16).saturating_sub(2 + pl).min(room)
        }
        3 => room,
        _ => rng.urange(0, room.min(40)),
    };
    let secret_len = secret_len(rng);
    let rvb = rng.bytes(4);
    let apb = rng.bytes(16);
    let mut ap = [0u8; 16];
    ap.copy_from_slice(&apb);
    let mut secret = rng.bytes(secret_len);
    // now and then a secret built from a string constant of the code under
    // test, alone or followed by a few hexadecimal / decimal digits
    if rng.chance(1, 24) {
        if let Some(mut t) = crate::dict::pick_str(rng, 12, false) {
            let alphabet: &[u8] = if rng.bool() { b"0123456789abcdef" } else { b"0123456789" };
            for _ in 0..rng.urange(0, 9) {
                t.push(*rng.pick(alphabet));
            }
            secret = t;
        }
    }
    // ciphertext blocks with special values: a value whose plaintext makes
    // a chunk of the hidden value come out all zero, all ones, or equal to
    // the chunk before it (an "empty" sentinel, a chunk compared with its
    // predecessor, ... would stumble here)
    let mut avp = avp;
    if rng.chance(1, 10) {
        if let Val::Bytes(p) = &mut avp.val {
            if p.len() >= 30 && avp.attr != 0 {
                let conv = calibrated_conv().unwrap_or(LenConv::Whole);
                let blocks = (p.len() - 14) / 16;
                let b = rng.urange(1, blocks);
                let target = match rng.below(4) {
                    0 | 1 => Some([0u8; 16]),
                    2 => Some([0xFFu8; 16]),
                    _ => None,
                };
                force_cipher_block(avp.attr, p, &secret, &rvb, conv, b, target);
            }
        }
    }
    // a key stream whose first chunk has a zero word (found by search)
    let mut rvb = rvb;
    let mut secret = secret;
    if rng.chance(1, 48) {
        let (attr, s, rv, _) = *rng.pick(crate::collisions::ZERO_WORD_KEYSTREAMS);
        let mut sw3 = sw.clone();
        sw3.size = SizeRegime::Typical;
        avp = gen_avp_of(rng, &sw3, attr);
        lp_len = lp_len.min(1006usize.saturating_sub(spec_payload(&avp).len()));
        secret = s.to_vec();
        rvb = rv.to_vec();
    }
    HideCase {
        avp,
        secret,
        rv: [rvb[0], rvb[1], rvb[2], rvb[3]],
        lp: rng.bytes(lp_len),
        ap,
        via_wire: sm.bool(),
        reader: draw_reader(sm, 64),
    }
}

fn shrink_hide(c: &HideCase) -> Vec<HideCase> {
    let mut out = Vec::new();
    if c.via_wire {
        out.push(HideCase {
            via_wire: false,
            ..c.clone()
        });
    }
    if c.reader != ReaderCfg::Real {
        out.push(HideCase {
            reader: ReaderCfg::Real,
            ..c.clone()
        });
    }
    for s in shrink_bytes(&c.secret).into_iter().take(6) {
        out.push(HideCase {
            secret: s,
            ..c.clone()
        });
    }
    for s in shrink_bytes(&c.lp).into_iter().take(10) {
        out.push(HideCase {
            lp: s,
            ..c.clone()
        });
    }
    if c.rv != [0; 4] {
        out.push(HideCase {
            rv: [0; 4],
            ..c.clone()
        });
    }
    if c.ap != [0; 16] {
        out.push(HideCase {
            ap: [0; 16],
            ..c.clone()
        });
    }
    for a in shrink_avp(&c.avp).into_iter().take(12) {
        out.push(HideCase {
            avp: a,
            ..c.clone()
        });
    }
    out
}

const NA_BASELINE: &str = "none searched: this property has no fault, schedule or history in its quantifier; it is the two-party fault-free configuration of the C13 simulation (key skew and ciphertext faults are injected there)";

// ===========================================================================
// C11
// ===========================================================================

#[derive(Clone, Debug, Serialize, Deserialize)]
pub enum Case11 {
    RoundTrip(HideCase),
    /// hide(first), then other traffic on the same thread (hides and reveals
    /// under other, related secrets), then reveal of the first
    Interleaved { first: HideCase, between: Vec<HideCase> },
    /// hide(h) = h for hidden h; reveal(a) = Ok(a) for non-hidden a
    Identity {
        avp: SpecAvp,
        #[serde(with = "hexser")]
        secret: Vec<u8>,
        rv: [u8; 4],
    },
}

fn block_class(c: &HideCase) -> String {
    let n = blocks_of(c);
    format!(
        "blocks-{}{}",
        if n >= 4 { "4plus".to_string() } else { n.to_string() },
        if c.via_wire { "-wire" } else { "" }
    )
}

fn exec_c11(case: &Case11, obs: &mut Obs) -> Result<(), Failure> {
    match case {
        Case11::Identity { avp, secret, rv } => {
            obs.steps += 1;
            let a = match to_crate_avp(avp, &cal_bits) {
                Some(a) => a,
                None => return Ok(()),
            };
            let before = from_crate_avp(&a);
            if avp.is_hidden() {
                let rvv = RandomVector::from(*rv);
                let r = guard(|| a.hide(secret, &rvv, &[1, 2, 3], &[7u8; 16]));
                match r {
                    Ok(h) if from_crate_avp(&h) == before => Ok(()),
                    Ok(h) => Err(Failure::new(
                        "C11",
                        "hide-is-identity-on-hidden",
                        "identity",
                        format!("hide changed an already hidden AVP: {:?} -> {:?}", before, from_crate_avp(&h)),
                    )),
                    Err(c) => Err(Failure::new("C11", "hide-is-identity-on-hidden", "identity", c.text())),
                }
            } else {
                match real_reveal(a, secret, *rv) {
                    Ok(Ok(x)) if from_crate_avp(&x) == before => Ok(()),
                    Ok(other) => Err(Failure::new(
                        "C11",
                        "reveal-is-identity-on-plain",
                        "identity",
                        format!(
                            "reveal of a non-hidden AVP {:?} gives {:?}",
                            before,
                            other.map(|x| from_crate_avp(&x)).map_err(|e| errs_text(std::slice::from_ref(&e)))
                        ),
                    )),
                    Err(c) => Err(Failure::new("C11", "reveal-is-identity-on-plain", "identity", c.text())),
                }
            }
        }
        Case11::Interleaved { first, between } => {
            obs.count("probe:other-tunnels-between-hide-and-reveal");
            on_fresh_thread(|| round_trip(first, between, obs)).map_err(|mut f| {
                if !between.is_empty() {
                    f.class = format!("interleaved:{}", f.class);
                    f.detail = format!(
                        "with {} hide/reveal call(s) under other secrets ({:?} octets) between hide and reveal: {}",
                        between.len(),
                        between.iter().map(|b| b.secret.len()).collect::<Vec<_>>(),
                        f.detail
                    );
                }
                f
            })
        }
        Case11::RoundTrip(c) => round_trip(c, &[], obs),
    }
}

fn round_trip(c: &HideCase, between: &[HideCase], obs: &mut Obs) -> Result<(), Failure> {
    {
        {
            obs.steps += 2;
            let h = match real_hide(c) {
                None => return Ok(()),
                Some(Err(e)) => {
                    return Err(Failure::new(
                        "C11",
                        "hide-succeeds-in-domain",
                        &block_class(c),
                        format!("hide of an AVP that fits (2+|payload|+|lp| = {}) failed: {}", 2 + spec_payload(&c.avp).len() + c.lp.len(), e.text()),
                    ))
                }
                Some(Ok(h)) => h,
            };
            hide_probes(c, obs);
            let original = from_crate_avp(&to_crate_avp(&c.avp, &cal_bits).unwrap());
            let h_for_reveal = if c.via_wire {
                let enc = real_encode_avp(&h).map_err(|e| {
                    Failure::new("C11", "hidden-avp-encodes", &block_class(c), format!("encoding the hidden AVP failed: {}", e.text()))
                })?;
                let dec = decode_avps(&enc, &c.reader, false).map_err(|e| {
                    Failure::new("C11", "hidden-avp-decodes", &block_class(c), format!("decoding the hidden AVP failed: {}", e.text()))
                })?;
                obs.reader_calls += dec.mon.calls;
                match dec.items.into_iter().next() {
                    Some(Ok(SpecAvp { attr, val: Val::Hidden(v) })) => AVP::Hidden(Hidden {
                        attribute_type: attr,
                        value: v,
                    }),
                    other => {
                        return Err(Failure::new(
                            "C11",
                            "hidden-avp-decodes",
                            &block_class(c),
                            format!("the encoded hidden AVP {} decodes to {:?}", to_hex(&enc[..enc.len().min(64)]), other.map(|x| x.map_err(|e| errs_text(std::slice::from_ref(&e))))),
                        ))
                    }
                }
            } else {
                h
            };
            for b in between {
                if let Some(Ok(hb)) = real_hide(b) {
                    let _ = real_reveal(hb, &b.secret, b.rv);
                }
            }
            match real_reveal(h_for_reveal, &c.secret, c.rv) {
                Ok(Ok(x)) if from_crate_avp(&x) == original => Ok(()),
                Ok(other) => Err(Failure::new(
                    "C11",
                    "reveal-undoes-hide",
                    &block_class(c),
                    format!(
                        "reveal(hide(a)) = {:?} but a = {:?} (secret {} octets, length padding {} octets, {} block(s){})",
                        other.map(|x| from_crate_avp(&x)).map_err(|e| errs_text(std::slice::from_ref(&e))),
                        original,
                        c.secret.len(),
                        c.lp.len(),
                        blocks_of(c),
                        if c.via_wire { ", via encode/decode" } else { "" }
                    ),
                )),
                Err(e) => Err(Failure::new(
                    "C11",
                    "reveal-undoes-hide",
                    &block_class(c),
                    format!("reveal of a freshly hidden AVP failed: {}", e.text()),
                )),
            }
        }
    }
}

pub struct C11;

impl Scenario for C11 {
    type Case = Case11;
    const ID: &'static str = "C11";
    const LEVEL: &'static str = "exploration";
    fn runs(tier: Tier) -> u64 {
        tier.pick(300_000, 20_000_000)
    }
    fn profiles() -> &'static [Profile] {
        &[Profile::Release]
    }
    fn run(rng: &mut Rng, ctx: &mut Ctx) {
        let sw = Swarm::draw(rng);
        let mut wl = rng.fork("workload");
        let mut sm = rng.fork("seams");
        let forced = ALL_ATTRS[(ctx.run % 39) as usize];
        for k in 0..6 {
            let attr = if k < 2 { forced } else { *wl.pick(&ALL_ATTRS) };
            let hc = gen_hide_case(&mut wl, &sw, attr, &mut sm);
            ctx.obs.distinct(fnv1a(&serde_json::to_vec(&hc).unwrap()));
            let case = Case11::RoundTrip(hc);
            if ctx.run == 0 && k < 2 {
                let c2 = case.clone();
                ctx.obs.sample(|| json!(c2));
            }
            ctx.check::<C11>(&case);
        }
        // a round trip with other tunnels' traffic in between
        if ctx.history_this_run() {
            let n = wl.urange(2, 4);
            let secrets = related_secrets(&mut wl, n);
            let mut sw2 = sw.clone();
            sw2.size = SizeRegime::Typical;
            let mut cases: Vec<HideCase> = Vec::new();
            for s in secrets {
                let attr = *wl.pick(&ALL_ATTRS);
                let mut hc = gen_hide_case(&mut wl, &sw2, attr, &mut sm);
                hc.secret = s;
                if blocks_of(&hc) < 2 {
                    let room = 1008usize.saturating_sub(2 + spec_payload(&hc.avp).len());
                    let ll = wl.urange(16, 48).min(room);
                    hc.lp = wl.bytes(ll);
                }
                cases.push(hc);
            }
            // the first secret is used again by the reveal at the end
            let first = cases.remove(0);
            ctx.check::<C11>(&Case11::Interleaved { first, between: cases });
        }
        let rvb = wl.bytes(4);
        let sl = wl.urange(0, 20);
        let ident = if wl.bool() {
            gen_hidden(&mut wl, &sw)
        } else {
            gen_avp(&mut wl, &sw)
        };
        ctx.check::<C11>(&Case11::Identity {
            avp: ident,
            secret: wl.bytes(sl),
            rv: [rvb[0], rvb[1], rvb[2], rvb[3]],
        });
    }
    fn execute(case: &Case11, obs: &mut Obs) -> Result<(), Failure> {
        exec_c11(case, obs)
    }
    fn shrink(case: &Case11) -> Vec<Case11> {
        match case {
            Case11::RoundTrip(c) => shrink_hide(c).into_iter().map(Case11::RoundTrip).collect(),
            Case11::Interleaved { first, between } => {
                let mut out = Vec::new();
                for i in 0..between.len() {
                    let mut b = between.clone();
                    b.remove(i);
                    out.push(Case11::Interleaved { first: first.clone(), between: b });
                }
                for f in shrink_hide(first).into_iter().take(12) {
                    out.push(Case11::Interleaved { first: f, between: between.clone() });
                }
                out
            }
            Case11::Identity { .. } => Vec::new(),
        }
    }
    fn meta() -> Meta {
        Meta {
            rule: "NO TRANSPORT FAULT applies to this property (its quantifier has none); what is injected is the execution environment (one case in ten runs right after a refused operation on the same thread, or inside a destructor while the thread unwinds: faults_fired env-*) and the behaviour of the Reader/Writer seams. Two nodes share (secret, random vector). Each run hides 6 AVPs (the run's forced kind twice, so all 39 non-hidden kinds recur every 39 runs) with secret length over {0,1,5,8,15,16,17,33,55,56,64, 119-128, 239-257, PRNG 0-300, 300-4096}, length padding chosen to hit block counts 1,2,3,4,63 and residues 0,1,15 of (2+|payload|+|lp|) mod 16 (no / minimal / maximal alignment padding) or PRNG, and reveals either directly or after AVP::write -> delivery -> try_read_greedy through a PRNG reader; plus one identity check (hide of a hidden AVP, reveal of a plain AVP). Oracle: reveal(hide(a,s,rv,lp,ap),s,rv) = Ok(a). distinct_nontrivial = distinct (AVP, secret, rv, paddings) tuples.",
            assumptions: vec!["self-relative (no reference model in the verdict); block-count and residue probes are reported"],
            real: vec!["AVP::hide", "AVP::reveal", "AVP::write", "AVP::try_read_greedy", "md5 crate as linked by rl2tp"],
            stub: vec!["secret store shared by the two nodes", "reader back-ends"],
            faults_not_applicable: NA_BASELINE,
        }
    }
}

// ===========================================================================
// C12
// ===========================================================================

thread_local! {
    static CONV: std::cell::Cell<Option<LenConv>> = const { std::cell::Cell::new(None) };
}

#[derive(Clone, Debug, Serialize, Deserialize)]
pub enum Case12 {
    /// real hides, the foreign peer must obtain the identical octets
    Hide(HideCase),
    /// the foreign peer hides, real must reveal to the original
    ForeignHide(HideCase),
    /// several of the above one after the other on one thread, with secrets
    /// that are related to each other (equal, prefix, extension, one bit):
    /// "depends on nothing but its inputs" against a call history
    History(Vec<Case12>),
}

/// Secrets related to one base secret the way a cache keyed too coarsely
/// would confuse them.
pub fn related_secrets(rng: &mut Rng, n: usize) -> Vec<Vec<u8>> {
    if rng.chance(1, 4) {
        // two different secrets of one length that a 32-bit fingerprint
        // (FNV, djb2, CRC-32, Adler-32, Murmur3, ...) cannot tell apart
        let (_, a, b) = *rng.pick(crate::collisions::COLLIDING_SECRETS);
        let mut out = Vec::new();
        for i in 0..n {
            out.push(match (i + rng.below(2) as usize) % 3 {
                0 => a.to_vec(),
                1 => b.to_vec(),
                _ => {
                    let k = rng.urange(1, 40);
                    rng.bytes(k)
                }
            });
        }
        if n >= 2 {
            out[0] = a.to_vec();
            out[n - 1] = b.to_vec();
            if n >= 3 && rng.bool() {
                out[n - 1] = a.to_vec();
                out[n - 2] = b.to_vec();
            }
        }
        return out;
    }
    let base_len = match rng.below(4) {
        0 => *rng.pick(&[1usize, 2, 15, 16, 17, 32]),
        1 => *rng.pick(&[55usize, 56, 63, 64, 65, 72]),
        2 => *rng.pick(&[100usize, 119, 120, 128, 129, 200, 240, 256]),
        _ => rng.urange(1, 300),
    };
    let base = rng.bytes(base_len);
    let mut out = Vec::new();
    for _ in 0..n {
        let mut s = base.clone();
        match rng.below(8) {
            0 | 1 => {}
            2 => {
                let k = rng.urange(1, 3.min(s.len()));
                s.truncate(s.len() - k);
            }
            3 => {
                let k = rng.urange(1, 17);
                s.extend_from_slice(&rng.bytes(k));
            }
            4 => {
                let i = s.len() - 1;
                s[i] ^= 1 << rng.below(8);
            }
            5 => {
                let i = rng.usize_below(s.len());
                s[i] ^= 1 << rng.below(8);
            }
            6 => {
                // same length, same ends, different middle
                if s.len() > 2 {
                    let i = rng.urange(1, s.len() - 2);
                    s[i] = s[i].wrapping_add(1);
                }
            }
            _ => {
                // a trailing newline or NUL, as a key read from a file has
                s.push(*rng.pick(&[b'\n', 0u8]));
            }
        }
        out.push(s);
    }
    out
}

fn exec_c12(case: &Case12, obs: &mut Obs) -> Result<(), Failure> {
    match case {
        Case12::History(steps) => {
            obs.count("probe:hide-history");
            // on a thread of its own: the history is complete
            on_fresh_thread(|| {
                for (i, st) in steps.iter().enumerate() {
                    if matches!(st, Case12::History(_)) {
                        continue;
                    }
                    if let Err(mut f) = exec_c12(st, obs) {
                        if steps.len() > 1 {
                            f.class = format!("history:{}", f.class.split(':').next().unwrap_or(""));
                            f.detail = format!("call #{i} of a {}-call history on one thread: {}", steps.len(), f.detail);
                        }
                        return Err(f);
                    }
                }
                Ok(())
            })
        }
        Case12::Hide(c) => {
            obs.steps += 1;
            let h = match real_hide(c) {
                Some(Ok(AVP::Hidden(h))) => h,
                Some(Ok(_)) => {
                    return Err(Failure::new("C12", "hidden-value-equals-rfc", "not-hidden", "hide of a non-hidden AVP did not return a hidden AVP".into()))
                }
                Some(Err(e)) => {
                    // the quantifier is "forall a, s, rv, lp, ap": a value
                    // that fits the construction has a hidden value
                    let fits = 2 + spec_payload(&c.avp).len() + c.lp.len() <= 1008 + 14 && 6 + spec_payload(&c.avp).len() <= 1023;
                    if fits && c.lp.len() < 1000 {
                        return Err(Failure::new(
                            "C12",
                            "hide-returns-the-rfc-value",
                            &block_class(c),
                            format!("hide of {:?} (secret {} octets, lp {} octets) does not return: {}", c.avp, c.secret.len(), c.lp.len(), e.text()),
                        ));
                    }
                    return Ok(());
                }
                None => return Ok(()),
            };
            hide_probes(c, obs);
            // what was hidden is the crate value; express it in model terms
            // (a constructor defect such as Bearer Capabilities' is C06's
            // business, not C12's)
            let sent = match to_crate_avp(&c.avp, &cal_bits) {
                Some(a) => from_crate_avp(&a),
                None => return Ok(()),
            };
            let payload = spec_payload(&sent);
            let cls = block_class(c);
            let want_len = 16 * ((2 + payload.len() + c.lp.len() + 15) / 16);
            if h.attribute_type != c.avp.attr {
                return Err(Failure::new(
                    "C12",
                    "attribute-type-in-clear",
                    &cls,
                    format!("hidden AVP announces attribute type {} for an AVP of type {}", h.attribute_type, c.avp.attr),
                ));
            }
            if h.value.len() != want_len {
                return Err(Failure::new(
                    "C12",
                    "hidden-value-length",
                    &cls,
                    format!(
                        "|value| = {} but 16*ceil((2+{}+{})/16) = {}",
                        h.value.len(),
                        payload.len(),
                        c.lp.len(),
                        want_len
                    ),
                ));
            }
            let a = spec_hide(c.avp.attr, &payload, &c.secret, &c.rv, &c.lp, &c.ap, LenConv::Whole);
            let b = spec_hide(c.avp.attr, &payload, &c.secret, &c.rv, &c.lp, &c.ap, LenConv::Value);
            if let Some(v) = &a {
                if v.chunks_exact(16).any(|c| c.iter().all(|&x| x == 0)) {
                    obs.count("probe:hidden-chunk-all-zero");
                }
                if v.chunks_exact(16).zip(v.chunks_exact(16).skip(1)).any(|(x, y)| x == y) {
                    obs.count("probe:hidden-chunk-repeats-predecessor");
                }
            }
            let conv = if a.as_deref() == Some(&h.value[..]) {
                LenConv::Whole
            } else if b.as_deref() == Some(&h.value[..]) {
                LenConv::Value
            } else {
                let want = a.unwrap_or_default();
                let d = h.value.iter().zip(want.iter()).position(|(x, y)| x != y).unwrap_or(0);
                return Err(Failure::new(
                    "C12",
                    "hidden-value-equals-rfc",
                    &format!("{}:first-diff-block-{}", cls, (d / 16).min(3)),
                    format!(
                        "hidden value differs from RFC 2661 s4.3 (first difference at octet {}, block {}): real {} reference {} (type {}, payload {} octets, secret {} octets, lp {} octets)",
                        d,
                        d / 16,
                        to_hex(&h.value[..h.value.len().min(48)]),
                        to_hex(&want[..want.len().min(48)]),
                        c.avp.attr,
                        payload.len(),
                        c.secret.len(),
                        c.lp.len()
                    ),
                ));
            };
            // the convention must be the same one throughout the process
            let prev = CONV.with(|x| x.get());
            match prev {
                None => CONV.with(|x| x.set(Some(conv))),
                Some(p) if p != conv && !payload.is_empty() => {
                    return Err(Failure::new(
                        "C12",
                        "original-length-convention-consistent",
                        &cls,
                        format!("original-length subfield follows {:?} here but {:?} earlier", conv, p),
                    ))
                }
                _ => {}
            }
            // wire form carries H and the clear attribute type (a value too
            // long for an AVP cannot go on the wire: nothing to look at)
            let enc = if h.value.len() > 1017 {
                let mut e = vec![AVP_M | AVP_H, 6];
                e.extend_from_slice(&[0, 0]);
                e.extend_from_slice(&c.avp.attr.to_be_bytes());
                e
            } else {
                real_encode_avp(&AVP::Hidden(h.clone())).map_err(|e| Failure::new("C12", "hidden-wire-form", &cls, e.text()))?
            };
            if enc.len() < 6 || enc[0] & AVP_H == 0 || u16::from_be_bytes([enc[4], enc[5]]) != c.avp.attr {
                return Err(Failure::new(
                    "C12",
                    "hidden-wire-form",
                    &cls,
                    format!("wire form {} lacks the H bit or the clear attribute type {}", to_hex(&enc[..enc.len().min(16)]), c.avp.attr),
                ));
            }
            // determinism: same inputs, repeated, interleaved with another hide
            let _other = real_hide(&HideCase {
                secret: vec![9; 3],
                ..c.clone()
            });
            if let Some(Ok(AVP::Hidden(h2))) = real_hide(c) {
                if h2.value != h.value {
                    return Err(Failure::new("C12", "hide-deterministic", &cls, "the same hide inputs gave two different hidden values".into()));
                }
            }
            // reveal equals the reference reveal
            let rr = real_reveal(AVP::Hidden(h.clone()), &c.secret, c.rv);
            let sr = spec_reveal(c.avp.attr, &h.value, &c.secret, &c.rv, conv);
            compare_reveal(rr, sr, &cls, "C12")
        }
        Case12::ForeignHide(c) => {
            obs.steps += 1;
            let conv = match CONV.with(|x| x.get()) {
                Some(c) => c,
                None => {
                    // calibrate with one real hide of a fixed AVP
                    let probe = HideCase {
                        avp: SpecAvp { attr: 5, val: Val::U64(1) },
                        secret: vec![1],
                        rv: [0; 4],
                        lp: vec![],
                        ap: [0; 16],
                        via_wire: false,
                        reader: ReaderCfg::Real,
                    };
                    match real_hide(&probe) {
                        Some(Ok(AVP::Hidden(h))) => {
                            let p = spec_decrypt(5, &h.value, &[1], &[0; 4]);
                            match p.map(|p| u16::from_be_bytes([p[0], p[1]])) {
                                Some(8) => LenConv::Value,
                                Some(14) => LenConv::Whole,
                                _ => return Ok(()), // C12::Hide reports that
                            }
                        }
                        _ => return Ok(()),
                    }
                }
            };
            let payload = spec_payload(&c.avp);
            let value = match spec_hide(c.avp.attr, &payload, &c.secret, &c.rv, &c.lp, &c.ap, conv) {
                Some(v) => v,
                None => return Ok(()),
            };
            hide_probes(c, obs);
            let cls = block_class(c);
            if to_crate_avp(&c.avp, &cal_bits).is_none() {
                return Ok(());
            }
            // the foreign peer hid the model value itself
            let original = c.avp.clone();
            let h = AVP::Hidden(Hidden {
                attribute_type: c.avp.attr,
                value,
            });
            match real_reveal(h, &c.secret, c.rv) {
                Ok(Ok(x)) if from_crate_avp(&x) == original => Ok(()),
                Ok(other) => Err(Failure::new(
                    "C12",
                    "reveals-foreign-hidden-value",
                    &cls,
                    format!(
                        "a value hidden by the reference peer per RFC 2661 s4.3 reveals as {:?} instead of {:?} ({} block(s), secret {} octets)",
                        other.map(|x| from_crate_avp(&x)).map_err(|e| errs_text(std::slice::from_ref(&e))),
                        original,
                        blocks_of(c),
                        c.secret.len()
                    ),
                )),
                Err(e) => Err(Failure::new("C12", "reveals-foreign-hidden-value", &cls, format!("reveal failed: {}", e.text()))),
            }
        }
    }
}

fn compare_reveal(
    rr: Result<Result<AVP, DecodeError>, Caught>,
    sr: Revealed,
    cls: &str,
    prop: &str,
) -> Result<(), Failure> {
    match (rr, sr) {
        (Err(_), _) => Ok(()), // totality is C13's own oracle
        (_, Revealed::Unspecified) => Ok(()),
        (Ok(Ok(a)), Revealed::Ok(b)) => {
            if from_crate_avp(&a) == b {
                Ok(())
            } else {
                Err(Failure::new(
                    prop,
                    "reveal-equals-reference",
                    cls,
                    format!("reveal gives {:?}, the reference reveal {:?}", from_crate_avp(&a), b),
                ))
            }
        }
        (Ok(Err(_)), Revealed::Err(_)) => Ok(()),
        (Ok(Ok(a)), Revealed::Err(e)) => Err(Failure::new(
            prop,
            "reveal-equals-reference",
            cls,
            format!("reveal accepts ({:?}) what the reference reveal rejects ({:?})", from_crate_avp(&a), e),
        )),
        (Ok(Err(e)), Revealed::Ok(b)) => Err(Failure::new(
            prop,
            "reveal-equals-reference",
            cls,
            format!("reveal rejects ({}) what the reference reveal accepts ({:?})", errs_text(std::slice::from_ref(&e)), b),
        )),
    }
}

pub struct C12;

impl Scenario for C12 {
    type Case = Case12;
    const ID: &'static str = "C12";
    const LEVEL: &'static str = "exploration";
    fn runs(tier: Tier) -> u64 {
        tier.pick(200_000, 10_000_000)
    }
    fn profiles() -> &'static [Profile] {
        &[Profile::Release]
    }
    fn run(rng: &mut Rng, ctx: &mut Ctx) {
        let sw = Swarm::draw(rng);
        let mut wl = rng.fork("workload");
        let mut sm = rng.fork("seams");
        let forced = ALL_ATTRS[(ctx.run % 39) as usize];
        for k in 0..6 {
            let attr = if k < 2 { forced } else { *wl.pick(&ALL_ATTRS) };
            let hc = gen_hide_case(&mut wl, &sw, attr, &mut sm);
            ctx.obs.distinct(fnv1a(&serde_json::to_vec(&hc).unwrap()));
            let case = if k % 2 == 0 {
                Case12::Hide(hc)
            } else {
                Case12::ForeignHide(hc)
            };
            if ctx.run == 0 && k < 2 {
                let c2 = case.clone();
                ctx.obs.sample(|| json!(c2));
            }
            ctx.check::<C12>(&case);
        }
        // optional text that is present but empty (Some("") is a value a
        // caller can build; it has the same octets as None)
        if ctx.run % 8 == 3 {
            let attr = if wl.bool() { 1u16 } else { 12 };
            let mut hc = gen_hide_case(&mut wl, &sw, attr, &mut sm);
            match &mut hc.avp.val {
                Val::Result { error, .. } => {
                    *error = Some(ResErr {
                        et: wl.range(0, 8) as u16,
                        msg: Some(Vec::new()),
                    })
                }
                Val::Q931 { advisory, .. } => *advisory = Some(Vec::new()),
                _ => {}
            }
            ctx.obs.count("probe:present-but-empty-optional-text");
            ctx.check::<C12>(&Case12::Hide(hc));
        }
        // a hidden value of 2^16 chunks and a little more (a megabyte of
        // length padding: nothing bounds the padding of a value that is
        // revealed without having been on the wire)
        if ctx.run % 400 == 11 {
            let mut sw2 = sw.clone();
            sw2.size = SizeRegime::Typical;
            let attr = *wl.pick(&[7u16, 8, 11, 13, 26, 30, 33]);
            let mut hc = gen_hide_case(&mut wl, &sw2, attr, &mut sm);
            let pl = spec_payload(&hc.avp).len();
            let m = if wl.chance(1, 4) { 2 } else { 1 };
            let j = wl.urange(0, 5);
            let total = 16 * (65_536 * m + j);
            let short = wl.urange(0, 15).min(total - 2 - pl);
            hc.lp = wl.bytes(total - 2 - pl - short);
            hc.via_wire = false;
            hc.secret.truncate(40);
            ctx.obs.count("probe:hidden-value-of-2^16-chunks-or-more");
            ctx.check::<C12>(&Case12::ForeignHide(hc.clone()));
            ctx.check::<C12>(&Case12::Hide(hc));
        }
        if ctx.history_this_run() {
            // a call history over related secrets
            let n = wl.urange(2, 4);
            let secrets = related_secrets(&mut wl, n);
            let mut sw2 = sw.clone();
            if wl.chance(2, 3) {
                sw2.size = SizeRegime::Typical;
            }
            let mut steps = Vec::new();
            for s in secrets {
                let attr = *wl.pick(&ALL_ATTRS);
                let mut hc = gen_hide_case(&mut wl, &sw2, attr, &mut sm);
                hc.secret = s;
                if blocks_of(&hc) < 2 && wl.chance(3, 4) {
                    let room = 1008usize.saturating_sub(2 + spec_payload(&hc.avp).len());
                    let ll = wl.urange(16, 48).min(room);
                    hc.lp = wl.bytes(ll);
                }
                steps.push(if wl.chance(2, 3) { Case12::Hide(hc) } else { Case12::ForeignHide(hc) });
            }
            let case = Case12::History(steps);
            ctx.obs.distinct(fnv1a(&serde_json::to_vec(&case).unwrap()));
            ctx.check::<C12>(&case);
        }
    }
    fn execute(case: &Case12, obs: &mut Obs) -> Result<(), Failure> {
        exec_c12(case, obs)
    }
    fn shrink(case: &Case12) -> Vec<Case12> {
        match case {
            Case12::History(steps) => {
                let mut out = Vec::new();
                if steps.len() == 1 {
                    out.push(steps[0].clone());
                }
                for i in 0..steps.len() {
                    let mut v = steps.clone();
                    v.remove(i);
                    if !v.is_empty() {
                        out.push(Case12::History(v));
                    }
                }
                for i in 0..steps.len() {
                    for alt in Self::shrink(&steps[i]).into_iter().take(12) {
                        let mut v = steps.clone();
                        v[i] = alt;
                        out.push(Case12::History(v));
                    }
                }
                out
            }
            Case12::Hide(c) => shrink_hide(c).into_iter().map(Case12::Hide).collect(),
            Case12::ForeignHide(c) => shrink_hide(c).into_iter().map(Case12::ForeignHide).collect(),
        }
    }
    fn meta() -> Meta {
        Meta {
            rule: "NO TRANSPORT FAULT applies to this property (its quantifier has none); what is injected is the execution environment (one case in ten runs right after a refused operation on the same thread, or inside a destructor while the thread unwinds: faults_fired env-*) and the behaviour of the Reader/Writer seams. Same workload as C11 (all 39 kinds, secret lengths 0-64, block counts 1,2,3,4,63, residues 0,1,15). Interoperability with the foreign peer, which computes RFC 2661 s4.3 with its own MD5: (a) real hides -> the value must equal the reference construction octet for octet, |value| = 16*ceil((2+|payload|+|lp|)/16), attribute type in clear, wire form carries H, the output is deterministic, and reveal equals the reference reveal; (b) the reference peer hides -> real must reveal to the original. The original-length subfield may follow either convention (|value| or 6+|value|) but the same one throughout. distinct_nontrivial = distinct (AVP, secret, rv, paddings) tuples.",
            assumptions: vec![
                "trusted base: the model's MD5 (RFC 1321 appendix A.5 vectors checked at every worker start; compared with the md5 crate on 10^4 PRNG inputs in selftest) and its s4.3 construction",
            ],
            real: vec!["AVP::hide", "AVP::reveal", "AVP::write"],
            stub: vec!["foreign peer: reference hide/reveal with its own MD5"],
            faults_not_applicable: NA_BASELINE,
        }
    }
}

// ===========================================================================
// C13
// ===========================================================================

#[derive(Clone, Debug, Serialize, Deserialize)]
pub struct Case13 {
    pub attr: u16,
    #[serde(with = "hexser")]
    pub value: Vec<u8>,
    #[serde(with = "hexser")]
    pub secret: Vec<u8>,
    pub rv: [u8; 4],
    /// reveal is called from the destructor of a caller's thread-local
    /// while a thread exits
    #[serde(default)]
    pub teardown: Option<crate::env::Teardown>,
}

fn class13(c: &Case13) -> String {
    if c.value.is_empty() {
        return "empty".into();
    }
    if c.value.len() % 16 != 0 {
        return "misaligned".into();
    }
    match spec_declared_len(c.attr, &c.value, &c.secret, &c.rv) {
        None => "undecryptable".into(),
        Some(l) => {
            let l = l as usize;
            if l > c.value.len() + 4 {
                "declared-length-exceeds-value".into()
            } else if l + 6 > c.value.len() + 4 {
                "declared-length-near-end".into()
            } else if l < 6 {
                "declared-length-lt-6".into()
            } else {
                "declared-length-fits".into()
            }
        }
    }
}

fn exec_c13(c: &Case13, obs: &mut Obs) -> Result<(), Failure> {
    obs.steps += 1;
    let cls = class13(c);
    obs.count(&format!("class:{cls}"));
    let h = AVP::Hidden(Hidden {
        attribute_type: c.attr,
        value: c.value.clone(),
    });
    let rr = match c.teardown {
        None => real_reveal(h, &c.secret, c.rv),
        Some(order) => {
            obs.count("fault:env-reveal-at-thread-exit");
            let (secret, rv) = (c.secret.clone(), c.rv);
            // ordinary use during the thread's life: one hide and one reveal
            let warm = || {
                let rvv = RandomVector::from([1u8, 2, 3, 4]);
                let _ = guard(|| {
                    let h = AVP::HostName(rl2tp::avp::types::HostName::from(vec![b'w'; 20])).hide(b"warm", &rvv, &[0u8; 2], &[0u8; 16]);
                    h.reveal(b"warm", &rvv)
                });
            };
            match crate::env::at_thread_exit(order, warm, move || {
                let rvv = RandomVector::from(rv);
                h.reveal(&secret, &rvv)
            }) {
                Some(Ok(r)) => Ok(r),
                Some(Err(p)) => Err(Caught::Panic(
                    p.downcast_ref::<&str>()
                        .map(|s| s.to_string())
                        .or_else(|| p.downcast_ref::<String>().cloned())
                        .unwrap_or_else(|| "panic".into()),
                )),
                None => return Ok(()), // the thread could not be started
            }
        }
    };
    let desc = || {
        format!(
            "{}Hidden{{type {}, value {} octets {}}}, secret {} octets, rv {}",
            match c.teardown {
                Some(o) => format!("[called from a thread-local destructor at thread exit, {o:?}] "),
                None => String::new(),
            },
            c.attr,
            c.value.len(),
            to_hex(&c.value[..c.value.len().min(32)]),
            c.secret.len(),
            to_hex(&c.rv)
        )
    };
    let r = match rr {
        Err(e) => {
            return Err(Failure::new(
                "C13",
                "reveal-no-panic",
                &cls,
                format!("reveal of {} : {}", desc(), e.text()),
            ))
        }
        Ok(r) => r,
    };
    // Ok(avp of the announced type) or Err
    if let Ok(a) = &r {
        let s = from_crate_avp(a);
        if s.attr != c.attr || s.is_hidden() {
            return Err(Failure::new(
                "C13",
                "revealed-type-is-announced-type",
                &cls,
                format!("reveal of {} returned an AVP of type {} (hidden: {})", desc(), s.attr, s.is_hidden()),
            ));
        }
    }
    // mandated rejections
    let must_err = if c.value.is_empty() || c.value.len() % 16 != 0 {
        Some("empty or misaligned value")
    } else {
        None
    };
    if let (Some(why), Ok(a)) = (must_err, &r) {
        return Err(Failure::new(
            "C13",
            "mandated-rejection",
            &cls,
            format!("reveal of {} must be rejected ({why}) but returned {:?}", desc(), from_crate_avp(a)),
        ));
    }
    // declared length (in value terms, either convention) must fit
    if let Some(l) = spec_declared_len(c.attr, &c.value, &c.secret, &c.rv) {
        let fits_value = (l as usize) <= c.value.len() - 2;
        let fits_whole = l >= 6 && (l as usize - 6) <= c.value.len() - 2;
        if !fits_value && !fits_whole && r.is_ok() {
            return Err(Failure::new(
                "C13",
                "mandated-rejection",
                &cls,
                format!("reveal of {} declares original length {} which fits under neither convention, yet Ok", desc(), l),
            ));
        }
        // full comparison with the reference reveal under the convention
        // the real code itself exhibits (calibrated once per process)
        if let Some(conv) = calibrated_conv() {
            let sr = spec_reveal(c.attr, &c.value, &c.secret, &c.rv, conv);
            compare_reveal(Ok(r), sr, &cls, "C13")?;
        }
    }
    Ok(())
}

thread_local! {
    static CONV13: std::cell::Cell<Option<Option<LenConv>>> = const { std::cell::Cell::new(None) };
}

pub fn calibrated_conv() -> Option<LenConv> {
    if let Some(c) = CONV13.with(|x| x.get()) {
        return c;
    }
    let rv = RandomVector::from([0u8; 4]);
    let r = guard(|| AVP::TieBreaker(rl2tp::avp::types::TieBreaker::from(1u64)).hide(&[1], &rv, &[], &[0u8; 16]));
    let conv = match r {
        Ok(AVP::Hidden(h)) => match spec_decrypt(5, &h.value, &[1], &[0; 4]).map(|p| u16::from_be_bytes([p[0], p[1]])) {
            Some(8) => Some(LenConv::Value),
            Some(14) => Some(LenConv::Whole),
            _ => None,
        },
        _ => None,
    };
    CONV13.with(|x| x.set(Some(conv)));
    conv
}

/// Hidden values whose first block is solved (XOR with the known key
/// stream) so that the decrypted original length is an exact boundary value.
pub fn directed_reveal_cases(fr: &mut Rng, count: usize) -> Vec<Case13> {
    let mut out = Vec::new();
    for _ in 0..count {
        let blocks = *fr.pick(&[1usize, 1, 2, 3, 63]);
        let n = blocks * 16;
        let sl = fr.urange(0, 20);
        let rvb = fr.bytes(4);
        let mut c = Case13 {
            attr: *fr.pick(&ALL_ATTRS),
            value: fr.bytes(n),
            secret: fr.bytes(sl),
            rv: [rvb[0], rvb[1], rvb[2], rvb[3]],
            teardown: None,
        };
        let want: u16 = *fr.pick(&[
            0u16,
            5,
            6,
            7,
            (n - 2) as u16,
            (n - 1) as u16,
            n as u16,
            (n + 1) as u16,
            (n + 2) as u16,
            (n + 3) as u16,
            (n + 4) as u16,
            (n + 5) as u16,
            (n + 6) as u16,
            (n + 7) as u16,
            (n + 16) as u16,
            1023,
            1024,
            65535,
        ]);
        let ks = first_keystream(c.attr, &c.secret, &c.rv);
        let w = want.to_be_bytes();
        c.value[0] = w[0] ^ ks[0];
        c.value[1] = w[1] ^ ks[1];
        out.push(c);
    }
    out
}

pub struct C13;

impl Scenario for C13 {
    type Case = Case13;
    const ID: &'static str = "C13";
    const LEVEL: &'static str = "exploration";
    fn runs(tier: Tier) -> u64 {
        tier.pick(100_000, 4_000_000)
    }
    fn profiles() -> &'static [Profile] {
        &[Profile::Dev, Profile::Release]
    }
    fn run(rng: &mut Rng, ctx: &mut Ctx) {
        let sw = Swarm::draw(rng);
        let mut wl = rng.fork("workload");
        let mut fr = rng.fork("faults");
        let mut sm = rng.fork("seams");
        let conv = calibrated_conv().unwrap_or(LenConv::Whole);
        for k in 0..8 {
            // a valid hidden AVP from the hider node ...
            let attr = *wl.pick(&ALL_ATTRS);
            let hc = gen_hide_case(&mut wl, &sw, attr, &mut sm);
            let payload = spec_payload(&hc.avp);
            let value = match spec_hide(hc.avp.attr, &payload, &hc.secret, &hc.rv, &hc.lp, &hc.ap, conv) {
                Some(v) => v,
                None => continue,
            };
            let mut c = Case13 {
                attr: hc.avp.attr,
                value,
                secret: hc.secret.clone(),
                rv: hc.rv,
                teardown: None,
            };
            // ... then key skew and ciphertext faults between the parties
            let nf = fr.urange(0, 2);
            for _ in 0..nf {
                let kind = match fr.below(8) {
                    0 => {
                        if c.secret.is_empty() {
                            c.secret.push(fr.u8());
                        } else {
                            let i = fr.usize_below(c.secret.len());
                            c.secret[i] ^= 1 << fr.below(8);
                        }
                        "secret-skew-bit"
                    }
                    1 => {
                        let n = fr.usize_below(c.secret.len() + 1);
                        c.secret.truncate(n);
                        "secret-skew-prefix"
                    }
                    2 => {
                        let n = fr.urange(0, 24);
                        c.secret = fr.bytes(n);
                        "secret-skew-random"
                    }
                    3 => {
                        c.rv[fr.usize_below(4)] ^= 1 << fr.below(8);
                        "rv-skew"
                    }
                    4 => {
                        let i = if fr.bool() { fr.usize_below(2.min(c.value.len()).max(1)) } else { fr.usize_below(c.value.len().max(1)) };
                        if !c.value.is_empty() {
                            c.value[i] ^= 1 << fr.below(8);
                        }
                        "cipher-flip"
                    }
                    5 => {
                        let n = fr.usize_below(c.value.len() + 1);
                        c.value.truncate(n);
                        "cipher-truncate"
                    }
                    6 => {
                        let n = *fr.pick(&[1usize, 15, 16, 17, 32]);
                        let extra = fr.bytes(n);
                        c.value.extend_from_slice(&extra);
                        "cipher-extend"
                    }
                    _ => {
                        c.attr = if fr.bool() { *fr.pick(&ALL_ATTRS) } else { fr.extreme(16) as u16 };
                        "type-swap"
                    }
                };
                ctx.obs.count(&format!("fault:{kind}"));
            }
            ctx.obs.distinct(fnv1a(&serde_json::to_vec(&c).unwrap()));
            if ctx.run == 0 && k < 2 {
                let c2 = c.clone();
                ctx.obs.sample(|| json!(c2));
            }
            ctx.check::<C13>(&c);
        }
        // raw hidden values of awkward sizes
        for _ in 0..3 {
            let n = *fr.pick(&[0usize, 1, 15, 16, 17, 32, 48, 1008, 1017, 1024, 4096]);
            let sl = fr.urange(0, 20);
            let rvb = fr.bytes(4);
            let c = Case13 {
                attr: if fr.bool() { *fr.pick(&ALL_ATTRS) } else { fr.u16() },
                value: fr.bytes(n),
                secret: fr.bytes(sl),
                rv: [rvb[0], rvb[1], rvb[2], rvb[3]],
                teardown: None,
            };
            ctx.obs.count("fault:raw-hidden-value");
            ctx.obs.distinct(fnv1a(&serde_json::to_vec(&c).unwrap()));
            ctx.check::<C13>(&c);
        }
        // directed: solve the first block so that the decrypted length is an
        // exact boundary value
        for c in directed_reveal_cases(&mut fr, 5) {
            ctx.obs.count("fault:solved-declared-length");
            ctx.obs.distinct(fnv1a(&serde_json::to_vec(&c).unwrap()));
            ctx.check::<C13>(&c);
        }
        // reveal called while a thread is being torn down (one run in four)
        if ctx.run % 4 == 0 {
            let attr = *wl.pick(&ALL_ATTRS);
            let hc = gen_hide_case(&mut wl, &sw, attr, &mut sm);
            let payload = spec_payload(&hc.avp);
            if let Some(value) = spec_hide(hc.avp.attr, &payload, &hc.secret, &hc.rv, &hc.lp, &hc.ap, conv) {
                let c = Case13 {
                    attr: hc.avp.attr,
                    value,
                    secret: hc.secret.clone(),
                    rv: hc.rv,
                    teardown: Some(*sm.pick(&[
                        crate::env::Teardown::RegisteredFirst,
                        crate::env::Teardown::RegisteredFirst,
                        crate::env::Teardown::RegisteredLast,
                        crate::env::Teardown::Cold,
                    ])),
                };
                ctx.check::<C13>(&c);
            }
        }
    }
    fn execute(case: &Case13, obs: &mut Obs) -> Result<(), Failure> {
        exec_c13(case, obs)
    }
    fn shrink(case: &Case13) -> Vec<Case13> {
        let mut out = Vec::new();
        if case.teardown.is_some() {
            out.push(Case13 {
                teardown: None,
                ..case.clone()
            });
        }
        for s in shrink_bytes(&case.secret).into_iter().take(8) {
            out.push(Case13 {
                secret: s,
                ..case.clone()
            });
        }
        if case.rv != [0; 4] {
            out.push(Case13 {
                rv: [0; 4],
                ..case.clone()
            });
        }
        // drop trailing blocks
        let mut n = case.value.len();
        while n > 16 {
            n -= 16;
            out.push(Case13 {
                value: case.value[..n].to_vec(),
                ..case.clone()
            });
        }
        if case.attr != 6 {
            out.push(Case13 {
                attr: 6,
                ..case.clone()
            });
        }
        out
    }
    /// Thorough tier: about 100 reveal inputs (skewed keys, solved lengths)
    /// replayed under Miri, the only memory monitor reveal() can be given.
    fn extra(tier: Tier, seed: u64, obs: &mut Obs) -> Vec<(serde_json::Value, Failure)> {
        if tier != Tier::Thorough {
            return Vec::new();
        }
        let mut rng = Rng::new(crate::rng::run_seed(seed, "C13-miri-sample", 0));
        let mut lines = Vec::new();
        for i in 0..100usize {
            let blocks = *rng.pick(&[1usize, 1, 2, 3]);
            let n = blocks * 16;
            let sl = rng.urange(0, 12);
            let secret = rng.bytes(sl);
            let rv = rng.bytes(4);
            let attr = *rng.pick(&ALL_ATTRS);
            let mut value = rng.bytes(n);
            if i % 2 == 0 {
                let want: u16 = *rng.pick(&[0u16, 5, 6, 7, (n - 2) as u16, n as u16, (n + 3) as u16, (n + 4) as u16, (n + 5) as u16, 1023, 1024, 65535]);
                let ks = first_keystream(attr, &secret, &rv);
                let w = want.to_be_bytes();
                value[0] = w[0] ^ ks[0];
                value[1] = w[1] ^ ks[1];
            }
            lines.push(format!("R {} {} {} {}", attr, to_hex(&value), if secret.is_empty() { "00".to_string() } else { to_hex(&secret) }, to_hex(&rv)));
        }
        match crate::props::c19_side::run_miri_sample("C13", &lines) {
            Ok(n) => {
                obs.add("miri-sample-inputs-replayed", n);
                obs.evaluations += n;
                Vec::new()
            }
            Err((true, d)) => vec![(
                serde_json::Value::Null,
                Failure::new("C13", "miri-memory-monitor", "miri-sample", d),
            )],
            Err((false, why)) => {
                obs.count("note:miri-unavailable");
                println!("NOTE C13: Miri sample skipped ({why})");
                Vec::new()
            }
        }
    }
    fn meta() -> Meta {
        Meta {
            rule: "two parties with possibly different keys. Each run: 8 valid hidden AVPs from the hider node (C11's generator), each hit by 0-2 faults between the parties (secret differs in one bit / is a prefix / is random; random vector differs; ciphertext bit flip biased to the length subfield; ciphertext truncated; ciphertext extended by 1/15/16/17/32 octets; announced attribute type swapped, incl. unassigned); 3 raw hidden values of 0,1,15,16,17,32,48,1008,1017,1024,4096 PRNG octets; 4 directed values whose first block is solved (XOR with the known key stream) so that the decrypted length is exactly 0,5,6,7,|v|-2,|v|-1,|v|,|v|+3,|v|+4,|v|+5,1023,1024,65535. Dev and release profile, process-isolated. Oracle: no unwinding panic, no abort; Ok(x) only with type(x) = announced type; empty and non-multiple-of-16 values rejected; a declared length fitting under neither length convention rejected; result equals the reference reveal (where the properties specify it). distinct_nontrivial = distinct (type, value, secret, rv) tuples.",
            assumptions: vec![
                "reveal builds its own SliceReader, so out-of-range reads are observed through dev-profile aborts (std's unsafe-precondition checks) and the Miri sample, not through a monitored reader",
                "a declared original AVP length above 1023 that still fits inside an over-long hidden value is left unspecified",
            ],
            real: vec!["AVP::reveal", "per-type decoders via reveal", "SliceReader (inside reveal)"],
            stub: vec!["hider node: reference hide", "secret store with skew", "channel with ciphertext faults"],
            faults_not_applicable: "crash/restart, disk, partition, clock faults: no state, storage, membership or clock in rl2tp",
        }
    }
}
