//! C01 (decoding is total) and C02 (no read outside the input, whatever
//! reader backs it). Both share the workload and the fault enumeration;
//! C01 judges what comes back, C02 judges what the decoder asked of its
//! reader while getting there.

use crate::core::*;
use crate::deliver::*;
use crate::faults::*;
use crate::gen::*;
use crate::model::*;
use crate::rng::{fnv1a, mix2, Rng};
use crate::seams::*;
use serde::{Deserialize, Serialize};
use serde_json::json;

#[derive(Clone, Debug, PartialEq, Eq, Serialize, Deserialize)]
pub enum Entry {
    /// `try_read_validate` with option set 0..8
    Validate(u8),
    /// `try_read`
    TryRead,
    /// `AVP::try_read_greedy`
    Greedy,
    /// `AVP::reveal` of `Hidden { attr, value = bytes }` (builds its own
    /// SliceReader: an out-of-range request shows up as a panic inside
    /// slice_reader.rs, or as an abort in the dev profile)
    Reveal {
        attr: u16,
        #[serde(with = "hexser")]
        secret: Vec<u8>,
        rv: [u8; 4],
    },
}

#[derive(Clone, Debug, Serialize, Deserialize)]
pub struct Case {
    #[serde(with = "hexser")]
    pub bytes: Vec<u8>,
    pub entry: Entry,
    pub reader: ReaderCfg,
}

/// Root-cause class from the input alone.
pub fn classify(b: &[u8], entry: &Entry) -> &'static str {
    if *entry == Entry::Greedy {
        return classify_region(b);
    }
    if matches!(entry, Entry::Reveal { .. }) {
        return "reveal";
    }
    if b.len() < 2 {
        return "short";
    }
    let w = u16::from_be_bytes([b[0], b[1]]);
    if w & FLAG_T != 0 {
        if b.len() >= 12 {
            let l = u16::from_be_bytes([b[2], b[3]]) as usize;
            if l < 12 {
                return "control-length-lt-12";
            }
            let end = l.min(b.len());
            return classify_region(&b[12..end]);
        }
        "control-truncated"
    } else if w & FLAG_L != 0 {
        "data-with-length"
    } else if w & FLAG_O != 0 {
        "data-with-offset"
    } else {
        "data"
    }
}

fn classify_region(r: &[u8]) -> &'static str {
    let mut pos = 0;
    while r.len() - pos >= 6 {
        let len = (((r[pos] >> 6) as usize) << 8) | r[pos + 1] as usize;
        if len < 6 {
            return "avp-length-lt-6";
        }
        if pos + len > r.len() {
            return "avp-length-past-end";
        }
        pos += len;
    }
    "avp-region"
}

fn run_entry(
    b: &[u8],
    entry: &Entry,
    reader: &ReaderCfg,
    keep_log: bool,
) -> Result<(Result<String, usize>, usize, MonSnap), Caught> {
    // returns (Ok(rendered result) | Err(error-list length), remaining, monitor)
    match entry {
        Entry::Reveal { attr, secret, rv } => {
            let h = rl2tp::avp::AVP::Hidden(rl2tp::avp::types::Hidden {
                attribute_type: *attr,
                value: b.to_vec(),
            });
            let rvv = rl2tp::avp::types::RandomVector::from(*rv);
            guard(|| h.reveal(secret, &rvv)).map(|r| {
                let txt = match r {
                    Ok(a) => serde_json::to_string(&crate::conv::from_crate_avp(&a)).unwrap_or_default(),
                    Err(e) => errs_text(std::slice::from_ref(&e)),
                };
                (
                    Ok(txt),
                    0,
                    MonSnap::none(),
                )
            })
        }
        Entry::Greedy => decode_avps(b, reader, keep_log).map(|o| {
            let txt = format!(
                "{:?}",
                o.items
                    .iter()
                    .map(|x| match x {
                        Ok(a) => serde_json::to_string(a).unwrap_or_default(),
                        Err(e) => errs_text(std::slice::from_ref(e)),
                    })
                    .collect::<Vec<_>>()
            );
            (Ok(txt), o.remaining, o.mon)
        }),
        Entry::TryRead | Entry::Validate(_) => {
            let opts = match entry {
                Entry::Validate(i) => Some(Opts::from_index(*i)),
                _ => None,
            };
            decode_msg(b, opts, reader, keep_log).map(|o| {
                let r = match &o.result {
                    Err(e) if e.is_empty() => Err(0usize),
                    other => Ok(result_text(other)),
                };
                (r, o.remaining, o.mon)
            })
        }
    }
}

fn exec_c01(case: &Case, obs: &mut Obs) -> Result<(), Failure> {
    let cls = classify(&case.bytes, &case.entry);
    match run_entry(&case.bytes, &case.entry, &case.reader, false) {
        Ok((r, _rem, mon)) => {
            obs.reader_calls += mon.calls;
            obs.steps += 1;
            if mon.path != 0 {
                obs.path(mon.path);
            }
            match r {
                Ok(_) => Ok(()),
                Err(_) => Err(Failure::new(
                    "C01",
                    "nonempty-error-list",
                    cls,
                    format!(
                        "{:?} returned Err with an empty error list for {} octets {}",
                        case.entry,
                        case.bytes.len(),
                        to_hex(&case.bytes[..case.bytes.len().min(64)])
                    ),
                )),
            }
        }
        Err(Caught::StepBudget) => Err(Failure::new(
            "C01",
            "termination",
            cls,
            format!(
                "{:?} exceeded {} reader calls on {} octets (no progress): {}",
                case.entry,
                step_budget(case.bytes.len()),
                case.bytes.len(),
                to_hex(&case.bytes[..case.bytes.len().min(64)])
            ),
        )),
        Err(c @ Caught::Panic(_)) => Err(Failure::new(
            "C01",
            "no-panic",
            cls,
            format!(
                "{:?} via {} reader on {} octets {}: {}",
                case.entry,
                case.reader.name(),
                case.bytes.len(),
                to_hex(&case.bytes[..case.bytes.len().min(64)]),
                c.text()
            ),
        )),
    }
}

fn exec_c02(case: &Case, obs: &mut Obs) -> Result<(), Failure> {
    let cls = classify(&case.bytes, &case.entry);
    if matches!(case.entry, Entry::Reveal { .. }) {
        obs.steps += 1;
        // reveal owns its reader; the only observable is whether one of the
        // SliceReader methods refused (panicked on) a request
        return match run_entry(&case.bytes, &case.entry, &ReaderCfg::Real, false) {
            Err(c @ Caught::Panic(_)) if c.text().contains("slice_reader.rs") => Err(Failure::new(
                "C02",
                "reader-precondition",
                cls,
                format!(
                    "reveal of a {}-octet hidden value issued an out-of-range request to its own SliceReader: {}; value {}",
                    case.bytes.len(),
                    c.text(),
                    to_hex(&case.bytes[..case.bytes.len().min(32)])
                ),
            )),
            _ => Ok(()), // other panics: C13's business
        };
    }
    if let ReaderCfg::Refusing(_) = &case.reader {
        return exec_c02_read_faults(case, cls, obs);
    }
    // the reader users have; a panic here is C01's business, not C02's
    let base = run_entry(&case.bytes, &case.entry, &ReaderCfg::Real, false);
    let sim = run_entry(&case.bytes, &case.entry, &case.reader, true);
    obs.steps += 1;
    let (sr, srem, mon) = match sim {
        Ok(x) => x,
        Err(_) => return Ok(()), // totality is judged by C01
    };
    obs.reader_calls += mon.calls;
    obs.path(mon.path);
    if mon.straddles > 0 {
        obs.add("probe:fixed-width-read-straddles-chunk", mon.straddles);
    }
    if let Some(v) = mon.violations.first() {
        let log = mon
            .log
            .as_ref()
            .map(|l| {
                l.iter()
                    .rev()
                    .take(6)
                    .rev()
                    .map(|c| format!("{:?}({})@{}/rem{}", c.method, c.arg, c.abs, c.remaining_before))
                    .collect::<Vec<_>>()
                    .join(" ")
            })
            .unwrap_or_default();
        return Err(Failure::new(
            "C02",
            "reader-precondition",
            cls,
            format!(
                "{:?} via {} reader on {} octets {}: {} (last calls: {})",
                case.entry,
                case.reader.name(),
                case.bytes.len(),
                to_hex(&case.bytes[..case.bytes.len().min(64)]),
                v,
                log
            ),
        ));
    }
    if let Ok((br, brem, _)) = base {
        if br != sr || brem != srem {
            return Err(Failure::new(
                "C02",
                "same-result-on-every-reader",
                cls,
                format!(
                    "{:?} on {} octets {}: SliceReader gives {:?} (remaining {}), {} reader gives {:?} (remaining {})",
                    case.entry,
                    case.bytes.len(),
                    to_hex(&case.bytes[..case.bytes.len().min(64)]),
                    br,
                    brem,
                    case.reader.name(),
                    sr,
                    srem
                ),
            ));
        }
    }
    Ok(())
}

/// Read-fault injection: the reader declines `bytes()` requests that cross a
/// discontinuity of its storage. Not a conforming reader, so the result
/// need not equal SliceReader's; what must hold: every unchecked request
/// still lies within the input, and the result differs from the fault-free
/// one only by read errors (never by wrong data or by blaming the message).
fn exec_c02_read_faults(case: &Case, cls: &str, obs: &mut Obs) -> Result<(), Failure> {
    obs.steps += 1;
    let fail = |oracle: &str, detail: String| {
        Failure::new(
            "C02",
            oracle,
            cls,
            format!(
                "{:?} via a reader that declines requests across {:?} on {} octets {}: {}",
                case.entry,
                case.reader,
                case.bytes.len(),
                to_hex(&case.bytes[..case.bytes.len().min(64)]),
                detail
            ),
        )
    };
    match &case.entry {
        Entry::Reveal { .. } => Ok(()),
        Entry::Greedy => {
            let base = match decode_avps(&case.bytes, &ReaderCfg::Real, false) {
                Ok(o) => o,
                Err(_) => return Ok(()),
            };
            let got = match decode_avps(&case.bytes, &case.reader, false) {
                Ok(o) => o,
                Err(_) => return Ok(()), // C01
            };
            obs.reader_calls += got.mon.calls;
            if let Some(v) = got.mon.violations.first() {
                return Err(fail("reader-precondition", v.clone()));
            }
            if got.mon.refusals.is_empty() {
                obs.count("probe:refusing-reader-no-fault-fired");
            } else {
                obs.add("fault:read-declined", got.mon.refusals.len() as u64);
            }
            if hidden_payload_declined(&case.bytes, &got.mon.refusals) {
                obs.count("skipped:hidden-payload-declined-unspecified");
                return Ok(());
            }
            if base.items.len() != got.items.len() {
                return Err(fail(
                    "read-fault-changes-only-read-errors",
                    format!("{} items without the fault, {} with it", base.items.len(), got.items.len()),
                ));
            }
            for (i, (b, g)) in base.items.iter().zip(got.items.iter()).enumerate() {
                let ok = match (b, g) {
                    (Ok(x), Ok(y)) => {
                        x == y || (!got.mon.refusals.is_empty() && x.is_hidden() && y.is_hidden() && x.attr == y.attr && matches!(&y.val, Val::Hidden(v) if v.is_empty()))
                    }
                    (Err(x), Err(y)) if x == y => true,
                    (_, Err(y)) => !got.mon.refusals.is_empty() && crate::conv::err_kind(y).is_none(),
                    _ => false,
                };
                if !ok {
                    return Err(fail(
                        "read-fault-changes-only-read-errors",
                        format!(
                            "item #{i}: {:?} without the fault, {:?} with it ({} request(s) declined)",
                            b.as_ref().map_err(|e| errs_text(std::slice::from_ref(e))),
                            g.as_ref().map_err(|e| errs_text(std::slice::from_ref(e))),
                            got.mon.refusals.len()
                        ),
                    ));
                }
            }
            Ok(())
        }
        Entry::TryRead | Entry::Validate(_) => {
            let opts = match &case.entry {
                Entry::Validate(i) => Some(Opts::from_index(*i)),
                _ => None,
            };
            let base = match decode_msg(&case.bytes, opts, &ReaderCfg::Real, false) {
                Ok(o) => o,
                Err(_) => return Ok(()),
            };
            let got = match decode_msg(&case.bytes, opts, &case.reader, false) {
                Ok(o) => o,
                Err(_) => return Ok(()),
            };
            obs.reader_calls += got.mon.calls;
            if let Some(v) = got.mon.violations.first() {
                return Err(fail("reader-precondition", v.clone()));
            }
            if got.mon.refusals.is_empty() {
                obs.count("probe:refusing-reader-no-fault-fired");
                let same = match (&base.result, &got.result) {
                    (Ok(a), Ok(b)) => a == b,
                    (Err(a), Err(b)) => a == b,
                    _ => false,
                };
                if !same || base.remaining != got.remaining {
                    return Err(fail(
                        "same-result-on-every-reader",
                        format!("no request was declined, yet {} (remaining {}) instead of {} (remaining {})", result_text(&got.result), got.remaining, result_text(&base.result), base.remaining),
                    ));
                }
                return Ok(());
            }
            obs.add("fault:read-declined", got.mon.refusals.len() as u64);
            if hidden_payload_declined(&case.bytes, &got.mon.refusals) {
                obs.count("skipped:hidden-payload-declined-unspecified");
                return Ok(());
            }
            read_fault_consistent(&base.result, &got.result).map_err(|d| fail("read-fault-changes-only-read-errors", d))?;
            // a control message is consumed to its declared end whatever its AVPs do
            let is_control = case.bytes.first().map_or(false, |b| b & 1 != 0);
            if is_control && got.remaining != base.remaining {
                return Err(fail(
                    "read-fault-keeps-position",
                    format!("{} octets remain after the call, {} without the fault", got.remaining, base.remaining),
                ));
            }
            Ok(())
        }
    }
}

fn shrink_case(c: &Case) -> Vec<Case> {
    let mut out = Vec::new();
    if c.reader != ReaderCfg::Real && c.reader != ReaderCfg::Slice {
        out.push(Case {
            reader: ReaderCfg::Slice,
            ..c.clone()
        });
    }
    if let ReaderCfg::Segmented(cuts) = &c.reader {
        for i in 0..cuts.len() {
            let mut k = cuts.clone();
            k.remove(i);
            out.push(Case {
                reader: ReaderCfg::Segmented(k),
                ..c.clone()
            });
        }
    }
    if let Entry::Validate(i) = c.entry {
        if i != 0 {
            out.push(Case {
                entry: Entry::Validate(0),
                ..c.clone()
            });
        }
    }
    for b in shrink_bytes(&c.bytes) {
        out.push(Case {
            bytes: b,
            ..c.clone()
        });
    }
    out
}

/// Base traffic of one run: valid messages from the reference sender
/// (canonical or foreign), plus fragments.
fn base_messages(rng: &mut Rng, tier: Tier, obs: &mut Obs) -> Vec<Vec<u8>> {
    let sw = Swarm::draw(rng);
    let mut out = Vec::new();
    let n = rng.urange(1, 3);
    for _ in 0..n {
        if rng.chance(1, 96) {
            // inputs beyond 64 KiB: nothing bounds a reader to 16 bits
            if let Some(b) = crate::props::c05_c10::beyond_64k(rng, &sw) {
                obs.count("probe:input-beyond-64k");
                out.push(b);
                continue;
            }
            let dl = *rng.pick(&[65_530usize, 65_536, 65_541, 70_000]);
            let has_o = rng.bool();
            let m = SpecMessage::Data {
                prio: rng.bool(),
                length: None,
                tunnel_id: rng.u16(),
                session_id: rng.u16(),
                ns_nr: if rng.bool() { Some((rng.u16(), rng.u16())) } else { None },
                offset: if has_o { Some(*rng.pick(&[0u16, 3, 65_535])) } else { None },
                data: rng.bytes(dl),
            };
            obs.count("probe:input-beyond-64k");
            out.push(spec_encode(&m));
            continue;
        }
        if rng.chance(1, 160) {
            // a bare AVP list of 2^16 records and more (behind a 12-octet
            // header so that it also arrives as the tail of a short message)
            let n = *rng.pick(&[65_535usize, 65_536, 65_537, 70_000]);
            let mut b = vec![0x13, 0x20, 0, 20, 0, 1, 0, 2, 0, 0, 0, 0];
            b.extend_from_slice(&crate::records::raw_record(AVP_M, 0, 0, &[0, 6]));
            let six = crate::records::raw_record(AVP_M, 0, 39, &[]);
            let eight = crate::records::raw_record(AVP_M, 0, 10, &[0, 4]);
            for i in 0..n {
                b.extend_from_slice(if i % 7 == 3 { &eight } else { &six });
            }
            obs.count("probe:avp-list-of-2^16-records-or-more");
            out.push(b);
            continue;
        }
        match rng.below(10) {
            0..=5 => {
                let limit = if tier == Tier::Thorough && rng.chance(1, 40) {
                    65535
                } else {
                    *rng.pick(&[64usize, 200, 600, 1400, 4096])
                };
                let mut sw2 = sw.clone();
                if limit == 65535 {
                    sw2.size = SizeRegime::Boundary;
                    sw2.max_avps = 80;
                }
                let m = gen_control(rng, &sw2, limit);
                let tape = gen_knobs(rng, 40);
                let mut k = Knobs::new(&tape);
                let b = spec_encode_with(&m, &mut k, Opts::from_index(0));
                if k.fired > 0 {
                    obs.count("probe:foreign-noncanonical-base");
                }
                out.push(b);
            }
            6..=8 => {
                // data messages too come from the foreign peer: reserved
                // header bits and odd version nibbles set in most of them
                let m = gen_data(rng, &sw);
                let tape = gen_knobs(rng, 4);
                let mut k = Knobs::new(&tape);
                let b = spec_encode_with(&m, &mut k, Opts::from_index(0));
                if k.fired > 0 {
                    obs.count("probe:foreign-noncanonical-base");
                }
                out.push(b);
            }
            _ => out.push(fragment(rng)),
        }
    }
    out
}

fn probes(b: &[u8], obs: &mut Obs) {
    if b.len() >= 4 {
        let w = u16::from_be_bytes([b[0], b[1]]);
        let l = u16::from_be_bytes([b[2], b[3]]);
        if w & FLAG_T != 0 && w & FLAG_L != 0 {
            if l < 12 {
                obs.count("probe:control-length-lt-12");
            } else if l == 12 {
                obs.count("probe:control-zlb");
            }
            if l > 255 {
                obs.count("probe:message-length-gt-255");
            }
            if l >= 32768 {
                obs.count("probe:message-length-ge-32768");
            }
        }
        if w & FLAG_T == 0 {
            if w & FLAG_L != 0 {
                obs.count("probe:data-L");
            }
            if w & FLAG_S != 0 {
                obs.count("probe:data-S");
            }
            if w & FLAG_O != 0 {
                obs.count("probe:data-O");
            }
            if w & FLAG_P != 0 {
                obs.count("probe:data-P");
            }
        }
    }
}

/// Deliver one faulted octet string to the receivers.
fn deliver_all<S: Scenario<Case = Case>>(
    ctx: &mut Ctx,
    rng: &mut Rng,
    b: Vec<u8>,
    kind: &'static str,
    full: bool,
) {
    ctx.obs.count(&format!("fault:{kind}"));
    probes(&b, ctx.obs);
    let h = fnv1a(&b);
    ctx.obs.distinct(mix2(h, fnv1a(kind.as_bytes()) & 0xFF));
    let body_from = if b.len() >= 12 && b[0] & 1 != 0 { 12 } else { 0 };
    let sim_reader = draw_reader(rng, b.len());
    if S::ID == "C01" {
        // the reader users have, under every option set and entry point
        for i in 0..8u8 {
            ctx.check::<S>(&Case {
                bytes: b.clone(),
                entry: Entry::Validate(i),
                reader: ReaderCfg::Real,
            });
        }
        ctx.check::<S>(&Case {
            bytes: b.clone(),
            entry: Entry::TryRead,
            reader: ReaderCfg::Real,
        });
        ctx.check::<S>(&Case {
            bytes: b[body_from..].to_vec(),
            entry: Entry::Greedy,
            reader: ReaderCfg::Real,
        });
        // the monitored reader, for the step clock
        let e = if full {
            None
        } else {
            Some(rng.below(8) as u8)
        };
        for i in 0..8u8 {
            if e.is_none() || e == Some(i) {
                ctx.check::<S>(&Case {
                    bytes: b.clone(),
                    entry: Entry::Validate(i),
                    reader: sim_reader.clone(),
                });
            }
        }
        ctx.check::<S>(&Case {
            bytes: b[body_from..].to_vec(),
            entry: Entry::Greedy,
            reader: sim_reader,
        });
        // the same octets at the head of an astronomically long sparse input
        if rng.chance(1, 6) {
            let total = match rng.below(6) {
                0 => (1u64 << 32) + rng.range(0, 70_000),
                1 => 1u64 << 40,
                2 => (1u64 << 48) + 5,
                3 => 1u64 << 62,
                4 => (1u64 << 61) + rng.range(0, 1 << 20),
                // no octet string is longer than isize::MAX
                _ => isize::MAX as u64 - rng.range(0, 16),
            };
            ctx.obs.count("fault:head-of-huge-sparse-input");
            let is_control = b.first().map_or(false, |x| x & 1 != 0);
            if is_control || b.first().map_or(false, |x| x & 2 != 0) {
                // self-delimiting messages only: a data message without a
                // length field would be the whole source
                ctx.check::<S>(&Case {
                    bytes: b.clone(),
                    entry: if rng.bool() { Entry::TryRead } else { Entry::Validate(rng.below(8) as u8) },
                    reader: ReaderCfg::Sparse(total),
                });
            }
            ctx.check::<S>(&Case {
                bytes: b[body_from..].to_vec(),
                entry: Entry::Greedy,
                reader: ReaderCfg::Sparse(total),
            });
        }
        // read faults: a reader that declines spans across discontinuities
        if full || rng.chance(1, 3) {
            let rf = draw_refusing(rng, b.len());
            ctx.obs.count("fault:reader-declines-spans");
            ctx.check::<S>(&Case {
                bytes: b.clone(),
                entry: Entry::Validate(rng.below(8) as u8),
                reader: rf.clone(),
            });
            if let ReaderCfg::Refusing(c) = &rf {
                let c2: Vec<usize> = c.iter().filter(|&&x| x > body_from).map(|x| x - body_from).collect();
                ctx.check::<S>(&Case {
                    bytes: b[body_from..].to_vec(),
                    entry: Entry::Greedy,
                    reader: ReaderCfg::Refusing(c2),
                });
            }
        }
    } else {
        // C02: every monitored back-end on the lax and the strict receiver
        let readers = if full {
            vec![
                ReaderCfg::Slice,
                ReaderCfg::Owned,
                draw_reader(rng, b.len()),
                sim_reader,
            ]
        } else {
            vec![sim_reader]
        };
        let mut readers = readers;
        if full || rng.chance(1, 3) {
            ctx.obs.count("fault:reader-declines-spans");
            readers.push(draw_refusing(rng, b.len()));
        }
        for r in readers {
            let r = match r {
                // the AVP list starts 12 octets in
                ReaderCfg::Refusing(c) => ReaderCfg::Refusing(c),
                other => other,
            };
            let i = if rng.bool() { 0 } else { rng.below(8) as u8 };
            ctx.check::<S>(&Case {
                bytes: b.clone(),
                entry: Entry::Validate(i),
                reader: r.clone(),
            });
            ctx.check::<S>(&Case {
                bytes: b[body_from..].to_vec(),
                entry: Entry::Greedy,
                reader: r,
            });
        }
    }
}

fn run_common<S: Scenario<Case = Case>>(rng: &mut Rng, ctx: &mut Ctx) {
    let tier = ctx.tier;
    let mut wl = rng.fork("workload");
    let mut fr = rng.fork("faults");
    if S::ID == "C02" {
        let mut rr = rng.fork("reveal");
        for c in crate::props::hiding::directed_reveal_cases(&mut rr, 24) {
            ctx.obs.count("fault:solved-declared-length");
            ctx.check::<S>(&Case {
                bytes: c.value,
                entry: Entry::Reveal {
                    attr: c.attr,
                    secret: c.secret,
                    rv: c.rv,
                },
                reader: ReaderCfg::Real,
            });
        }
    }
    let bases = base_messages(&mut wl, tier, ctx.obs);
    for base in bases {
        let lay = layout_of(&base);
        if ctx.run < 3 {
            let b2 = base.clone();
            ctx.obs.sample(|| {
                json!({"base_message_hex": to_hex(&b2[..b2.len().min(200)]), "octets": b2.len(),
                       "delivered": "every truncation, every header bit flip, every length field at guard+-1, fault pairs; each to 8 option sets, try_read and try_read_greedy"})
            });
        }
        if base.len() > 300_000 {
            // a list of 2^16 records or more: the list decoder only, whole,
            // cut inside its last record, and with one record's length raised
            let body = base[12..].to_vec();
            let mut cut = body.clone();
            cut.truncate(body.len() - 3);
            let mut bumped = body.clone();
            let at = body.len() - 6;
            bumped[at + 1] = 9;
            for (k, b) in [("none", body), ("truncate", cut), ("set-avp-length", bumped)] {
                ctx.obs.count(&format!("fault:{k}"));
                for reader in [ReaderCfg::Real, ReaderCfg::Slice] {
                    ctx.check::<S>(&Case {
                        bytes: b.clone(),
                        entry: Entry::Greedy,
                        reader,
                    });
                }
            }
            continue;
        }
        // the unfaulted delivery first (fault-free configuration)
        deliver_all::<S>(ctx, &mut fr, base.clone(), "none", true);
        // complete single-fault neighbourhood, delivered as it is produced
        // (messages above 1500 octets: truncation points and records are
        // sub-sampled inside the enumerator)
        enumerate_single_faults(&base, &lay, &mut |k, o| {
            deliver_all::<S>(ctx, &mut fr, o, k, false);
        });
        // pairs and longer fault sequences drawn by the PRNG
        let pairs = tier.pick(40, 200);
        for _ in 0..pairs {
            let mut b = base.clone();
            let nf = fr.urange(2, 3);
            let mut last = None;
            for _ in 0..nf {
                if let Some(k) = random_fault(&mut fr, &mut b) {
                    last = Some(k);
                }
            }
            if let Some(_k) = last {
                deliver_all::<S>(ctx, &mut fr, b, "pair", false);
            }
        }
        // raw garbage
        for _ in 0..4 {
            let n = fr.urange(0, 80);
            let g = fr.bytes(n);
            deliver_all::<S>(ctx, &mut fr, g, "garbage", false);
        }
        for _ in 0..8 {
            let g = fragment(&mut fr);
            deliver_all::<S>(ctx, &mut fr, g, "fragment", false);
        }
    }
}

const STUBS: [&str; 3] = [
    "network: seeded channel applying the fault plan to octet strings",
    "sender: reference encoder of the model (canonical and foreign/non-canonical)",
    "endpoints: thin drivers; rl2tp has no tunnel state machine to run",
];
const NA: &str = "crash/restart, disk, partition, clock-skew and timer faults: rl2tp has no durable state, storage, membership or clock to apply them to";

pub struct C01;

impl Scenario for C01 {
    type Case = Case;
    const ID: &'static str = "C01";
    const LEVEL: &'static str = "fault_enumeration";
    fn runs(tier: Tier) -> u64 {
        tier.pick(3_200, 120_000)
    }
    fn profiles() -> &'static [Profile] {
        &[Profile::Dev, Profile::Release]
    }
    fn run(rng: &mut Rng, ctx: &mut Ctx) {
        run_common::<C01>(rng, ctx)
    }
    fn execute(case: &Case, obs: &mut Obs) -> Result<(), Failure> {
        exec_c01(case, obs)
    }
    fn shrink(case: &Case) -> Vec<Case> {
        shrink_case(case)
    }
    fn meta() -> Meta {
        Meta {
            rule: "each run: 1-3 valid base messages (control over the run's AVP-kind swarm, data over all L/S/O/P layouts, foreign non-canonical encodings, grammar fragments) from the reference sender; per base message the complete single-fault neighbourhood (EOF at every octet, every bit of the message header and of every AVP header, message Length / AVP length / offset size at guard-1, guard, guard+1, true+-1, max; vendor/attribute/H-bit tampering) plus PRNG fault pairs, garbage and fragments; every delivered octet string goes to try_read_validate under all 8 option sets, try_read and AVP::try_read_greedy through the crate's SliceReader and through a monitored reader with a step clock, in a dev-profile and a release-profile worker process. distinct_nontrivial = distinct (delivered octets, fault kind) pairs; an evaluation = one decode call.",
            assumptions: vec![
                "unwinding panics are caught in-process; non-unwinding panics, overflow aborts and signals are caught as worker-process deaths (SIGABRT/SIGSEGV/SIGBUS/SIGILL handlers)",
                "termination is judged by a step clock: more than 64 + 8*len reader calls on len octets means the greedy loop stopped consuming; a parent wall-clock watchdog backs it up",
                "sampled, not exhaustive: a clean batch is evidence, not proof",
            ],
            real: vec![
                "Message::try_read",
                "Message::try_read_validate",
                "AVP::try_read_greedy",
                "all 39 per-type decoders",
                "SliceReader",
            ],
            stub: STUBS.to_vec(),
            faults_not_applicable: NA,
        }
    }
}

pub struct C02;

impl Scenario for C02 {
    type Case = Case;
    const ID: &'static str = "C02";
    const LEVEL: &'static str = "exploration";
    fn runs(tier: Tier) -> u64 {
        tier.pick(3_200, 120_000)
    }
    fn profiles() -> &'static [Profile] {
        &[Profile::Dev, Profile::Release]
    }
    fn run(rng: &mut Rng, ctx: &mut Ctx) {
        run_common::<C02>(rng, ctx)
    }
    fn execute(case: &Case, obs: &mut Obs) -> Result<(), Failure> {
        exec_c02(case, obs)
    }
    fn shrink(case: &Case) -> Vec<Case> {
        shrink_case(case)
    }
    /// Thorough tier: a seeded sample of faulted inputs (the shortest member
    /// of each distinct decode path seen by the monitored reader) replayed
    /// through the crate's SliceReader under Miri.
    fn extra(tier: Tier, seed: u64, obs: &mut Obs) -> Vec<(serde_json::Value, Failure)> {
        if tier != Tier::Thorough {
            return Vec::new();
        }
        let mut by_path: std::collections::BTreeMap<u64, (Vec<u8>, Entry)> = std::collections::BTreeMap::new();
        let mut scratch = Obs::default();
        for run in 0..6u64 {
            let mut rng = Rng::new(crate::rng::run_seed(seed, "C02-miri-sample", run));
            let bases = base_messages(&mut rng, Tier::Quick, &mut scratch);
            for base in bases {
                if base.len() > 400 {
                    continue;
                }
                let lay = layout_of(&base);
                let mut singles: Vec<(&'static str, Vec<u8>)> = vec![("none", base.clone())];
                enumerate_single_faults(&base, &lay, &mut |k, o| singles.push((k, o)));
                for (_k, o) in singles {
                    for entry in [Entry::Validate(0), Entry::Validate(7), Entry::Greedy] {
                        let bytes = if entry == Entry::Greedy && o.len() >= 12 && o[0] & 1 != 0 {
                            o[12..].to_vec()
                        } else {
                            o.clone()
                        };
                        if let Ok((_, _, mon)) = run_entry(&bytes, &entry, &ReaderCfg::Slice, false) {
                            let e = by_path.entry(mon.path).or_insert_with(|| (bytes.clone(), entry.clone()));
                            if bytes.len() < e.0.len() {
                                *e = (bytes, entry.clone());
                            }
                        }
                    }
                }
            }
        }
        let mut lines = Vec::new();
        for (_p, (b, e)) in by_path.into_iter().take(300) {
            lines.push(match e {
                Entry::Greedy => format!("G {}", to_hex(&b)),
                Entry::Validate(i) => format!("M {} {}", i, to_hex(&b)),
                Entry::TryRead => format!("M 2 {}", to_hex(&b)),
                Entry::Reveal { .. } => continue,
            });
        }
        match crate::props::c19_side::run_miri_sample("C02", &lines) {
            Ok(n) => {
                obs.add("miri-sample-inputs-replayed", n);
                obs.evaluations += n;
                Vec::new()
            }
            Err((true, d)) => vec![(
                serde_json::Value::Null,
                Failure::new("C02", "miri-memory-monitor", "miri-sample", d),
            )],
            Err((false, why)) => {
                obs.count("note:miri-unavailable");
                println!("NOTE C02: Miri sample skipped ({why})");
                Vec::new()
            }
        }
    }
    fn meta() -> Meta {
        Meta {
            rule: "same workload and fault enumeration as C01; each delivered octet string is decoded through harness implementations of the public Reader trait (contiguous borrowed T=&[u8]; owning T=Vec<u8>; scatter/gather segments with PRNG chunk boundaries) that check the precondition of every call (fixed-width read needs N octets, skip/subreader need n<=remaining; sub-readers are confined to their own octets) and through the crate's SliceReader; results and final len() must be identical on all of them. The dev-profile worker additionally runs with std's unsafe-precondition checks (abort on a false get_unchecked/unwrap_unchecked precondition). distinct_nontrivial = distinct (delivered octets, fault kind) pairs.",
            assumptions: vec![
                "reader implementations behind the seam are conforming (no spurious None, no short read): the properties say nothing about non-conforming readers",
                "AVP::reveal builds its own SliceReader and cannot be given a monitored reader: each run also reveals 24 hidden values whose decrypted length is solved to a boundary value, and a refusal (panic) inside one of the SliceReader methods, or a dev-profile abort, counts as an out-of-range request",
            ],
            real: vec![
                "Message::try_read_validate",
                "AVP::try_read_greedy",
                "all per-type decoders",
                "SliceReader (baseline)",
            ],
            stub: vec![
                "Reader back-ends SimSlice / SimSeg (harness implementations of rl2tp::Reader)",
                STUBS[0],
                STUBS[1],
            ],
            faults_not_applicable: NA,
        }
    }
}
