//! C19: the codec is pure — silent on fd 1/2, stateless across call
//! histories, thread-independent. Parts 1 (silence) and 2 (histories) run
//! here in the isolated workers; parts 3 (shuttle schedules) and 4 (Miri
//! preemption) are driven from `extra()` through the two side crates.

use crate::conv::*;
use crate::core::*;
use crate::engine;
use crate::faults::*;
use crate::gen::*;
use crate::model::*;
use crate::records::*;
use crate::rng::{fnv1a, Rng};
use rl2tp::avp::types::{Hidden, RandomVector};
use rl2tp::avp::AVP;
use rl2tp::common::{Reader, SliceReader, VecWriter};
use rl2tp::Message;
use serde::{Deserialize, Serialize};
use serde_json::{json, Value};

#[derive(Clone, Debug, PartialEq, Eq, Serialize, Deserialize)]
pub enum Call {
    /// `try_read_validate` (opts 0..8) or `try_read` (None)
    Decode {
        #[serde(with = "hexser")]
        bytes: Vec<u8>,
        opts: Option<u8>,
    },
    Greedy {
        #[serde(with = "hexser")]
        bytes: Vec<u8>,
    },
    EncodeMsg(SpecMessage),
    EncodeAvp(SpecAvp),
    GetLength(SpecAvp),
    Hide {
        avp: SpecAvp,
        #[serde(with = "hexser")]
        secret: Vec<u8>,
        rv: [u8; 4],
        #[serde(with = "hexser")]
        lp: Vec<u8>,
    },
    Reveal {
        attr: u16,
        #[serde(with = "hexser")]
        value: Vec<u8>,
        #[serde(with = "hexser")]
        secret: Vec<u8>,
        rv: [u8; 4],
    },
    Display { variant: u8, payload: u16 },
    /// a decode through a reader that declines `bytes()` requests across the
    /// given offsets (read faults: not a conforming reader, so nothing is
    /// said about WHAT it returns — only that it is the same every time)
    DecodeDeclining {
        #[serde(with = "hexser")]
        bytes: Vec<u8>,
        opts: Option<u8>,
        cuts: Vec<usize>,
    },
}

impl Call {
    pub fn name(&self) -> &'static str {
        match self {
            Call::Decode { opts: Some(_), .. } => "try_read_validate",
            Call::Decode { opts: None, .. } => "try_read",
            Call::Greedy { .. } => "try_read_greedy",
            Call::EncodeMsg(_) => "Message::write",
            Call::EncodeAvp(_) => "AVP::write",
            Call::GetLength(_) => "AVP::get_length",
            Call::Hide { .. } => "AVP::hide",
            Call::Reveal { .. } => "AVP::reveal",
            Call::Display { .. } => "DecodeError::to_string",
            Call::DecodeDeclining { .. } => "try_read_validate (reader declines some requests)",
        }
    }
}

/// Perform one public codec call; the result in a canonical rendering that
/// must be a function of the call alone.
pub fn perform(c: &Call) -> String {
    perform_with(c, None)
}

/// The byte-string argument a call receives from its caller (input octets
/// for the decoders, the shared secret for hide/reveal).
pub fn caller_buffer(c: &Call) -> Option<&Vec<u8>> {
    match c {
        Call::Decode { bytes, .. } | Call::Greedy { bytes } => Some(bytes),
        Call::Hide { secret, .. } | Call::Reveal { secret, .. } => Some(secret),
        _ => None,
    }
}

/// As `perform`, but the caller-owned byte string is taken from `buf` (same
/// contents, different storage) when given.
pub fn perform_with(c: &Call, buf: Option<&[u8]>) -> String {
    if let Call::DecodeDeclining { bytes, opts, cuts } = c {
        return match crate::deliver::decode_msg(bytes, opts.map(Opts::from_index), &crate::seams::ReaderCfg::Refusing(cuts.clone()), false) {
            Ok(o) => format!("{} rem {}", crate::deliver::result_text(&o.result), o.remaining),
            Err(c) => format!("PANIC@{}", panic_site(&c)),
        };
    }
    let r = guard(|| match c {
        Call::DecodeDeclining { .. } => unreachable!(),
        Call::Decode { bytes, opts } => {
            let bytes: &[u8] = buf.unwrap_or(&bytes[..]);
            let mut r = SliceReader::from(bytes);
            render_decode(&mut r, *opts)
        }
        Call::Greedy { bytes } => {
            let bytes: &[u8] = buf.unwrap_or(&bytes[..]);
            let mut r = SliceReader::from(bytes);
            render_greedy(&mut r)
        }
        Call::EncodeMsg(m) => match to_crate_msg(m, &cal_bits) {
            Some(cm) => {
                let mut w = VecWriter::new();
                cm.write(&mut w);
                to_hex(&w.data)
            }
            None => "unrepresentable".into(),
        },
        Call::EncodeAvp(a) => match to_crate_avp(a, &cal_bits) {
            Some(ca) => {
                let mut w = VecWriter::new();
                ca.write(&mut w);
                to_hex(&w.data)
            }
            None => "unrepresentable".into(),
        },
        Call::GetLength(a) => match to_crate_avp(a, &cal_bits) {
            Some(ca) => ca.get_length().to_string(),
            None => "unrepresentable".into(),
        },
        Call::Hide { avp, secret, rv, lp } => match to_crate_avp(avp, &cal_bits) {
            Some(ca) => {
                let secret: &[u8] = buf.unwrap_or(&secret[..]);
                let h = ca.hide(secret, &RandomVector::from(*rv), lp, &[0xA5; 16]);
                serde_json::to_string(&from_crate_avp(&h)).unwrap()
            }
            None => "unrepresentable".into(),
        },
        Call::Reveal {
            attr,
            value,
            secret,
            rv,
        } => {
            let h = AVP::Hidden(Hidden {
                attribute_type: *attr,
                value: value.clone(),
            });
            let secret: &[u8] = buf.unwrap_or(&secret[..]);
            match h.reveal(secret, &RandomVector::from(*rv)) {
                Ok(a) => format!("Ok({})", serde_json::to_string(&from_crate_avp(&a)).unwrap()),
                Err(e) => format!("Err({:?})", err_kind(&e)),
            }
        }
        Call::Display { variant, payload } => {
            let v = all_error_variants(*payload);
            v[*variant as usize % v.len()].to_string()
        }
    });
    match r {
        Ok(s) => s,
        // a panic is C01/C07/C13's business; for purity it only has to be
        // the same outcome every time (site without line/column numbers)
        Err(c) => format!("PANIC@{}", panic_site(&c)),
    }
}

fn render_decode<'a, R: Reader<&'a [u8]>>(r: &mut R, opts: Option<u8>) -> String {
    let res = match opts {
        Some(o) => Message::<&[u8]>::try_read_validate(r, crate_opts(Opts::from_index(o))),
        None => Message::<&[u8]>::try_read(r),
    };
    let rem = r.len();
    match res {
        Ok(m) => format!("Ok({}) rem={rem}", serde_json::to_string(&from_crate_msg(&m)).unwrap()),
        Err(e) => format!("Err({:?}) rem={rem}", e.iter().map(err_kind).collect::<Vec<_>>()),
    }
}

fn render_greedy<'a, R: Reader<&'a [u8]>>(r: &mut R) -> String {
    let v = AVP::try_read_greedy::<&[u8]>(r);
    format!(
        "{:?} rem={}",
        v.iter()
            .map(|x| match x {
                Ok(a) => serde_json::to_string(&from_crate_avp(a)).unwrap(),
                Err(e) => format!("{:?}", err_kind(e)),
            })
            .collect::<Vec<_>>(),
        r.len()
    )
}

/// A reader / writer pair that calls `hook` on every trait method: under a
/// controlled scheduler the hook is a scheduling point, which puts thread
/// switches *inside* a codec call (the seams are where a real caller's
/// reader or writer may block or yield).
pub struct HookReader<'a, 'h> {
    data: &'a [u8],
    hook: &'h dyn Fn(),
}

impl<'a, 'h> Reader<&'a [u8]> for HookReader<'a, 'h> {
    fn is_empty(&self) -> bool {
        (self.hook)();
        self.data.is_empty()
    }
    fn len(&self) -> usize {
        (self.hook)();
        self.data.len()
    }
    fn subreader(&mut self, length: usize) -> Self {
        (self.hook)();
        let (h, t) = self.data.split_at(length);
        self.data = t;
        HookReader { data: h, hook: self.hook }
    }
    fn bytes(&mut self, length: usize) -> Option<&'a [u8]> {
        (self.hook)();
        if length > self.data.len() {
            return None;
        }
        let (h, t) = self.data.split_at(length);
        self.data = t;
        Some(h)
    }
    unsafe fn read_u8_unchecked(&mut self) -> u8 {
        (self.hook)();
        let v = self.data[0];
        self.data = &self.data[1..];
        v
    }
    unsafe fn read_u16_be_unchecked(&mut self) -> u16 {
        (self.hook)();
        let v = u16::from_be_bytes([self.data[0], self.data[1]]);
        self.data = &self.data[2..];
        v
    }
    unsafe fn read_u32_be_unchecked(&mut self) -> u32 {
        (self.hook)();
        let v = u32::from_be_bytes([self.data[0], self.data[1], self.data[2], self.data[3]]);
        self.data = &self.data[4..];
        v
    }
    unsafe fn read_u64_be_unchecked(&mut self) -> u64 {
        (self.hook)();
        let mut a = [0u8; 8];
        a.copy_from_slice(&self.data[..8]);
        self.data = &self.data[8..];
        u64::from_be_bytes(a)
    }
    fn skip_bytes(&mut self, length: usize) {
        (self.hook)();
        self.data = &self.data[length..];
    }
}

pub struct HookWriter<'h> {
    pub data: Vec<u8>,
    hook: &'h dyn Fn(),
}

impl<'h> rl2tp::common::Writer for HookWriter<'h> {
    fn is_empty(&self) -> bool {
        self.data.is_empty()
    }
    fn len(&self) -> usize {
        (self.hook)();
        self.data.len()
    }
    fn write_bytes(&mut self, bytes: &[u8]) {
        (self.hook)();
        self.data.extend_from_slice(bytes);
    }
    fn write_bytes_at(&mut self, bytes: &[u8], offset: usize) {
        (self.hook)();
        self.data[offset..offset + bytes.len()].copy_from_slice(bytes);
    }
    fn write_u8(&mut self, value: u8) {
        (self.hook)();
        self.data.push(value);
    }
    fn write_u16_be(&mut self, value: u16) {
        (self.hook)();
        self.data.extend_from_slice(&value.to_be_bytes());
    }
    fn write_u32_be(&mut self, value: u32) {
        (self.hook)();
        self.data.extend_from_slice(&value.to_be_bytes());
    }
    fn write_u64_be(&mut self, value: u64) {
        (self.hook)();
        self.data.extend_from_slice(&value.to_be_bytes());
    }
}

/// As `perform`, with the decoders reading through a `HookReader` and the
/// encoders writing through a `HookWriter`; same rendering as `perform`.
pub fn perform_hooked(c: &Call, hook: &dyn Fn()) -> String {
    let r = guard(|| match c {
        Call::Decode { bytes, opts } => {
            let mut r = HookReader { data: &bytes[..], hook };
            Some(render_decode(&mut r, *opts))
        }
        Call::Greedy { bytes } => {
            let mut r = HookReader { data: &bytes[..], hook };
            Some(render_greedy(&mut r))
        }
        Call::EncodeMsg(m) => to_crate_msg(m, &cal_bits).map(|cm| {
            let mut w = HookWriter { data: Vec::new(), hook };
            cm.write(&mut w);
            to_hex(&w.data)
        }),
        Call::EncodeAvp(a) => to_crate_avp(a, &cal_bits).map(|ca| {
            let mut w = HookWriter { data: Vec::new(), hook };
            ca.write(&mut w);
            to_hex(&w.data)
        }),
        _ => None,
    });
    match r {
        Ok(Some(s)) => s,
        Ok(None) => {
            hook();
            perform(c)
        }
        Err(c) => format!("PANIC@{}", panic_site(&c)),
    }
}

/// A mixed list of calls over every public entry point, rejected inputs of
/// many error kinds included.
pub fn gen_calls(rng: &mut Rng, sw: &Swarm, n: usize) -> Vec<Call> {
    let mut out = Vec::with_capacity(n);
    for _ in 0..n {
        let c = match rng.below(14) {
            0..=3 => {
                // control traffic, valid or faulted
                let lim = *rng.pick(&[64usize, 200, 600]);
                let m = gen_control(rng, sw, lim);
                let mut b = spec_encode(&m);
                if rng.bool() {
                    let _ = random_fault(rng, &mut b);
                }
                Call::Decode {
                    bytes: b,
                    opts: if rng.chance(1, 5) { None } else { Some(rng.below(8) as u8) },
                }
            }
            4 => {
                let m = gen_data(rng, sw);
                let mut b = spec_encode(&m);
                if rng.chance(1, 3) {
                    let _ = random_fault(rng, &mut b);
                }
                Call::Decode {
                    bytes: b,
                    opts: Some(rng.below(8) as u8),
                }
            }
            5 => {
                // control message with bad records: every error kind
                let mut recs: Vec<Vec<u8>> = vec![msgtype_record(rng)];
                for _ in 0..rng.urange(1, 4) {
                    let kind = *rng.pick(&[
                        Badness::Vendor,
                        Badness::UnknownAttr,
                        Badness::Short,
                        Badness::BadUtf8,
                        Badness::UnknownMsgType,
                        Badness::BadErrorType,
                        Badness::BadProxyType,
                        Badness::TermLenPast,
                    ]);
                    let r = bad_record(rng, sw, kind);
                    let term = r.terminal;
                    recs.push(r.bytes);
                    if term {
                        break;
                    }
                }
                let refs: Vec<&[u8]> = recs.iter().map(|r| &r[..]).collect();
                Call::Decode {
                    bytes: control_of(rng, &refs),
                    opts: Some(7),
                }
            }
            6 => {
                let mut b = Vec::new();
                for _ in 0..rng.urange(1, 4) {
                    b.extend_from_slice(&good_record(rng, sw, true).bytes);
                }
                if rng.chance(1, 6) {
                    // a long error report: 17-40 undecodable records
                    let mut recs: Vec<Vec<u8>> = vec![msgtype_record(rng)];
                    let mut tiny = sw.clone();
                    tiny.size = SizeRegime::Tiny;
                    for _ in 0..rng.urange(17, 40) {
                        let kind = *rng.pick(&NONTERMINAL);
                        recs.push(bad_record(rng, &tiny, kind).bytes);
                    }
                    let refs: Vec<&[u8]> = recs.iter().map(|r| &r[..]).collect();
                    out.push(Call::Decode {
                        bytes: control_of(rng, &refs),
                        opts: Some(rng.below(8) as u8),
                    });
                }
                Call::Greedy { bytes: b }
            }
            7 => Call::EncodeMsg(if rng.bool() { gen_control(rng, sw, 400) } else { gen_data(rng, sw) }),
            8 => Call::EncodeAvp(gen_avp(rng, sw)),
            9 => Call::GetLength(gen_avp(rng, sw)),
            10 | 11 => {
                let mut sw2 = sw.clone();
                sw2.size = SizeRegime::Typical;
                let attr = *rng.pick(&sw.kinds);
                let avp = gen_avp_of(rng, &sw2, attr);
                let rvb = rng.bytes(4);
                // the empty secret matters: a scratch buffer that is not
                // cleared would show up exactly there
                let sl = *rng.pick(&[0usize, 0, 1, 7, 16, 20]);
                let ll = rng.urange(0, 20);
                Call::Hide {
                    avp,
                    secret: rng.bytes(sl),
                    rv: [rvb[0], rvb[1], rvb[2], rvb[3]],
                    lp: rng.bytes(ll),
                }
            }
            12 => {
                let n = *rng.pick(&[0usize, 16, 32, 48, 17]);
                let sl = rng.urange(0, 12);
                let rvb = rng.bytes(4);
                Call::Reveal {
                    attr: *rng.pick(&ALL_ATTRS),
                    value: rng.bytes(n),
                    secret: rng.bytes(sl),
                    rv: [rvb[0], rvb[1], rvb[2], rvb[3]],
                }
            }
            _ => Call::Display {
                variant: rng.below(26) as u8,
                payload: if rng.bool() { rng.range(0, 41) as u16 } else { rng.u16() },
            },
        };
        out.push(c);
    }
    // read faults: a message with hidden and byte-string AVPs through a
    // reader that declines requests across discontinuities, twice, with
    // other calls in between
    if rng.chance(1, 3) {
        let mut sw2 = sw.clone();
        sw2.size = SizeRegime::Typical;
        let mut avps = vec![SpecAvp { attr: 0, val: Val::Code(1) }];
        for _ in 0..rng.urange(2, 5) {
            let at = *rng.pick(&[7u16, 8, 11, 13, 9]);
            avps.push(if rng.bool() { gen_hidden(rng, &sw2) } else { gen_avp_of(rng, &sw2, at) });
        }
        let m = SpecMessage::Control { length: 0, tunnel_id: rng.u16(), session_id: 0, ns: 0, nr: 0, avps };
        let b = spec_encode(&m);
        if b.len() < 4000 {
            if let crate::seams::ReaderCfg::Refusing(cuts) = crate::deliver::draw_refusing(rng, b.len()) {
                let c = Call::DecodeDeclining { bytes: b, opts: Some(rng.below(8) as u8), cuts };
                let at = rng.usize_below(out.len() + 1);
                out.insert(at, c.clone());
                out.push(c);
            }
        }
    }
    // feedback: a call whose input is what an earlier call worked with
    // inside — the plaintext a reveal recovered, offered as a hidden value
    // under the same type, secret and random vector (twice, with another
    // successful reveal in between), and a hidden value hidden once more
    if rng.chance(1, 3) {
        let mut sw2 = sw.clone();
        sw2.size = SizeRegime::Typical;
        let attr = *rng.pick(&[7u16, 8, 11, 13, 21, 30, 33]);
        let avp = gen_avp_of(rng, &sw2, attr);
        let payload = spec_payload(&avp);
        let sl = rng.urange(1, 24);
        let secret = rng.bytes(sl);
        let rvb = rng.bytes(4);
        let rv = [rvb[0], rvb[1], rvb[2], rvb[3]];
        let ll = rng.urange(0, 40);
        let lp = rng.bytes(ll);
        let conv = if rng.chance(3, 4) { LenConv::Whole } else { LenConv::Value };
        if let Some(value) = spec_hide(attr, &payload, &secret, &rv, &lp, &[0x33; 16], conv) {
            if let Some(plain) = spec_decrypt(attr, &value, &secret, &rv) {
                let other = gen_avp_of(rng, &sw2, 7);
                let v2 = spec_hide(7, &spec_payload(&other), &secret, &rv, &[], &[0x44; 16], conv).unwrap_or_default();
                let r = |v: &Vec<u8>, a: u16| Call::Reveal {
                    attr: a,
                    value: v.clone(),
                    secret: secret.clone(),
                    rv,
                };
                out.push(r(&value, attr));
                out.push(r(&plain, attr));
                out.push(r(&v2, 7));
                out.push(r(&plain, attr));
                out.push(r(&value, attr));
            }
        }
    }
    // a family of hide / reveal calls whose secrets are related to each
    // other (prefix, extension, one bit, same length): what a cache keyed
    // too coarsely would confuse
    if rng.chance(1, 2) {
        let base_len = *rng.pick(&[16usize, 63, 64, 65, 70, 100, 128, 200]);
        let base = rng.bytes(base_len);
        let mut sw2 = sw.clone();
        sw2.size = SizeRegime::Typical;
        let mut secrets: Vec<Vec<u8>> = vec![base.clone()];
        let mut shorter = base.clone();
        shorter.pop();
        secrets.push(shorter);
        let mut longer = base.clone();
        longer.push(rng.u8());
        secrets.push(longer);
        let mut flipped = base.clone();
        let i = rng.usize_below(flipped.len());
        flipped[i] ^= 1 << rng.below(8);
        secrets.push(flipped);
        secrets.push(base.clone());
        rng.shuffle(&mut secrets);
        for s in secrets {
            let attr = *rng.pick(&[7u16, 8, 11, 26, 30]);
            let avp = gen_avp_of(rng, &sw2, attr);
            let rvb = rng.bytes(4);
            let ll = rng.urange(16, 48);
            out.push(Call::Hide {
                avp,
                secret: s,
                rv: [rvb[0], rvb[1], rvb[2], rvb[3]],
                lp: rng.bytes(ll),
            });
        }
    }
    out
}

#[derive(Clone, Debug, Serialize, Deserialize)]
pub enum Case19 {
    /// one call; nothing may reach fd 1 or fd 2
    Silent(Call),
    /// the calls are executed once in order (recording), then again in the
    /// order given by `replay` (indices, repetitions allowed)
    History { calls: Vec<Call>, replay: Vec<usize> },
    /// calls whose caller-owned byte strings have the same length are made
    /// one after the other from ONE buffer that is rewritten in place
    /// between calls; each result must equal the call's result with its own
    /// storage on a fresh thread (a cache keyed by the identity of a buffer
    /// instead of its contents shows up here)
    Reuse { calls: Vec<Call> },
    /// a verdict of one of the side crates (shuttle schedule / Miri seeds)
    Side(crate::props::c19_side::SideCase),
    /// the calls are made from the destructor of a caller's thread-local
    /// while a thread exits; each must return what it returns on an
    /// ordinary thread
    AtThreadExit { calls: Vec<Call>, order: crate::env::Teardown },
}

fn printable(b: &[u8]) -> String {
    let s: String = b
        .iter()
        .take(120)
        .map(|&c| if (0x20..0x7f).contains(&c) { c as char } else { '.' })
        .collect();
    s
}

fn exec_c19(case: &Case19, obs: &mut Obs) -> Result<(), Failure> {
    match case {
        Case19::Side(s) => crate::props::c19_side::exec_side(s),
        Case19::AtThreadExit { calls, order } => {
            obs.count("fault:env-calls-at-thread-exit");
            obs.steps += 3 * calls.len() as u64;
            let recorded: Vec<String> = calls.iter().map(perform).collect();
            let (c1, c2) = (calls.clone(), calls.clone());
            let got = crate::env::at_thread_exit(
                *order,
                move || {
                    for c in &c1 {
                        let _ = perform(c);
                    }
                },
                move || c2.iter().map(perform).collect::<Vec<String>>(),
            );
            let cut = |s: &str| if s.len() > 200 { format!("{}...", &s[..200]) } else { s.to_string() };
            match got {
                None => Ok(()),
                Some(Err(p)) => Err(Failure::new(
                    "C19",
                    "same-result-at-thread-exit",
                    "panic",
                    format!(
                        "calls made from a thread-local destructor at thread exit ({order:?}) panicked: {}",
                        p.downcast_ref::<&str>().map(|s| s.to_string()).or_else(|| p.downcast_ref::<String>().cloned()).unwrap_or_default()
                    ),
                )),
                Some(Ok(v)) => {
                    for (i, (a, b)) in recorded.iter().zip(v.iter()).enumerate() {
                        if a != b {
                            return Err(Failure::new(
                                "C19",
                                "same-result-at-thread-exit",
                                calls[i].name(),
                                format!(
                                    "{} (call #{i}) returns {} on an ordinary thread but {} from a thread-local destructor at thread exit ({order:?})",
                                    calls[i].name(),
                                    cut(a),
                                    cut(b)
                                ),
                            ));
                        }
                    }
                    Ok(())
                }
            }
        }
        Case19::Reuse { calls } => {
            let n = match calls.first().and_then(caller_buffer) {
                Some(b) => b.len(),
                None => return Ok(()),
            };
            let mut shared = vec![0u8; n];
            obs.steps += calls.len() as u64;
            for (i, c) in calls.iter().enumerate() {
                let own = match caller_buffer(c) {
                    Some(b) if b.len() == n => b,
                    _ => continue,
                };
                shared.copy_from_slice(own);
                let got = perform_with(c, Some(&shared));
                let c2 = c.clone();
                let want = std::thread::Builder::new()
                    .stack_size(1 << 20)
                    .spawn(move || perform(&c2))
                    .ok()
                    .and_then(|h| h.join().ok());
                if let Some(want) = want {
                    if got != want {
                        let cut = |s: &str| if s.len() > 200 { format!("{}...", &s[..200]) } else { s.to_string() };
                        return Err(Failure::new(
                            "C19",
                            "same-result-whatever-buffer-holds-the-argument",
                            c.name(),
                            format!(
                                "{} (call #{i}) with its {}-octet argument in a buffer that earlier calls had used for other contents returned {}, but {} with the same contents in fresh storage",
                                c.name(),
                                n,
                                cut(&got),
                                cut(&want)
                            ),
                        ));
                    }
                }
            }
            Ok(())
        }
        Case19::Silent(call) => {
            obs.steps += 1;
            if !engine::capture_active() {
                return Ok(()); // only meaningful inside an isolated worker
            }
            let _ = engine::drain_captured();
            let _ = perform(call);
            let (o, e) = engine::drain_captured();
            if !o.is_empty() || !e.is_empty() {
                let (fd, data) = if !o.is_empty() { (1, &o) } else { (2, &e) };
                return Err(Failure::new(
                    "C19",
                    "silence",
                    &format!("fd{}-{}", fd, call.name()),
                    format!(
                        "{} wrote {} octet(s) to file descriptor {}: {:?}",
                        call.name(),
                        data.len(),
                        fd,
                        printable(data)
                    ),
                ));
            }
            Ok(())
        }
        Case19::History { calls, replay } => {
            let recorded: Vec<String> = calls.iter().map(perform).collect();
            obs.steps += (2 * calls.len() + replay.len()) as u64;
            // the same call twice in one history: the same result twice
            {
                let mut first: std::collections::HashMap<String, usize> = std::collections::HashMap::new();
                for (i, c) in calls.iter().enumerate() {
                    let key = serde_json::to_string(c).unwrap_or_default();
                    if let Some(&j) = first.get(&key) {
                        if recorded[j] != recorded[i] {
                            let cut = |s: &str| if s.len() > 200 { format!("{}...", &s[..200]) } else { s.to_string() };
                            return Err(Failure::new(
                                "C19",
                                "same-result-in-any-history",
                                calls[i].name(),
                                format!(
                                    "{} with identical arguments returned {} as call #{j} and {} as call #{i} of one history",
                                    calls[i].name(),
                                    cut(&recorded[j]),
                                    cut(&recorded[i])
                                ),
                            ));
                        }
                    } else {
                        first.insert(key, i);
                    }
                }
            }
            // each call once more on a thread of its own: a fresh thread has
            // fresh thread-local state, so anything a previous call left
            // behind on this thread shows up as a difference
            for (i, c) in calls.iter().enumerate() {
                let c2 = c.clone();
                let fresh = std::thread::Builder::new()
                    .stack_size(1 << 20)
                    .spawn(move || perform(&c2))
                    .ok()
                    .and_then(|h| h.join().ok());
                if let Some(f) = fresh {
                    if f != recorded[i] {
                        let cut = |s: &str| if s.len() > 200 { format!("{}...", &s[..200]) } else { s.to_string() };
                        return Err(Failure::new(
                            "C19",
                            "same-result-on-a-fresh-thread",
                            calls[i].name(),
                            format!(
                                "{} (call #{i}) returned {} on the thread that had already performed {} other call(s), but {} on a fresh thread",
                                calls[i].name(),
                                cut(&recorded[i]),
                                i,
                                cut(&f)
                            ),
                        ));
                    }
                }
            }
            for (k, &i) in replay.iter().enumerate() {
                if i >= calls.len() {
                    continue;
                }
                let again = perform(&calls[i]);
                if again != recorded[i] {
                    let prev = if k > 0 { replay.get(k - 1).and_then(|&j| calls.get(j)).map(|c| c.name()) } else { None };
                    let cut = |s: &str| if s.len() > 200 { format!("{}...", &s[..200]) } else { s.to_string() };
                    return Err(Failure::new(
                        "C19",
                        "same-result-in-any-history",
                        calls[i].name(),
                        format!(
                            "{} (call #{i}) returned {} the first time and {} when re-executed at history position {k} (previous call: {:?})",
                            calls[i].name(),
                            cut(&recorded[i]),
                            cut(&again),
                            prev
                        ),
                    ));
                }
            }
            Ok(())
        }
    }
}

pub struct C19;

impl Scenario for C19 {
    type Case = Case19;
    const ID: &'static str = "C19";
    const LEVEL: &'static str = "exploration";
    fn runs(tier: Tier) -> u64 {
        tier.pick(20_000, 2_000_000)
    }
    fn profiles() -> &'static [Profile] {
        &[Profile::Release]
    }
    fn run(rng: &mut Rng, ctx: &mut Ctx) {
        let sw = Swarm::draw(rng);
        let mut wl = rng.fork("workload");
        let mut sch = rng.fork("history");
        let calls = gen_calls(&mut wl, &sw, 10);
        for (k, c) in calls.iter().enumerate() {
            ctx.obs.count(&format!("entry:{}", c.name()));
            let case = Case19::Silent(c.clone());
            if ctx.run == 0 && k < 1 {
                let c2 = case.clone();
                ctx.obs.sample(|| json!(c2));
            }
            ctx.check::<C19>(&case);
        }
        // permutation with repetition, unrelated calls interleaved
        let mut hist = calls.clone();
        hist.extend(gen_calls(&mut wl, &sw, 4));
        let mut replay = Vec::new();
        for i in 0..hist.len() {
            for _ in 0..sch.urange(1, 3) {
                replay.push(i);
            }
        }
        sch.shuffle(&mut replay);
        // the reverse of the recording order first: whatever call A leaves
        // behind for a later call B, one of the two passes has B before A
        let mut full: Vec<usize> = (0..hist.len()).rev().collect();
        full.extend(replay);
        let replay = full;
        let case = Case19::History {
            calls: hist,
            replay,
        };
        // buffer reuse: three hides (multi-block, same secret length, different
        // secrets), then their reveals; and decodes of same-length inputs
        {
            let mut sw2 = sw.clone();
            sw2.size = SizeRegime::Typical;
            let sl = *wl.pick(&[1usize, 5, 16, 20, 64]);
            let mut reuse = Vec::new();
            for _ in 0..3 {
                let attr = *wl.pick(&[7u16, 8, 11, 26, 30]);
                let avp = gen_avp_of(&mut wl, &sw2, attr);
                let rvb = wl.bytes(4);
                let ll = wl.urange(8, 40);
                reuse.push(Call::Hide {
                    avp,
                    secret: wl.bytes(sl),
                    rv: [rvb[0], rvb[1], rvb[2], rvb[3]],
                    lp: wl.bytes(ll),
                });
            }
            ctx.check::<C19>(&Case19::Reuse { calls: reuse });
            let base = spec_encode(&gen_control(&mut wl, &sw2, 200));
            let mut reuse = Vec::new();
            for _ in 0..3 {
                let mut b = base.clone();
                for _ in 0..wl.urange(0, 3) {
                    if !b.is_empty() {
                        let i = wl.usize_below(b.len());
                        b[i] ^= 1 << wl.below(8);
                    }
                }
                reuse.push(Call::Decode { bytes: b, opts: Some(wl.below(8) as u8) });
            }
            ctx.check::<C19>(&Case19::Reuse { calls: reuse });
        }
        // the same calls from a thread-local destructor while a thread exits
        if ctx.run % 2 == 0 {
            let order = *sch.pick(&[
                crate::env::Teardown::RegisteredFirst,
                crate::env::Teardown::RegisteredFirst,
                crate::env::Teardown::RegisteredLast,
                crate::env::Teardown::Cold,
            ]);
            let k = sch.urange(2, 6).min(calls.len());
            ctx.check::<C19>(&Case19::AtThreadExit {
                calls: calls[..k].to_vec(),
                order,
            });
        }
        ctx.obs.distinct(fnv1a(&serde_json::to_vec(&case).unwrap()));
        if ctx.run == 0 {
            let c2 = case.clone();
            ctx.obs.sample(|| {
                let s = serde_json::to_string(&c2).unwrap();
                json!(if s.len() > 1500 { format!("{}...", &s[..1500]) } else { s })
            });
        }
        ctx.check::<C19>(&case);
    }
    fn execute(case: &Case19, obs: &mut Obs) -> Result<(), Failure> {
        exec_c19(case, obs)
    }
    fn shrink(case: &Case19) -> Vec<Case19> {
        match case {
            Case19::Side(_) => Vec::new(),
            Case19::AtThreadExit { calls, order } => {
                let mut out = Vec::new();
                for i in 0..calls.len() {
                    let mut c = calls.clone();
                    c.remove(i);
                    if !c.is_empty() {
                        out.push(Case19::AtThreadExit { calls: c, order: *order });
                    }
                }
                out
            }
            Case19::Reuse { calls } => {
                let mut out = Vec::new();
                if calls.len() > 2 {
                    for d in (0..calls.len()).rev() {
                        let mut c = calls.clone();
                        c.remove(d);
                        out.push(Case19::Reuse { calls: c });
                    }
                }
                out
            }
            Case19::Silent(call) => {
                let mut out = Vec::new();
                if let Call::Decode { bytes, opts } = call {
                    for b in super::c05_c10::shrink_records(bytes, 12) {
                        out.push(Case19::Silent(Call::Decode { bytes: b, opts: *opts }));
                    }
                }
                out
            }
            Case19::History { calls, replay } => {
                let mut out = Vec::new();
                // drop one call (and its replays)
                for d in (0..calls.len()).rev() {
                    let mut c = calls.clone();
                    c.remove(d);
                    let r: Vec<usize> = replay
                        .iter()
                        .filter(|&&i| i != d)
                        .map(|&i| if i > d { i - 1 } else { i })
                        .collect();
                    out.push(Case19::History { calls: c, replay: r });
                }
                for d in (0..replay.len()).rev() {
                    let mut r = replay.clone();
                    r.remove(d);
                    out.push(Case19::History {
                        calls: calls.clone(),
                        replay: r,
                    });
                }
                out
            }
        }
    }
    fn extra(tier: Tier, seed: u64, obs: &mut Obs) -> Vec<(Value, Failure)> {
        crate::props::c19_side::run_side_crates(tier, seed, obs)
    }
    /// Short-lived workers: process-global state left behind by one call can
    /// only be noticed by the history check the first time it appears in a
    /// process, so there are many processes.
    fn runs_per_process(_tier: Tier) -> u64 {
        250
    }
    fn meta() -> Meta {
        Meta {
            rule: "(1) silence: every worker process has fds 1 and 2 redirected to private anonymous files and reports over a third descriptor; each run performs 10 calls drawn over every public entry point (try_read_validate under all options incl. rejected inputs of every error kind, try_read, try_read_greedy, Message::write, AVP::write, get_length, hide incl. empty secret, reveal, Display of errors); after each call stdout is flushed and both files are measured: any octet is a violation attributed to that call. (2) histories: the same calls plus 4 unrelated ones are recorded once, then re-executed in a PRNG permutation with each call repeated 1-3 times; every re-execution must return the recorded result (values, octets, error kinds, remaining length). (3) schedules: the call lists are distributed over 2-16 threads under shuttle's seeded random and PCT schedulers (call-granularity interleavings; rl2tp has no synchronisation point inside a call); every result must equal the single-threaded one; failing schedules are persisted and replayable. (4) mid-call preemption: a std-only scenario (4 threads x 6 calls over shared read-only inputs) under Miri with many seeds and a non-zero preemption rate; Miri's data-race detector reports unsynchronised shared state. distinct_nontrivial = distinct histories (part 2).",
            assumptions: vec![
                "shuttle explores interleavings at call granularity only; finer preemption is covered by the small Miri scenario, not by the full workload",
                "a call that panics (other properties' business) only has to panic the same way every time",
            ],
            real: vec!["every public codec entry point", "process file descriptors 1 and 2 (real)", "std::thread under Miri; shuttle::thread under shuttle"],
            stub: vec!["scheduler: shuttle RandomScheduler / PctScheduler; Miri's seeded scheduler with preemption"],
            faults_not_applicable: "message loss, crash, disk and clock faults do not apply; the searched dimensions are call histories and thread schedules",
        }
    }
}
