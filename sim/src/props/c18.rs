//! C18: SliceReader and VecWriter behave as a plain cursor and a plain byte
//! vector. Operation histories against a trivial reference model, checked
//! operation by operation.

use crate::core::*;
use crate::gen::shrink_bytes;
use crate::model::{hexser, to_hex};
use crate::rng::{fnv1a, Rng};
use rl2tp::common::{Reader, SliceReader, VecWriter, Writer};
use serde::{Deserialize, Serialize};
use serde_json::json;

#[derive(Clone, Debug, PartialEq, Eq, Serialize, Deserialize)]
pub enum ROp {
    U8,
    U16,
    U32,
    U64,
    Bytes(usize),
    Skip(usize),
    Sub(usize, Vec<ROp>),
    Len,
    IsEmpty,
    Clone,
}

#[derive(Clone, Debug, PartialEq, Eq, Serialize, Deserialize)]
pub enum WOp {
    U8(u8),
    U16(u16),
    U32(u32),
    U64(u64),
    Bytes(#[serde(with = "hexser")] Vec<u8>),
    At(#[serde(with = "hexser")] Vec<u8>, usize),
}

#[derive(Clone, Debug, Serialize, Deserialize)]
pub enum Case {
    Reader {
        #[serde(with = "hexser")]
        data: Vec<u8>,
        ops: Vec<ROp>,
    },
    Writer {
        ops: Vec<WOp>,
    },
    /// two writers one after the other in the same process: what one writer
    /// went through (how large it grew, that it was patched) must not reach
    /// the next
    #[serde(rename = "Writers")]
    Writers {
        first: Vec<WOp>,
        second: Vec<WOp>,
    },
    /// a SliceReader over a slice of 2^32 + `extra` octets (zero except for
    /// the position-dependent marker octets); requests around the 32-bit mark
    Huge { extra: u32, ops: Vec<HOp> },
}

#[derive(Clone, Debug, PartialEq, Eq, Serialize, Deserialize)]
pub enum HOp {
    Skip(u64),
    Sub(u64),
    Bytes(u64),
    U8,
    U32,
    Len,
}

/// Marker octets of the huge slice: offset -> value.
fn huge_markers(total: usize) -> Vec<(usize, u8)> {
    let two32 = 1usize << 32;
    let mut v = Vec::new();
    for (k, base) in [0usize, 1 << 16, 1 << 31, two32 - 8, two32, two32 + 8, total - 8].into_iter().enumerate() {
        for j in 0..8 {
            if base + j < total {
                v.push((base + j, (0x10 * (k as u8 + 1)) | j as u8));
            }
        }
    }
    v
}

fn run_huge(extra: u32, ops: &[HOp], obs: &mut Obs) -> Result<(), Failure> {
    let total = (1usize << 32) + extra as usize;
    let layout = match std::alloc::Layout::array::<u8>(total) {
        Ok(l) => l,
        Err(_) => return Ok(()),
    };
    // zero pages are mapped lazily: only the few pages touched become resident
    let p = unsafe { std::alloc::alloc_zeroed(layout) };
    if p.is_null() {
        obs.count("skipped:huge-allocation-unavailable");
        return Ok(());
    }
    struct Free(*mut u8, std::alloc::Layout);
    impl Drop for Free {
        fn drop(&mut self) {
            unsafe { std::alloc::dealloc(self.0, self.1) }
        }
    }
    let _free = Free(p, layout);
    let markers = huge_markers(total);
    for &(o, b) in &markers {
        unsafe { *p.add(o) = b };
    }
    let data: &[u8] = unsafe { std::slice::from_raw_parts(p, total) };
    let at = |i: usize| -> u8 { markers.iter().find(|m| m.0 == i).map_or(0, |m| m.1) };
    obs.count("probe:slice-longer-than-2^32");
    let mut r = SliceReader::from(data);
    let mut pos = 0usize;
    for (i, op) in ops.iter().enumerate() {
        obs.steps += 1;
        let rem = total - pos;
        let what = format!("op #{i} {op:?} at position {pos} of {total}");
        match op {
            HOp::Len => {
                let l = guard(|| r.len()).map_err(|c| fail("huge-slice", "len", format!("{what}: {}", c.text())))?;
                if l != rem {
                    return Err(fail("huge-slice", "len", format!("{what}: len() = {l}, {rem} octets remain")));
                }
            }
            HOp::Skip(n) => {
                let n = *n as usize;
                if n > rem {
                    continue;
                }
                guard(|| r.skip_bytes(n)).map_err(|c| fail("huge-slice", "skip", format!("{what}: {}", c.text())))?;
                pos += n;
                let l = r.len();
                if l != total - pos {
                    return Err(fail("huge-slice", "skip", format!("{what}: {} octets remain afterwards, expected {}", l, total - pos)));
                }
            }
            HOp::Sub(n) => {
                let n = *n as usize;
                if n > rem {
                    continue;
                }
                let mut sub = guard(|| r.subreader(n)).map_err(|c| fail("huge-slice", "subreader", format!("{what}: {}", c.text())))?;
                if sub.len() != n || r.len() != rem - n {
                    return Err(fail(
                        "huge-slice",
                        "subreader",
                        format!("{what}: the subreader holds {} octets (expected {n}), the parent {} (expected {})", sub.len(), r.len(), rem - n),
                    ));
                }
                if n > 0 {
                    let b = guard(|| unsafe { sub.read_u8_unchecked() }).map_err(|c| fail("huge-slice", "subreader", format!("{what}: reading the subreader's first octet: {}", c.text())))?;
                    if b != at(pos) {
                        return Err(fail("huge-slice", "subreader", format!("{what}: first octet of the subreader is {b:#04x}, the slice has {:#04x} there", at(pos))));
                    }
                }
                pos += n;
            }
            HOp::Bytes(n) => {
                let n = *n as usize;
                let got = guard(|| r.bytes(n).map(|b| (b.len(), b.first().copied(), b.last().copied())))
                    .map_err(|c| fail("huge-slice", "bytes", format!("{what}: {}", c.text())))?;
                if n > rem {
                    if got.is_some() || r.len() != rem {
                        return Err(fail("huge-slice", "bytes", format!("{what}: more than remains, yet {:?} / {} remain", got, r.len())));
                    }
                    continue;
                }
                let want = (n, if n > 0 { Some(at(pos)) } else { None }, if n > 0 { Some(at(pos + n - 1)) } else { None });
                if got != Some(want) {
                    return Err(fail("huge-slice", "bytes", format!("{what}: got (len, first, last) = {:?}, expected {:?}", got, want)));
                }
                pos += n;
                if r.len() != total - pos {
                    return Err(fail("huge-slice", "bytes", format!("{what}: {} octets remain afterwards, expected {}", r.len(), total - pos)));
                }
            }
            HOp::U8 => {
                if rem < 1 {
                    continue;
                }
                let b = guard(|| unsafe { r.read_u8_unchecked() }).map_err(|c| fail("huge-slice", "fixed-read", format!("{what}: {}", c.text())))?;
                if b != at(pos) {
                    return Err(fail("huge-slice", "fixed-read", format!("{what}: read {b:#04x}, the slice has {:#04x}", at(pos))));
                }
                pos += 1;
            }
            HOp::U32 => {
                if rem < 4 {
                    continue;
                }
                let v = guard(|| unsafe { r.read_u32_be_unchecked() }).map_err(|c| fail("huge-slice", "fixed-read", format!("{what}: {}", c.text())))?;
                let want = u32::from_be_bytes([at(pos), at(pos + 1), at(pos + 2), at(pos + 3)]);
                if v != want {
                    return Err(fail("huge-slice", "fixed-read", format!("{what}: read {v:#010x}, the slice has {want:#010x}")));
                }
                pos += 4;
            }
        }
    }
    Ok(())
}

fn gen_huge(rng: &mut Rng) -> Case {
    let extra = *rng.pick(&[64u32, 4096, 65_600, 1 << 20]);
    let total = (1u64 << 32) + extra as u64;
    let two32 = 1u64 << 32;
    let mut ops = Vec::new();
    let mut pos = 0u64;
    for _ in 0..rng.urange(2, 6) {
        let rem = total - pos;
        let big = |rng: &mut Rng| -> u64 {
            match rng.below(5) {
                0 => two32,
                1 => two32 + rng.range(1, extra as u64),
                2 => two32 - rng.range(1, 16),
                3 => rng.range(0, 16),
                _ => rem.saturating_sub(rng.range(0, 16)),
            }
        };
        let op = match rng.below(7) {
            0 | 1 => HOp::Skip(big(rng).min(rem)),
            2 | 3 => HOp::Sub(big(rng).min(rem)),
            4 => HOp::Bytes(if rng.chance(1, 4) { rem + rng.range(1, 9) } else { big(rng).min(rem) }),
            5 => if rng.bool() { HOp::U8 } else { HOp::U32 },
            _ => HOp::Len,
        };
        match &op {
            HOp::Skip(n) | HOp::Sub(n) => pos += *n,
            HOp::Bytes(n) if *n <= rem => pos += *n,
            HOp::U8 if rem >= 1 => pos += 1,
            HOp::U32 if rem >= 4 => pos += 4,
            _ => {}
        }
        ops.push(op);
    }
    ops.push(HOp::Len);
    Case::Huge { extra, ops }
}

fn fail(oracle: &str, class: &str, detail: String) -> Failure {
    Failure::new("C18", oracle, class, detail)
}

/// Run `ops` on `r`, whose content must be `model`. Returns Err on the first
/// disagreement.
fn run_reader_ops(r: &mut SliceReader, model: &[u8], ops: &[ROp], obs: &mut Obs, depth: usize) -> Result<(), Failure> {
    let mut pos = 0usize;
    for (i, op) in ops.iter().enumerate() {
        let rem = model.len() - pos;
        obs.steps += 1;
        let where_ = || format!("op #{i} {op:?} at position {pos} of {} (depth {depth})", model.len());
        match op {
            ROp::U8 | ROp::U16 | ROp::U32 | ROp::U64 => {
                let n = match op {
                    ROp::U8 => 1,
                    ROp::U16 => 2,
                    ROp::U32 => 4,
                    _ => 8,
                };
                if rem < n {
                    continue; // precondition does not hold: not a test
                }
                let mut want = 0u64;
                for b in &model[pos..pos + n] {
                    want = (want << 8) | *b as u64;
                }
                let got = guard(|| unsafe {
                    match n {
                        1 => r.read_u8_unchecked() as u64,
                        2 => r.read_u16_be_unchecked() as u64,
                        4 => r.read_u32_be_unchecked() as u64,
                        _ => r.read_u64_be_unchecked(),
                    }
                })
                .map_err(|c| fail("no-panic", "fixed-read", format!("{}: {}", where_(), c.text())))?;
                if got != want {
                    return Err(fail(
                        "read-value",
                        "fixed-read",
                        format!("{}: got {got:#x}, model {want:#x}", where_()),
                    ));
                }
                pos += n;
            }
            ROp::Bytes(n) => {
                let n = *n;
                let got = guard(|| r.bytes(n).map(|s| s.to_vec()));
                if n <= rem {
                    if n == rem {
                        obs.count("probe:bytes-exactly-remaining");
                    }
                    if n == 0 {
                        obs.count("probe:bytes-zero");
                    }
                    match got {
                        Ok(Some(s)) if s == model[pos..pos + n] => pos += n,
                        Ok(other) => {
                            return Err(fail(
                                "bytes-value",
                                "bytes-in-range",
                                format!(
                                    "{}: got {:?}, model Some({})",
                                    where_(),
                                    other.map(|s| to_hex(&s)),
                                    to_hex(&model[pos..pos + n])
                                ),
                            ))
                        }
                        Err(c) => {
                            return Err(fail(
                                "no-panic",
                                "bytes-in-range",
                                format!("{}: {}", where_(), c.text()),
                            ))
                        }
                    }
                } else {
                    obs.count("probe:bytes-longer-than-remaining");
                    match got {
                        Ok(None) => {
                            // "returns nothing": like the reference cursor,
                            // a refused request leaves the position alone
                            // (checked by the len()/is_empty() comparison
                            // after every operation, and by the reads that
                            // follow)
                        }
                        Ok(Some(s)) => {
                            return Err(fail(
                                "bytes-none-when-too-long",
                                "bytes-too-long",
                                format!("{}: {} octets remain but Some({} octets) was returned", where_(), rem, s.len()),
                            ))
                        }
                        Err(c) => {
                            return Err(fail(
                                "bytes-none-when-too-long",
                                "bytes-too-long",
                                format!("{}: {} octets remain; expected None, got {}", where_(), rem, c.text()),
                            ))
                        }
                    }
                }
            }
            ROp::Skip(n) => {
                if *n > rem {
                    continue;
                }
                guard(|| r.skip_bytes(*n))
                    .map_err(|c| fail("no-panic", "skip", format!("{}: {}", where_(), c.text())))?;
                pos += n;
            }
            ROp::Sub(n, sub_ops) => {
                if *n > rem {
                    continue;
                }
                if *n == 0 {
                    obs.count("probe:subreader-zero");
                }
                if *n == rem {
                    obs.count("probe:subreader-all");
                }
                let mut sub = guard(|| r.subreader(*n))
                    .map_err(|c| fail("no-panic", "subreader", format!("{}: {}", where_(), c.text())))?;
                if sub.len() != *n {
                    return Err(fail(
                        "subreader-extent",
                        "subreader",
                        format!("{}: sub-reader has len {} instead of {}", where_(), sub.len(), n),
                    ));
                }
                run_reader_ops(&mut sub, &model[pos..pos + n], sub_ops, obs, depth + 1)?;
                pos += n;
            }
            ROp::Len | ROp::IsEmpty => {}
            ROp::Clone => {
                let mut c = *r;
                if c.len() != rem {
                    return Err(fail("clone", "clone", format!("{}: clone has len {}", where_(), c.len())));
                }
                if rem > 0 {
                    let _ = unsafe { c.read_u8_unchecked() };
                }
            }
        }
        let rem = model.len() - pos;
        let l = r.len();
        let e = r.is_empty();
        if l != rem || e != (rem == 0) {
            return Err(fail(
                "position",
                match op {
                    ROp::Bytes(n) if *n > rem => "bytes-too-long",
                    ROp::Bytes(_) => "bytes-in-range",
                    ROp::Sub(..) => "subreader",
                    ROp::Skip(_) => "skip",
                    _ => "fixed-read",
                },
                format!(
                    "after op #{i} {op:?}: len() = {l}, is_empty() = {e}; model has {rem} octets left"
                ),
            ));
        }
    }
    Ok(())
}

/// How this build of VecWriter refuses an overwrite beyond the written data
/// (true: it unwinds), observed once per thread on `[1, 2]` at offset 1000 of
/// a 4-octet buffer.
fn refusal_unwinds() -> bool {
    thread_local! {
        static MODE: std::cell::Cell<Option<bool>> = const { std::cell::Cell::new(None) };
    }
    if let Some(m) = MODE.with(|m| m.get()) {
        return m;
    }
    let mut w = VecWriter::new();
    w.write_u32_be(0);
    let m = guard(|| w.write_bytes_at(&[1, 2], 1000)).is_err();
    MODE.with(|x| x.set(Some(m)));
    m
}

fn run_writer_ops(ops: &[WOp], obs: &mut Obs) -> Result<(), Failure> {
    let mut w = VecWriter::new();
    let mut model: Vec<u8> = Vec::new();
    for (i, op) in ops.iter().enumerate() {
        obs.steps += 1;
        obs.writer_calls += 1;
        let mlen = model.len();
        let where_ = || format!("op #{i} {op:?} with {mlen} octets written");
        match op {
            WOp::U8(v) => {
                w.write_u8(*v);
                model.push(*v);
            }
            WOp::U16(v) => {
                w.write_u16_be(*v);
                model.extend_from_slice(&v.to_be_bytes());
            }
            WOp::U32(v) => {
                w.write_u32_be(*v);
                model.extend_from_slice(&v.to_be_bytes());
            }
            WOp::U64(v) => {
                w.write_u64_be(*v);
                model.extend_from_slice(&v.to_be_bytes());
            }
            WOp::Bytes(b) => {
                w.write_bytes(b);
                model.extend_from_slice(b);
            }
            WOp::At(b, off) => {
                let in_range = off.checked_add(b.len()).map_or(false, |e| e <= model.len());
                let r = guard(|| w.write_bytes_at(b, *off));
                if in_range {
                    if off + b.len() == model.len() && !b.is_empty() {
                        obs.count("probe:overwrite-touches-last-octet");
                    }
                    if r.is_err() {
                        return Err(fail(
                            "overwrite-in-range-accepted",
                            "overwrite-in-range",
                            format!("{}: in-range overwrite refused: {}", where_(), r.err().unwrap().text()),
                        ));
                    }
                    model[*off..*off + b.len()].copy_from_slice(b);
                } else {
                    obs.count("probe:overwrite-out-of-range");
                    if b.is_empty() {
                        obs.count("probe:empty-overwrite-out-of-range");
                    }
                    // refused the way this build refuses: an out-of-range
                    // overwrite of nothing is as much out of range as one of
                    // two octets (what "refuse" looks like is calibrated on
                    // a two-octet patch far beyond the end)
                    let mode = refusal_unwinds();
                    if r.is_err() != mode {
                        return Err(fail(
                            "overwrite-out-of-range-refused",
                            if b.is_empty() { "empty-overwrite-out-of-range" } else { "overwrite-out-of-range" },
                            format!(
                                "{}: this build refuses an out-of-range overwrite by {}, this one {}",
                                where_(),
                                if mode { "unwinding" } else { "ignoring it" },
                                if r.is_err() { "unwound" } else { "returned normally" }
                            ),
                        ));
                    }
                    // refused: either unwinds or leaves the buffer alone
                    if w.data != model {
                        return Err(fail(
                            "overwrite-out-of-range-refused",
                            "overwrite-out-of-range",
                            format!(
                                "{}: out-of-range overwrite changed the buffer (panicked: {})",
                                where_(),
                                r.is_err()
                            ),
                        ));
                    }
                }
            }
        }
        if w.data != model || w.len() != model.len() || w.is_empty() != model.is_empty() {
            return Err(fail(
                "buffer-equals-model",
                match op {
                    WOp::At(..) => "overwrite-in-range",
                    _ => "append",
                },
                format!(
                    "after {}: buffer {} (len() {}), model {}",
                    where_(),
                    to_hex(&w.data[..w.data.len().min(48)]),
                    w.len(),
                    to_hex(&model[..model.len().min(48)])
                ),
            ));
        }
    }
    Ok(())
}

fn gen_len(rng: &mut Rng, rem: usize) -> usize {
    match rng.below(10) {
        0 => 0,
        1 => 1,
        2 => rem.saturating_sub(1),
        3 | 4 => rem,
        5 => rem + 1,
        6 => rem + 8,
        7 => usize::MAX,
        _ => rng.urange(0, rem + 2),
    }
}

fn gen_reader_ops(rng: &mut Rng, mut rem: usize, max_ops: usize, depth: usize) -> Vec<ROp> {
    let mut ops = Vec::new();
    let n = rng.urange(1, max_ops);
    for _ in 0..n {
        let op = match rng.below(12) {
            0 => ROp::U8,
            1 => ROp::U16,
            2 => ROp::U32,
            3 => ROp::U64,
            4 | 5 => ROp::Bytes(gen_len(rng, rem)),
            6 => ROp::Skip(gen_len(rng, rem).min(rem)),
            7 | 8 if depth < 3 => {
                let k = gen_len(rng, rem).min(rem);
                ROp::Sub(k, gen_reader_ops(rng, k, 6, depth + 1))
            }
            9 => ROp::Len,
            10 => ROp::IsEmpty,
            _ => ROp::Clone,
        };
        // track the precondition-respecting remaining length
        match &op {
            ROp::U8 if rem >= 1 => rem -= 1,
            ROp::U16 if rem >= 2 => rem -= 2,
            ROp::U32 if rem >= 4 => rem -= 4,
            ROp::U64 if rem >= 8 => rem -= 8,
            ROp::Bytes(k) if *k <= rem => rem -= k,
            ROp::Bytes(_) => {} // refused: position unchanged
            ROp::Skip(k) | ROp::Sub(k, _) => rem -= k,
            _ => {}
        }
        ops.push(op);
    }
    ops
}

fn gen_writer_ops(rng: &mut Rng) -> Vec<WOp> {
    let mut ops = Vec::new();
    let mut len = 0usize;
    let n = rng.urange(1, 24);
    for _ in 0..n {
        let op = match rng.below(10) {
            0 => WOp::U8(rng.u8()),
            1 => WOp::U16(rng.u16()),
            2 => WOp::U32(rng.u32()),
            3 => WOp::U64(rng.next_u64()),
            4 | 5 => {
                let k = rng.urange(0, 40);
                WOp::Bytes(rng.bytes(k))
            }
            _ => {
                let k = *rng.pick(&[0usize, 1, 2, 2, 2, 4, 7]);
                let b = rng.bytes(k);
                let base = len as i128 - k as i128;
                let off: i128 = match rng.below(10) {
                    0 => 0,
                    1 => base - 1,
                    2 | 3 => base,
                    4 => base + 1,
                    5 => len as i128,
                    6 => len as i128 + 1,
                    7 => usize::MAX as i128 - 1,
                    8 => usize::MAX as i128,
                    _ => rng.range(0, len as u64 + 2) as i128,
                };
                WOp::At(b, off.clamp(0, usize::MAX as i128) as usize)
            }
        };
        match &op {
            WOp::U8(_) => len += 1,
            WOp::U16(_) => len += 2,
            WOp::U32(_) => len += 4,
            WOp::U64(_) => len += 8,
            WOp::Bytes(b) => len += b.len(),
            WOp::At(..) => {}
        }
        ops.push(op);
    }
    ops
}

pub struct C18;

impl Scenario for C18 {
    type Case = Case;
    const ID: &'static str = "C18";
    const LEVEL: &'static str = "exploration";
    fn runs(tier: Tier) -> u64 {
        tier.pick(60_000, 2_400_000)
    }
    fn profiles() -> &'static [Profile] {
        &[Profile::Dev, Profile::Release]
    }
    fn run(rng: &mut Rng, ctx: &mut Ctx) {
        // one run = a burst of histories against fresh readers / writers
        for k in 0..64 {
            let case = if rng.bool() {
                let n = if rng.chance(1, 50) {
                    4096
                } else {
                    rng.urange(0, 64)
                };
                let data = rng.bytes(n);
                let ops = gen_reader_ops(rng, n, 24, 0);
                Case::Reader { data, ops }
            } else {
                Case::Writer {
                    ops: gen_writer_ops(rng),
                }
            };
            let txt = serde_json::to_vec(&case).unwrap();
            ctx.obs.distinct(fnv1a(&txt));
            if ctx.run == 0 && k < 3 {
                let c2 = case.clone();
                ctx.obs.sample(|| json!(c2));
            }
            ctx.check::<C18>(&case);
        }
        // a writer that grew large and was patched, then a new writer whose
        // first append is larger still (sizes rise with the run index, so
        // that within one worker process each is the largest so far)
        if ctx.run % 4 == 1 {
            let n = 600 + (ctx.run % 30_000) as usize * 2 + rng.urange(0, 1);
            let at = rng.urange(0, n - 2);
            let first = vec![WOp::Bytes(vec![0xA5; n]), WOp::At(rng.bytes(2), at)];
            let more = rng.urange(1, 300);
            let mut second = vec![WOp::Bytes(rng.bytes(n + more))];
            second.extend(gen_writer_ops(rng).into_iter().take(4));
            ctx.check::<C18>(&Case::Writers { first, second });
        }
        // a slice longer than 2^32 octets (one run in eight)
        if ctx.run % 8 == 0 {
            let case = gen_huge(rng);
            ctx.check::<C18>(&case);
        }
    }
    fn execute(case: &Case, obs: &mut Obs) -> Result<(), Failure> {
        match case {
            Case::Huge { extra, ops } => run_huge(*extra, ops, obs),
            Case::Reader { data, ops } => {
                let mut r = SliceReader::from(&data[..]);
                obs.reader_calls += ops.len() as u64;
                run_reader_ops(&mut r, data, ops, obs, 0)
            }
            Case::Writer { ops } => run_writer_ops(ops, obs),
            Case::Writers { first, second } => {
                obs.count("probe:writer-after-a-large-patched-writer");
                run_writer_ops(first, obs).map_err(|mut f| {
                    f.detail = format!("first of two writers: {}", f.detail);
                    f
                })?;
                run_writer_ops(second, obs).map_err(|mut f| {
                    f.class = format!("second-writer:{}", f.class);
                    f.detail = format!(
                        "second of two writers in one process (the first grew to {} octets and was patched): {}",
                        first.iter().map(|o| if let WOp::Bytes(b) = o { b.len() } else { 0 }).sum::<usize>(),
                        f.detail
                    );
                    f
                })
            }
        }
    }
    fn shrink(case: &Case) -> Vec<Case> {
        let mut out = Vec::new();
        match case {
            Case::Huge { extra, ops } => {
                for i in (0..ops.len()).rev() {
                    let mut o = ops.clone();
                    o.remove(i);
                    out.push(Case::Huge { extra: *extra, ops: o });
                }
            }
            Case::Reader { data, ops } => {
                for i in (0..ops.len()).rev() {
                    let mut o = ops.clone();
                    o.remove(i);
                    out.push(Case::Reader {
                        data: data.clone(),
                        ops: o,
                    });
                }
                for (i, op) in ops.iter().enumerate() {
                    if let ROp::Sub(n, sub) = op {
                        for j in 0..sub.len() {
                            let mut s = sub.clone();
                            s.remove(j);
                            let mut o = ops.clone();
                            o[i] = ROp::Sub(*n, s);
                            out.push(Case::Reader {
                                data: data.clone(),
                                ops: o,
                            });
                        }
                    }
                    if let ROp::Bytes(n) = op {
                        if *n > data.len() + 1 {
                            let mut o = ops.clone();
                            o[i] = ROp::Bytes(data.len() + 1);
                            out.push(Case::Reader {
                                data: data.clone(),
                                ops: o,
                            });
                        }
                    }
                }
                for d in shrink_bytes(data).into_iter().take(20) {
                    out.push(Case::Reader {
                        data: d,
                        ops: ops.clone(),
                    });
                }
            }
            Case::Writers { first, second } => {
                out.push(Case::Writer { ops: second.clone() });
                for i in (0..second.len()).rev() {
                    if second.len() > 1 {
                        let mut o = second.clone();
                        o.remove(i);
                        out.push(Case::Writers { first: first.clone(), second: o });
                    }
                }
                // smaller sizes, same relation
                if let (Some(WOp::Bytes(a)), Some(WOp::Bytes(b))) = (first.first(), second.first()) {
                    for n in [512usize, 600, 1024, a.len() / 2] {
                        if n >= 512 && n < a.len() {
                            let mut f2 = first.clone();
                            f2[0] = WOp::Bytes(vec![0xA5; n]);
                            if let Some(WOp::At(x, _)) = f2.get(1).cloned() {
                                f2[1] = WOp::At(x, 0);
                            }
                            let mut s2 = second.clone();
                            s2[0] = WOp::Bytes(vec![0x5A; n + (b.len() - a.len().min(b.len())).max(1)]);
                            out.push(Case::Writers { first: f2, second: s2 });
                        }
                    }
                }
            }
            Case::Writer { ops } => {
                for i in (0..ops.len()).rev() {
                    let mut o = ops.clone();
                    o.remove(i);
                    out.push(Case::Writer { ops: o });
                }
                for (i, op) in ops.iter().enumerate() {
                    let simpler = match op {
                        WOp::U16(_) | WOp::U32(_) | WOp::U64(_) => Some(WOp::U8(0)),
                        WOp::Bytes(b) if b.len() > 1 => Some(WOp::Bytes(vec![0])),
                        WOp::At(b, off) if b.len() > 1 => Some(WOp::At(vec![0xAA], *off)),
                        _ => None,
                    };
                    if let Some(s) = simpler {
                        let mut o = ops.clone();
                        o[i] = s;
                        out.push(Case::Writer { ops: o });
                    }
                }
            }
        }
        out
    }
    fn meta() -> Meta {
        Meta {
            rule: "each run: 64 operation histories (<= 24 operations, sub-reader histories nested to depth 3) against a fresh SliceReader over a PRNG slice (0-64 octets, occasionally 4 KiB) or a fresh VecWriter; length arguments biased to 0, 1, remaining-1, remaining, remaining+1, remaining+8, usize::MAX; overwrite offsets biased to 0, len-|b|-1, len-|b|, len-|b|+1, len, len+1, usize::MAX-1, usize::MAX; unchecked reads, skip and subreader only when their precondition holds. After every operation the reader's len()/is_empty() and every returned value, resp. the writer's whole buffer, are compared with a (slice, position) cursor resp. a Vec<u8>. distinct_nontrivial = distinct histories.",
            assumptions: vec![
                "an out-of-range overwrite counts as refused when it unwinds or returns with the buffer unchanged",
                "a refused bytes(n) is a no-op in the reference cursor ('returns nothing'): the position after it must be unchanged",
            ],
            real: vec!["SliceReader (all 9 methods, Copy/Clone)", "VecWriter (all 8 methods)"],
            stub: vec!["reference cursor and Vec<u8> model"],
            faults_not_applicable: "no transport, clock, storage or schedule in this property; the varied dimension is the operation history and its boundary-biased arguments",
        }
    }
}
