//! C05: the decoder accepts exactly the specified language (real receiver
//! versus reference receiver on the same faulted deliveries).
//! C10: a relay node reaches a fixed point in one decode/encode round, fed
//! by the foreign peer's non-canonical encodings and by faulted traffic.

use crate::conv::*;
use crate::core::*;
use crate::deliver::*;
use crate::faults::*;
use crate::gen::*;
use crate::model::*;
use crate::records::*;
use crate::rng::{fnv1a, mix2, Rng};
use crate::seams::*;
use core::borrow::Borrow;
use rl2tp::common::{Reader, SliceReader, VecWriter};
use rl2tp::Message;
use serde::{Deserialize, Serialize};
use serde_json::json;

// ===========================================================================
// C05
// ===========================================================================

#[derive(Clone, Debug, Serialize, Deserialize)]
pub enum Case05 {
    Msg {
        #[serde(with = "hexser")]
        bytes: Vec<u8>,
        opts: u8,
        reader: ReaderCfg,
        /// seed of the don't-care re-randomisation
        dc_seed: u64,
    },
    Avps {
        #[serde(with = "hexser")]
        bytes: Vec<u8>,
        reader: ReaderCfg,
    },
    Accessors {
        attr: u16,
        word: u32,
    },
    /// related inputs (the same message, a copy differing in one octet, in
    /// one header field, in its options, cut short or extended) decoded one
    /// after the other on one thread: the accepted language must not
    /// depend on what was decoded before
    Family(Vec<Case05>),
}

/// Inputs related to `b` the way a memo keyed too coarsely (length, header,
/// leading octets, checksum) would confuse them.
pub fn related_inputs(rng: &mut Rng, b: &[u8], n: usize) -> Vec<Vec<u8>> {
    let mut out = Vec::new();
    for _ in 0..n {
        let mut v = b.to_vec();
        match rng.below(9) {
            0 | 1 => {}
            2 if !v.is_empty() => {
                // one bit somewhere
                let i = rng.usize_below(v.len());
                v[i] ^= 1 << rng.below(8);
            }
            3 if !v.is_empty() => {
                // one bit in the last octets (a value, not a header)
                let i = v.len() - 1 - rng.usize_below(v.len().min(8));
                v[i] ^= 1 << rng.below(8);
            }
            4 if v.len() >= 12 => {
                // another tunnel / session / Ns / Nr
                let f = 4 + 2 * rng.usize_below(4);
                v[f + 1] = v[f + 1].wrapping_add(1);
            }
            5 if v.len() >= 14 => {
                // two octets swapped: same length, same octet sum
                let i = rng.urange(12, v.len() - 2);
                v.swap(i, i + 1);
            }
            6 if !v.is_empty() => {
                v.pop();
            }
            7 => v.push(rng.u8()),
            _ => {
                // same length and header, everything after it different
                if v.len() > 20 {
                    let n = v.len();
                    let r = rng.bytes(4);
                    v[n - 4..].copy_from_slice(&r);
                }
            }
        }
        out.push(v);
    }
    out
}

fn hexcut(b: &[u8]) -> String {
    to_hex(&b[..b.len().min(96)])
}

/// Where the message kinds differ the defect classes differ.
fn class05(b: &[u8]) -> String {
    if b.len() < 2 {
        return "short".into();
    }
    let w = u16::from_be_bytes([b[0], b[1]]);
    if w & FLAG_T != 0 {
        "control".into()
    } else {
        format!(
            "data{}{}{}",
            if w & FLAG_L != 0 { "-L" } else { "" },
            if w & FLAG_O != 0 { "-O" } else { "" },
            if w & FLAG_P != 0 { "-P" } else { "" }
        )
    }
}

fn first_avp_diff(a: &SpecMessage, b: &SpecMessage) -> String {
    match (a, b) {
        (SpecMessage::Control { avps: x, .. }, SpecMessage::Control { avps: y, .. }) => {
            for (i, (p, q)) in x.iter().zip(y.iter()).enumerate() {
                if p != q {
                    return format!("avp#{i}-attr-{}", q.attr);
                }
            }
            if x.len() != y.len() {
                return "avp-count".into();
            }
            "header".into()
        }
        (
            SpecMessage::Data { prio: p1, data: d1, length: l1, .. },
            SpecMessage::Data { prio: p2, data: d2, length: l2, .. },
        ) => {
            if p1 != p2 {
                "priority".into()
            } else if d1 != d2 {
                "payload".into()
            } else if l1 != l2 {
                "length".into()
            } else {
                "header".into()
            }
        }
        _ => "kind".into(),
    }
}

fn exec_c05(case: &Case05, obs: &mut Obs) -> Result<(), Failure> {
    match case {
        Case05::Family(items) => {
            obs.count("probe:related-input-family");
            // on a thread of its own: the family is a complete history
            on_fresh_thread(|| {
                for (i, it) in items.iter().enumerate() {
                    if matches!(it, Case05::Family(_)) {
                        continue;
                    }
                    if let Err(mut f) = exec_c05(it, obs) {
                        if items.len() > 1 {
                            f.class = format!("family:{}", f.class);
                            f.detail = format!("input #{i} of {} related inputs decoded one after the other: {}", items.len(), f.detail);
                        }
                        return Err(f);
                    }
                }
                Ok(())
            })
        }
        Case05::Accessors { attr, word } => {
            obs.steps += 1;
            let bits = cal(*attr).map_err(|e| {
                Failure::new("C05", "bitmask-accessors", &format!("accessor-{attr}"), e)
            })?;
            let a = match guard(|| mask_from_wire(*attr, *word)) {
                Ok(Some(a)) => a,
                _ => return Ok(()), // acceptance is judged in the Msg/Avps cases
            };
            let got = mask_accessors(&a);
            let want = Some((*word & bits.a != 0, *word & bits.b != 0));
            if got != want {
                return Err(Failure::new(
                    "C05",
                    "bitmask-accessors",
                    &format!("accessor-{attr}"),
                    format!(
                        "{} decoded from word {:#010x}: accessors read {:?}, their own bits ({:#x}, {:#x}) say {:?}",
                        name_of(*attr).unwrap_or("?"),
                        word,
                        got,
                        bits.a,
                        bits.b,
                        want
                    ),
                ));
            }
            Ok(())
        }
        Case05::Avps { bytes, reader } => {
            obs.steps += 1;
            let model = spec_decode_avps(bytes);
            let real = match decode_avps(bytes, reader, false) {
                Ok(r) => r,
                Err(_) => return Ok(()), // totality: C01
            };
            obs.reader_calls += real.mon.calls;
            if real.items.len() != model.items.len() {
                return Err(Failure::new(
                    "C05",
                    "avp-list-elementwise",
                    "list-length",
                    format!(
                        "decode_avps gives {} items, the specification {} for {}",
                        real.items.len(),
                        model.items.len(),
                        hexcut(bytes)
                    ),
                ));
            }
            for (i, (r, m)) in real.items.iter().zip(model.items.iter()).enumerate() {
                let same = match (r, m) {
                    (Ok(a), Ok(b)) => a == b,
                    (Err(_), Err(_)) => true,
                    _ => false,
                };
                if !same {
                    let attr = match (r, m) {
                        (_, Ok(b)) => b.attr,
                        (Ok(a), _) => a.attr,
                        _ => 0,
                    };
                    return Err(Failure::new(
                        "C05",
                        "avp-list-elementwise",
                        &format!("attr-{attr}"),
                        format!(
                            "item #{i}: real {:?}, specification {:?}; input {}",
                            r.as_ref().map_err(|e| errs_text(std::slice::from_ref(e))),
                            m,
                            hexcut(bytes)
                        ),
                    ));
                }
            }
            Ok(())
        }
        Case05::Msg {
            bytes,
            opts,
            reader,
            dc_seed,
        } => {
            obs.steps += 1;
            let o = Opts::from_index(*opts);
            if let ReaderCfg::Refusing(_) = reader {
                // against the specification fault-free, then what a declined
                // request may and may not change
                exec_c05(
                    &Case05::Msg {
                        bytes: bytes.clone(),
                        opts: *opts,
                        reader: ReaderCfg::Real,
                        dc_seed: u64::MAX,
                    },
                    obs,
                )?;
                obs.count("probe:refusing-reader");
                return check_read_faults("C05", bytes, Some(o), reader, &format!("{}:read-faults", class05(bytes)), obs);
            }
            let model = spec_decode(bytes, o);
            let real = match decode_msg(bytes, Some(o), reader, false) {
                Ok(r) => r,
                Err(c) => {
                    // a panic is "not accepted"; totality itself is C01's
                    if model.result.is_ok() {
                        return Err(Failure::new(
                            "C05",
                            "accepts-iff-spec-accepts",
                            &format!("{}:spec-accepts-real-panics", class05(bytes)),
                            format!(
                                "the specification accepts {} under options {:?} but the decoder fails: {}",
                                hexcut(bytes),
                                o,
                                c.text()
                            ),
                        ));
                    }
                    return Ok(());
                }
            };
            obs.reader_calls += real.mon.calls;
            match (&real.result, &model.result) {
                (Ok(_), Ok(_)) => obs.count("accepted"),
                (Err(_), Err(_)) => obs.count("rejected"),
                _ => {}
            }
            match (&real.result, &model.result) {
                (Err(_), Err(_)) => Ok(()),
                (Ok(r), Ok(m)) => {
                    if r != m {
                        return Err(Failure::new(
                            "C05",
                            "decoded-value-equals-spec",
                            &format!("{}:{}", class05(bytes), first_avp_diff(r, m)),
                            format!(
                                "input {} options {:?}: real {}, specification {}",
                                hexcut(bytes),
                                o,
                                result_text(&real.result),
                                serde_json::to_string(m).unwrap_or_default()
                            ),
                        ));
                    }
                    // nothing outside the named fields influences the result
                    let mut rng = Rng::new(*dc_seed);
                    let mut b2 = bytes.clone();
                    let mut changed = 0;
                    for (i, x) in b2.iter_mut().enumerate() {
                        let free = !model.used.get(i).copied().unwrap_or(0);
                        if free != 0 {
                            let flip = rng.u8() & free;
                            if flip != 0 {
                                *x ^= flip;
                                changed += 1;
                            }
                        }
                    }
                    // (u64::MAX: a family member that is decoded exactly once)
                    if changed > 0 && *dc_seed != u64::MAX {
                        obs.count("probe:dont-care-octets-rerandomised");
                        let again = match decode_msg(&b2, Some(o), reader, false) {
                            Ok(r) => r.result,
                            Err(c) => {
                                return Err(Failure::new(
                                    "C05",
                                    "dont-care-octets",
                                    &class05(bytes),
                                    format!(
                                        "{} decodes, but with its unnamed bits re-randomised ({}) the decoder fails: {}",
                                        hexcut(bytes),
                                        hexcut(&b2),
                                        c.text()
                                    ),
                                ))
                            }
                        };
                        if again.as_ref().ok() != Some(m) {
                            return Err(Failure::new(
                                "C05",
                                "dont-care-octets",
                                &class05(bytes),
                                format!(
                                    "{} and {} differ only in bits the specification does not name, yet decode differently under {:?}: {} versus {}",
                                    hexcut(bytes),
                                    hexcut(&b2),
                                    o,
                                    serde_json::to_string(m).unwrap_or_default(),
                                    result_text(&again)
                                ),
                            ));
                        }
                    }
                    Ok(())
                }
                (Ok(_), Err(e)) => Err(Failure::new(
                    "C05",
                    "accepts-iff-spec-accepts",
                    &format!("{}:real-accepts-spec-rejects", class05(bytes)),
                    format!(
                        "input {} options {:?}: the decoder accepts ({}) what the specification rejects ({:?})",
                        hexcut(bytes),
                        o,
                        result_text(&real.result),
                        e
                    ),
                )),
                (Err(e), Ok(m)) => Err(Failure::new(
                    "C05",
                    "accepts-iff-spec-accepts",
                    &format!("{}:spec-accepts-real-rejects", class05(bytes)),
                    format!(
                        "input {} options {:?}: the decoder rejects ({}) what the specification accepts ({})",
                        hexcut(bytes),
                        o,
                        errs_text(e),
                        serde_json::to_string(m).unwrap_or_default()
                    ),
                )),
            }
        }
    }
}

fn shrink05(c: &Case05) -> Vec<Case05> {
    let mut out = Vec::new();
    match c {
        Case05::Accessors { .. } => {}
        Case05::Family(items) => {
            if items.len() == 1 {
                out.push(items[0].clone());
            }
            for i in 0..items.len() {
                let mut v = items.clone();
                v.remove(i);
                if !v.is_empty() {
                    out.push(Case05::Family(v));
                }
            }
            for i in 0..items.len() {
                for alt in shrink05(&items[i]).into_iter().take(10) {
                    let mut v = items.clone();
                    v[i] = alt;
                    out.push(Case05::Family(v));
                }
            }
        }
        Case05::Avps { bytes, reader } => {
            if *reader != ReaderCfg::Real {
                out.push(Case05::Avps {
                    bytes: bytes.clone(),
                    reader: ReaderCfg::Real,
                });
            }
            for b in shrink_bytes(bytes) {
                out.push(Case05::Avps {
                    bytes: b,
                    reader: reader.clone(),
                });
            }
            out.extend(shrink_records(bytes, 0).into_iter().map(|b| Case05::Avps {
                bytes: b,
                reader: reader.clone(),
            }));
        }
        Case05::Msg {
            bytes,
            opts,
            reader,
            dc_seed,
        } => {
            if *reader != ReaderCfg::Real {
                out.push(Case05::Msg {
                    bytes: bytes.clone(),
                    opts: *opts,
                    reader: ReaderCfg::Real,
                    dc_seed: *dc_seed,
                });
            }
            for o in [0u8, 2] {
                if *opts != o {
                    out.push(Case05::Msg {
                        bytes: bytes.clone(),
                        opts: o,
                        reader: reader.clone(),
                        dc_seed: *dc_seed,
                    });
                }
            }
            let mk = |b: Vec<u8>| Case05::Msg {
                bytes: b,
                opts: *opts,
                reader: reader.clone(),
                dc_seed: *dc_seed,
            };
            out.extend(shrink_records(bytes, 12).into_iter().map(&mk));
            for b in shrink_bytes(bytes) {
                out.push(mk(b));
            }
        }
    }
    out
}

/// Structure-aware shrinking of a control message / AVP region: drop whole
/// records (fixing the Length field), shorten payloads (fixing both lengths).
pub fn shrink_records(b: &[u8], hdr: usize) -> Vec<Vec<u8>> {
    let mut out = Vec::new();
    if b.len() < hdr {
        return out;
    }
    if hdr == 12 && (b[0] & 1 == 0) {
        return out;
    }
    let end = if hdr == 12 {
        (u16::from_be_bytes([b[2], b[3]]) as usize).min(b.len())
    } else {
        b.len()
    };
    if end < hdr {
        return out;
    }
    let mut recs = Vec::new();
    let mut pos = hdr;
    while end - pos >= 6 {
        let len = (((b[pos] >> 6) as usize) << 8) | b[pos + 1] as usize;
        if len < 6 || pos + len > end {
            break;
        }
        recs.push((pos, len));
        pos += len;
    }
    let rebuild = |keep: &dyn Fn(usize) -> Option<Vec<u8>>| -> Vec<u8> {
        let mut o = b[..hdr].to_vec();
        for (i, &(s, l)) in recs.iter().enumerate() {
            match keep(i) {
                Some(r) => o.extend_from_slice(&r),
                None => {
                    let _ = (s, l);
                }
            }
        }
        o.extend_from_slice(&b[pos..]);
        if hdr == 12 {
            let nl = (o.len() - (b.len() - end)).min(65535) as u16;
            o[2..4].copy_from_slice(&nl.to_be_bytes());
        }
        o
    };
    // trailing octets after the declared end
    if hdr == 12 && end < b.len() {
        out.push(b[..end].to_vec());
    }
    for drop in (0..recs.len()).rev() {
        out.push(rebuild(&|i| {
            if i == drop {
                None
            } else {
                let (s, l) = recs[i];
                Some(b[s..s + l].to_vec())
            }
        }));
    }
    for tgt in 0..recs.len() {
        let (s, l) = recs[tgt];
        if l > 6 {
            for nl in [6usize, 6 + (l - 6) / 2, l - 1] {
                if nl < l {
                    out.push(rebuild(&|i| {
                        let (s2, l2) = recs[i];
                        if i == tgt {
                            let mut r = b[s..s + nl].to_vec();
                            r[0] = (r[0] & 0x3F) | ((((nl >> 8) as u8) & 3) << 6);
                            r[1] = nl as u8;
                            Some(r)
                        } else {
                            Some(b[s2..s2 + l2].to_vec())
                        }
                    }));
                }
            }
        }
    }
    out
}

/// Deliveries larger than 64 KiB in the shapes where a 16-bit intermediate
/// would wrap: a valid control message followed by 64 KiB or more of other
/// octets in the same buffer; a data message with L and O whose offset
/// padding alone approaches 64 KiB. `None`: use the caller's own variant.
pub fn beyond_64k(rng: &mut Rng, sw: &Swarm) -> Option<Vec<u8>> {
    match rng.below(3) {
        0 => {
            let m = gen_control(rng, sw, 300);
            let mut b = spec_encode(&m);
            let n = *rng.pick(&[65_524usize, 65_535, 65_536, 65_540, 70_000, 131_072]);
            let fill = if rng.bool() { vec![0u8; n] } else { rng.bytes(n) };
            b.extend_from_slice(&fill);
            Some(b)
        }
        1 => {
            let has_s = rng.bool();
            let off = *rng.pick(&[65_519u16, 65_520, 65_521, 65_525, 65_526, 65_530, 65_535]);
            let payload = rng.urange(1, 12);
            let hdr = data_header_len(true, has_s, true);
            let true_total = hdr + off as usize + payload;
            let length = match rng.below(4) {
                0 => (true_total & 0xFFFF) as u16,
                1 => rng.range(0, 40) as u16,
                2 => (hdr + payload) as u16,
                _ => rng.u16(),
            };
            let mut data = vec![0xAAu8; off as usize];
            data.extend_from_slice(&rng.bytes(payload));
            let m = SpecMessage::Data {
                prio: rng.bool(),
                length: Some(length),
                tunnel_id: rng.u16(),
                session_id: rng.u16(),
                ns_nr: if has_s { Some((rng.u16(), rng.u16())) } else { None },
                offset: Some(off),
                data,
            };
            let mut b = spec_encode(&m);
            if rng.bool() {
                let extra = rng.urange(0, 16);
                b.extend_from_slice(&rng.bytes(extra));
            }
            Some(b)
        }
        _ => None,
    }
}

/// Traffic of one run for the two-receiver comparison.
fn traffic(rng: &mut Rng, sw: &Swarm, primary: Opts, obs: &mut Obs) -> Vec<Vec<u8>> {
    let mut out = Vec::new();
    let n = rng.urange(4, 10);
    for _ in 0..n {
        if rng.chance(1, 300) {
            if let Some(b) = beyond_64k(rng, sw) {
                obs.count("probe:input-beyond-64k");
                out.push(b);
                continue;
            }
            let dl = *rng.pick(&[65_530usize, 65_536, 65_541, 70_000]);
            let has_o = rng.bool();
            let m = SpecMessage::Data {
                prio: rng.bool(),
                length: None,
                tunnel_id: rng.u16(),
                session_id: rng.u16(),
                ns_nr: if rng.bool() { Some((rng.u16(), rng.u16())) } else { None },
                offset: if has_o { Some(*rng.pick(&[0u16, 3, 300, 65_535])) } else { None },
                data: rng.bytes(dl),
            };
            obs.count("probe:input-beyond-64k");
            out.push(spec_encode(&m));
            continue;
        }
        let mut b = match rng.below(12) {
            0..=4 => {
                let lim = *rng.pick(&[64usize, 200, 800, 2500]);
                let m = gen_control(rng, sw, lim);
                let tape = gen_knobs(rng, 60);
                let mut k = Knobs::new(&tape);
                let b = spec_encode_with(&m, &mut k, primary);
                if k.fired > 0 {
                    obs.count("probe:foreign-noncanonical");
                }
                b
            }
            5..=7 => {
                let m = gen_data(rng, sw);
                let tape = gen_knobs(rng, 4);
                let mut k = Knobs::new(&tape);
                spec_encode_with(&m, &mut k, primary)
            }
            8 | 9 => {
                // control message assembled from good and bad records
                let mut recs: Vec<Vec<u8>> = vec![msgtype_record(rng)];
                for _ in 0..rng.urange(0, 5) {
                    if rng.chance(1, 3) {
                        let kind = *rng.pick(&NONTERMINAL);
                        recs.push(bad_record(rng, sw, kind).bytes);
                    } else {
                        recs.push(good_record(rng, sw, true).bytes);
                    }
                }
                let refs: Vec<&[u8]> = recs.iter().map(|r| &r[..]).collect();
                control_of(rng, &refs)
            }
            10 => fragment(rng),
            _ => {
                let n = rng.urange(0, 40);
                rng.bytes(n)
            }
        };
        // fault rate tuned so that about half of the deliveries stay acceptable
        if rng.chance(2, 5) {
            for _ in 0..rng.urange(1, 2) {
                if let Some(k) = random_fault(rng, &mut b) {
                    obs.count(&format!("fault:{k}"));
                }
            }
        }
        out.push(b);
    }
    out
}

pub struct C05;

impl Scenario for C05 {
    type Case = Case05;
    const ID: &'static str = "C05";
    const LEVEL: &'static str = "exploration";
    fn runs(tier: Tier) -> u64 {
        tier.pick(300_000, 20_000_000)
    }
    fn profiles() -> &'static [Profile] {
        &[Profile::Release]
    }
    fn run(rng: &mut Rng, ctx: &mut Ctx) {
        let sw = Swarm::draw(rng);
        let mut wl = rng.fork("workload");
        let mut sm = rng.fork("seams");
        let primary = Opts::from_index(wl.below(8) as u8);
        let msgs = traffic(&mut wl, &sw, primary, ctx.obs);
        // one family of related inputs per run, from one delivered message
        let fam = {
            let small: Vec<&Vec<u8>> = msgs.iter().filter(|m| m.len() <= 2000).collect();
            if small.is_empty() {
                None
            } else {
                let base = (*wl.pick(&small)).clone();
                let n = wl.urange(3, 6);
                let o = wl.below(8) as u8;
                // half of the families decode each member exactly once
                let once = wl.bool();
                let items: Vec<Case05> = related_inputs(&mut wl, &base, n)
                    .into_iter()
                    .map(|bytes| Case05::Msg {
                        bytes,
                        opts: if wl.chance(3, 4) { o } else { wl.below(8) as u8 },
                        reader: ReaderCfg::Real,
                        dc_seed: if once { u64::MAX } else { 0 },
                    })
                    .collect();
                Some(Case05::Family(items))
            }
        };
        // two different messages that a 32-bit fingerprint cannot tell apart,
        // decoded one after the other (with or without something in between)
        let fam = if wl.chance(1, 6) {
            let (x, y, _) = crate::collisions::colliding_pair(&mut wl);
            let o = wl.below(8) as u8;
            let mk = |m: &SpecMessage, o: u8| Case05::Msg {
                bytes: spec_encode(m),
                opts: o,
                reader: ReaderCfg::Real,
                dc_seed: u64::MAX,
            };
            let mut items = vec![mk(&x, o)];
            if wl.chance(1, 3) {
                if let Some(Case05::Family(f)) = &fam {
                    if let Some(it) = f.first() {
                        items.push(it.clone());
                    }
                }
            }
            items.push(mk(&y, if wl.chance(3, 4) { o } else { wl.below(8) as u8 }));
            if wl.bool() {
                items.push(mk(&x, o));
            }
            Some(Case05::Family(items))
        } else {
            fam
        };
        for (k, b) in msgs.into_iter().enumerate() {
            let reader = if sm.chance(1, 3) {
                ReaderCfg::Real
            } else if sm.chance(1, 8) {
                draw_refusing(&mut sm, b.len())
            } else {
                draw_reader(&mut sm, b.len())
            };
            ctx.obs.distinct(mix2(fnv1a(&b), 5));
            if ctx.run == 0 && k < 2 {
                let b2 = b.clone();
                ctx.obs.sample(|| json!({"delivered_hex": hexcut(&b2), "receivers": "real and reference decoder under all 8 option sets; body to try_read_greedy / spec_decode_avps"}));
            }
            for o in 0..8u8 {
                ctx.check::<C05>(&Case05::Msg {
                    bytes: b.clone(),
                    opts: o,
                    reader: reader.clone(),
                    dc_seed: sm.next_u64(),
                });
            }
            let from = if b.len() >= 12 && b[0] & 1 != 0 { 12 } else { 0 };
            ctx.check::<C05>(&Case05::Avps {
                bytes: b[from..].to_vec(),
                reader: if matches!(reader, ReaderCfg::Refusing(_)) { ReaderCfg::Real } else { reader },
            });
        }
        if let Some(f) = fam {
            if ctx.history_this_run() {
                ctx.check::<C05>(&f);
            }
        }
        if ctx.run % 4 == 0 {
            for attr in [3u16, 4, 18, 19] {
                let word = match wl.below(4) {
                    0 => 1u32 << wl.below(32),
                    1 => wl.u32() & 0xFF,
                    _ => wl.u32(),
                };
                ctx.check::<C05>(&Case05::Accessors { attr, word });
            }
        }
    }
    fn execute(case: &Case05, obs: &mut Obs) -> Result<(), Failure> {
        exec_c05(case, obs)
    }
    fn shrink(case: &Case05) -> Vec<Case05> {
        shrink05(case)
    }
    /// Closing pass (a complete sweep of a fault parameter, not a seeded
    /// run): every 16-bit value of each enumerated / dispatching field of a
    /// non-first AVP record, real receiver versus reference receiver.
    fn extra(_tier: Tier, _seed: u64, obs: &mut Obs) -> Vec<(serde_json::Value, Failure)> {
        let mut out = Vec::new();
        let mut seen = std::collections::BTreeSet::new();
        let mt = raw_record(AVP_M, 0, 0, &[0, 6]);
        for field in 0..6u8 {
            for x in 0..=65535u16 {
                let xb = x.to_be_bytes();
                let rec = match field {
                    // message-type code
                    0 => raw_record(AVP_M, 0, 0, &xb),
                    // proxy-authen type
                    1 => raw_record(AVP_M, 0, 29, &xb),
                    // result-code error type (with and without message)
                    2 => raw_record(AVP_M, 0, 1, &[0, 1, xb[0], xb[1]]),
                    // result code itself (kept raw)
                    3 => raw_record(AVP_M, 0, 1, &[xb[0], xb[1], 0, 2, b'm']),
                    // attribute type with a generous payload
                    4 => raw_record(AVP_M, 0, x, &[0x41; 32]),
                    // vendor id
                    _ => raw_record(AVP_M, x, 6, &[0, 7]),
                };
                let mut b = vec![0x13, 0x20, 0, 0, 0, 1, 0, 2, 0, 3, 0, 4];
                b.extend_from_slice(&mt);
                b.extend_from_slice(&rec);
                let l = b.len() as u16;
                b[2..4].copy_from_slice(&l.to_be_bytes());
                let case = Case05::Msg {
                    bytes: b,
                    opts: 7,
                    reader: ReaderCfg::Real,
                    dc_seed: x as u64,
                };
                obs.evaluations += 1;
                if let Err(f) = exec_c05(&case, obs) {
                    if seen.insert(format!("{}-{}", f.signature(), field)) && out.len() < 6 {
                        out.push((serde_json::to_value(&case).unwrap(), f));
                    }
                }
            }
        }
        obs.add("probe:code-field-sweep-6x65536", 1);
        out
    }
    fn meta() -> Meta {
        Meta {
            rule: "each run: 4-10 in-flight messages from the reference sender (canonical and foreign non-canonical control messages over the run's swarm, data messages over all layouts, control messages assembled from good and bad AVP records, grammar fragments, garbage), 40 % of them hit by one or two transport faults (truncate, bit flips anywhere / in headers, message Length, AVP length, vendor id, attribute type, offset size, record drop/dup/swap, payload-head overwrite, trailing octets); every delivery goes to the real decoder and to the reference decoder under all 8 option sets (plus its AVP region to try_read_greedy / spec_decode_avps) through a PRNG reader back-end. Oracle: Ok on one side iff Ok on the other; values equal field by field; for accepted inputs a second delivery with every bit the reference decoder did not name re-randomised must decode to the same value. Bitmask accessors are compared with their own calibrated bits on PRNG words. distinct_nontrivial = distinct delivered octet strings.",
            assumptions: vec![
                "trusted base: the reference decoder in /verif/sim/src/model (written from RFC 2661 with the crate's bit numbering; conventions listed in its header comment)",
                "error identity is not compared here (C15/C20 do that where the properties fix it)",
                "a panic counts as 'not accepted'; totality itself is C01's business",
            ],
            real: vec!["Message::try_read_validate", "AVP::try_read_greedy", "all per-type decoders", "bitmask accessors"],
            stub: vec!["reference decoder (model)", "foreign peer: reference encoder with non-canonical knobs", "channel with fault plan", "reader back-ends"],
            faults_not_applicable: "crash/restart, disk, partition, clock faults: no state, storage, membership or clock in rl2tp",
        }
    }
}

// ===========================================================================
// C10
// ===========================================================================

#[derive(Clone, Debug, Serialize, Deserialize)]
pub struct Case10 {
    #[serde(with = "hexser")]
    pub bytes: Vec<u8>,
    pub opts: u8,
    /// relay reads through an owning reader (T = Vec<u8>) instead of a slice
    pub owned: bool,
    /// deliveries the relay handled just before this one, on the same thread
    #[serde(default)]
    pub before: Vec<HexB>,
}

#[derive(Clone, Debug, PartialEq, Eq, Serialize, Deserialize)]
pub struct HexB(#[serde(with = "hexser")] pub Vec<u8>);

fn relay<T: Borrow<[u8]>>(m: &Message<T>, bytes: &[u8], opts: Opts, obs: &mut Obs) -> Result<(), Failure> {
    let cls = class05(bytes);
    let m_spec = from_crate_msg(m);
    let e1 = guard(|| {
        let mut w = VecWriter::new();
        m.write(&mut w);
        w.data
    })
    .map_err(|c| {
        Failure::new(
            "C10",
            "accepted-message-reencodes",
            &cls,
            format!(
                "{} is accepted under {:?} as {} but encoding the decoded value fails: {}",
                hexcut(bytes),
                opts,
                serde_json::to_string(&m_spec).unwrap_or_default(),
                c.text()
            ),
        )
    })?;
    if e1 != bytes {
        obs.count("probe:relay-input-noncanonical");
    }
    let r2 = guard(|| {
        let mut r = SliceReader::from(&e1[..]);
        let res = Message::<&[u8]>::try_read_validate(&mut r, crate_opts(Opts::STRICT));
        match res {
            Ok(m2) => {
                let s2 = from_crate_msg(&m2);
                let mut w = VecWriter::new();
                m2.write(&mut w);
                // the library's own equality on the AVP lists (it sees
                // private fields that the specification-level view, taken
                // through the encoder, cannot)
                let same_avps = match (m, &m2) {
                    (Message::Control(a), Message::Control(b)) => a.avps == b.avps,
                    _ => true,
                };
                Ok((s2, w.data, r.len(), same_avps))
            }
            Err(e) => Err(errs_text(&e)),
        }
    })
    .map_err(|c| {
        Failure::new(
            "C10",
            "reencoded-decodes-strictly",
            &cls,
            format!("input {} -> encode(m) = {}: second round fails: {}", hexcut(bytes), hexcut(&e1), c.text()),
        )
    })?;
    let (m2, e2, _rem, same_avps) = r2.map_err(|e| {
        Failure::new(
            "C10",
            "reencoded-decodes-strictly",
            &cls,
            format!(
                "input {} decodes under {:?}; encode(m) = {} is rejected by the strict decoder: {}",
                hexcut(bytes),
                opts,
                hexcut(&e1),
                e
            ),
        )
    })?;
    // m' = m up to the control Length field, which must equal |e1|
    let mut want = m_spec.clone();
    if let SpecMessage::Control { length, .. } = &mut want {
        *length = e1.len() as u16;
    }
    if m2 != want {
        return Err(Failure::new(
            "C10",
            "second-value-equals-first",
            &format!("{}:{}", cls, first_avp_diff(&m2, &want)),
            format!(
                "input {}: m = {}, decode_strict(encode(m)) = {}",
                hexcut(bytes),
                serde_json::to_string(&want).unwrap_or_default(),
                serde_json::to_string(&m2).unwrap_or_default()
            ),
        ));
    }
    if !same_avps {
        return Err(Failure::new(
            "C10",
            "second-value-equals-first",
            &format!("{}:library-equality", cls),
            format!(
                "input {}: the AVP list decoded from encode(m) is not equal (PartialEq) to m's, although both look like {} through the encoder",
                hexcut(bytes),
                serde_json::to_string(&want).unwrap_or_default()
            ),
        ));
    }
    if e2 != e1 {
        return Err(Failure::new(
            "C10",
            "fixed-point",
            &cls,
            format!("input {}: encode(m) = {} but encode(m') = {}", hexcut(bytes), hexcut(&e1), hexcut(&e2)),
        ));
    }
    Ok(())
}

fn exec_c10(case: &Case10, obs: &mut Obs) -> Result<(), Failure> {
    if !case.before.is_empty() {
        // a relay's thread has a past: the earlier deliveries first (their
        // own verdicts belong to their own cases), then this one
        obs.count("probe:relay-with-earlier-deliveries");
        return on_fresh_thread(|| {
            for HexB(b) in &case.before {
                let _ = exec_c10(
                    &Case10 {
                        bytes: b.clone(),
                        opts: case.opts,
                        owned: false,
                        before: Vec::new(),
                    },
                    obs,
                );
            }
            exec_c10(
                &Case10 {
                    before: Vec::new(),
                    ..case.clone()
                },
                obs,
            )
            .map_err(|mut f| {
                f.detail = format!("after {} earlier deliveries on the relay's thread: {}", case.before.len(), f.detail);
                f
            })
        });
    }
    let b = &case.bytes;
    if b.len() < 2 {
        return Ok(());
    }
    let w = u16::from_be_bytes([b[0], b[1]]);
    if w & FLAG_T == 0 && w & FLAG_O != 0 {
        return Ok(()); // data message with an offset field: outside C10
    }
    let o = Opts::from_index(case.opts);
    obs.steps += 1;
    if case.owned {
        let mon = Monitor::new(0, false);
        let first = guard(|| {
            let mut r = SimSeg::new(b, &[], mon.clone());
            Message::<Vec<u8>>::try_read_validate(&mut r, crate_opts(o))
        });
        match first {
            Ok(Ok(m)) => {
                obs.count("relay-accepted");
                relay(&m, b, o, obs)
            }
            _ => {
                obs.count("relay-rejected");
                Ok(())
            }
        }
    } else {
        let first = guard(|| {
            let mut r = SliceReader::from(&b[..]);
            let _ = r.len();
            Message::<&[u8]>::try_read_validate(&mut r, crate_opts(o))
        });
        match first {
            Ok(Ok(m)) => {
                obs.count("relay-accepted");
                relay(&m, b, o, obs)
            }
            _ => {
                obs.count("relay-rejected");
                Ok(())
            }
        }
    }
}

pub struct C10;

impl Scenario for C10 {
    type Case = Case10;
    const ID: &'static str = "C10";
    const LEVEL: &'static str = "exploration";
    fn runs(tier: Tier) -> u64 {
        tier.pick(300_000, 20_000_000)
    }
    fn profiles() -> &'static [Profile] {
        &[Profile::Release]
    }
    fn run(rng: &mut Rng, ctx: &mut Ctx) {
        let sw = Swarm::draw(rng);
        let mut wl = rng.fork("workload");
        let opts = Opts::from_index(wl.below(8) as u8);
        let mut msgs = Vec::new();
        if ctx.run % 512 == 5 {
            // a relay input whose canonical re-encoding is exactly 65535 octets
            let mut avps = vec![SpecAvp { attr: 0, val: Val::Code(1) }];
            let mut total = 12 + 8;
            while total + 1023 + 7 <= 65535 {
                avps.push(SpecAvp { attr: 7, val: Val::Bytes(wl.bytes(1017)) });
                total += 1023;
            }
            let rest = 65535 - total;
            if rest >= 7 {
                avps.push(SpecAvp { attr: 11, val: Val::Bytes(wl.bytes(rest - 6)) });
            }
            let m = SpecMessage::Control { length: 0, tunnel_id: wl.u16(), session_id: wl.u16(), ns: wl.u16(), nr: wl.u16(), avps };
            // non-canonical only in ways that do not change the size
            let mut tape = vec![0u8; 3];
            for _ in 0..70 {
                tape.push(wl.u8() & 0x3D); // M clear / reserved AVP flag bits
                tape.push(0); // no surplus
            }
            let mut k = Knobs::new(&tape);
            msgs.push(spec_encode_with(&m, &mut k, opts));
            ctx.obs.count("probe:relay-input-65535");
        }
        for _ in 0..wl.urange(4, 10) {
            let mut b = if wl.chance(3, 4) {
                let lim = *wl.pick(&[64usize, 200, 800, 2500]);
                let m = gen_control(&mut wl, &sw, lim);
                // dense knob tapes: the relay should mostly see non-canonical input
                let tape = if wl.chance(3, 4) { wl.bytes(80) } else { gen_knobs(&mut wl, 80) };
                let mut k = Knobs::new(&tape);
                let b = spec_encode_with(&m, &mut k, opts);
                if k.fired > 0 {
                    ctx.obs.count("probe:foreign-noncanonical");
                }
                b
            } else {
                let mut m = gen_data(&mut wl, &sw);
                if let SpecMessage::Data { offset, data, length, ns_nr, .. } = &mut m {
                    // no offset field (outside C10 otherwise)
                    *offset = None;
                    if length.is_some() {
                        *length = Some((data_header_len(true, ns_nr.is_some(), false) + data.len()) as u16);
                    }
                }
                let tape = gen_knobs(&mut wl, 4);
                let mut k = Knobs::new(&tape);
                spec_encode_with(&m, &mut k, opts)
            };
            // faults that tend to keep a message acceptable
            match wl.below(6) {
                0 => {
                    let n = wl.urange(1, 20);
                    b.extend_from_slice(&wl.bytes(n));
                    ctx.obs.count("fault:append-trail");
                }
                1 => {
                    if let Some(k) = random_fault(&mut wl, &mut b) {
                        ctx.obs.count(&format!("fault:{k}"));
                    }
                }
                _ => {}
            }
            msgs.push(b);
        }
        for (k, b) in msgs.into_iter().enumerate() {
            ctx.obs.distinct(mix2(fnv1a(&b), 10));
            let case = Case10 {
                bytes: b,
                opts: opts.index(),
                owned: wl.bool(),
                before: Vec::new(),
            };
            if ctx.run == 0 && k < 2 {
                let c2 = case.clone();
                ctx.obs.sample(|| json!(c2));
            }
            ctx.check::<C10>(&case);
        }
        // a delivery whose canonical re-encoding a 32-bit fingerprint cannot
        // tell from an earlier delivery on the same relay thread
        if wl.chance(1, 3) {
            let (x, y, _) = crate::collisions::colliding_pair(&mut wl);
            // the later one arrives non-canonical (M bits clear, reserved AVP
            // flag bits): its re-encoding is the canonical y
            let tape: Vec<u8> = (0..40).map(|i| if i < 3 { 0 } else if i % 2 == 1 { wl.u8() & 0x3C } else { 0 }).collect();
            let mut k = Knobs::new(&tape);
            let later = spec_encode_with(&y, &mut k, Opts::from_index(0));
            let mut before = vec![HexB(spec_encode(&x))];
            if wl.chance(1, 3) {
                before.push(HexB(spec_encode(&gen_control(&mut wl, &sw, 200))));
            }
            ctx.check::<C10>(&Case10 {
                bytes: later,
                opts: 0,
                owned: false,
                before,
            });
        }
    }
    fn execute(case: &Case10, obs: &mut Obs) -> Result<(), Failure> {
        exec_c10(case, obs)
    }
    fn shrink(case: &Case10) -> Vec<Case10> {
        let mut out = Vec::new();
        for i in 0..case.before.len() {
            let mut b = case.before.clone();
            b.remove(i);
            out.push(Case10 {
                before: b,
                ..case.clone()
            });
        }
        if case.owned {
            out.push(Case10 {
                owned: false,
                ..case.clone()
            });
        }
        for b in shrink_records(&case.bytes, 12) {
            out.push(Case10 {
                bytes: b,
                ..case.clone()
            });
        }
        for b in shrink_bytes(&case.bytes) {
            out.push(Case10 {
                bytes: b,
                ..case.clone()
            });
        }
        out
    }
    fn meta() -> Meta {
        Meta {
            rule: "each run: 4-10 messages from the foreign peer (reference encoder with dense non-canonical knobs: reserved header bits, P/O bits and odd version nibbles where the relay's options tolerate them, M bit clear, reserved AVP flag bits, surplus octets after fixed-width payloads, one surplus octet after a bare result code, non-zero reserved octets, a trailing fragment < 6 octets in the AVP region) or data messages without offset field, a third of them with trailing octets or one random transport fault; delivered to a relay node under a PRNG option set through a borrowed or an owning reader. For every accepted delivery: e1 = encode(m) must succeed, decode_strict(e1) = m up to the control Length (= |e1|), encode(m') = e1. distinct_nontrivial = distinct delivered octet strings; the accepted / non-canonical fractions are in counters and probes.",
            assumptions: vec!["self-relative oracle (no reference decoder in the verdict); the model only produces the foreign inputs"],
            real: vec!["Message::try_read_validate", "Message::write", "AVP::write", "all per-type codecs"],
            stub: vec!["foreign peer: reference encoder with non-canonical knobs", "channel with fault plan", "owning reader back-end"],
            faults_not_applicable: "crash/restart, disk, partition, clock faults: no state, storage, membership or clock in rl2tp",
        }
    }
}
