//! C14: validation options only restrict; each checks exactly its bits; the
//! default entry point is version checking alone. Eight differently
//! configured receivers (plus `try_read` as a ninth) get the identical
//! delivery; the property is a set of cross-node invariants, with the 16
//! header flag bits as the fault site.

use crate::core::*;
use crate::deliver::*;
use crate::gen::*;
use crate::model::*;
use crate::records::*;
use crate::rng::{fnv1a, mix2, Rng};
use crate::seams::*;
use rl2tp::common::DecodeError;
use serde::{Deserialize, Serialize};
use serde_json::json;

#[derive(Clone, Debug, Serialize, Deserialize)]
pub struct Case14 {
    /// flag word placed in front of `body`
    pub flags: u16,
    #[serde(with = "hexser")]
    pub body: Vec<u8>,
    /// every receiver reads through a reader that, while serving its
    /// `at`-th request, uses the library for something else (a nested
    /// decode under other options, ...)
    #[serde(default)]
    pub reentry: Option<(u32, Nested)>,
    /// before the nine receivers look at the delivery, the same octets are
    /// decoded `count` times under option set `opts` (8 = `try_read`): a
    /// receiver that has been busy with this very traffic for a while
    #[serde(default)]
    pub soak: Option<(u32, u8)>,
    /// which of the nine receivers goes first (the others follow in order)
    #[serde(default)]
    pub first: u8,
}

type R = Result<SpecMessage, Vec<DecodeError>>;

fn same(a: &R, b: &R) -> bool {
    match (a, b) {
        (Ok(x), Ok(y)) => x == y,
        (Err(x), Err(y)) => x == y,
        _ => false,
    }
}

fn exec_c14(case: &Case14, obs: &mut Obs) -> Result<(), Failure> {
    let mut b = case.flags.to_be_bytes().to_vec();
    b.extend_from_slice(&case.body);
    let w = case.flags;
    let is_control = w & FLAG_T != 0;
    let cls = if is_control { "control" } else { "data" };
    let hex = || format!("flags {:#06x} body {}", w, to_hex(&case.body[..case.body.len().min(48)]));
    obs.steps += 9;
    // the nine receivers
    let rcfg = match &case.reentry {
        Some((at, nested)) => {
            obs.count("probe:re-entrant-reader");
            ReaderCfg::Reentrant {
                at: *at,
                nested: nested.clone(),
            }
        }
        None => ReaderCfg::Real,
    };
    if let Some((count, o)) = case.soak {
        obs.count("probe:receivers-after-a-run-of-identical-decodes");
        let opts = if o < 8 { Some(Opts::from_index(o)) } else { None };
        for _ in 0..count {
            if decode_msg(&b, opts, &ReaderCfg::Real, false).is_err() {
                return Ok(());
            }
        }
    }
    // nine receivers, starting with `first`
    let mut slots: Vec<Option<R>> = (0..9).map(|_| None).collect();
    for k in 0..9u8 {
        let i = (case.first % 9 + k) % 9;
        let opts = if i < 8 { Some(Opts::from_index(i)) } else { None };
        match decode_msg(&b, opts, &rcfg, false) {
            Ok(o) => slots[i as usize] = Some(o.result),
            Err(_) => return Ok(()), // totality: C01
        }
    }
    let dflt = slots.pop().flatten().unwrap();
    let res: Vec<R> = slots.into_iter().map(|x| x.unwrap()).collect();
    let at = |o: Opts| &res[o.index() as usize];
    // default entry point = version checking alone
    if !same(&dflt, at(Opts::DEFAULT)) {
        return Err(Failure::new(
            "C14",
            "default-is-version-only",
            cls,
            format!(
                "{}: try_read gives {}, try_read_validate(version only) gives {}",
                hex(),
                result_text(&dflt),
                result_text(at(Opts::DEFAULT))
            ),
        ));
    }
    // monotonicity over all ordered pairs
    for i in 0..8u8 {
        for j in 0..8u8 {
            let (oi, oj) = (Opts::from_index(i), Opts::from_index(j));
            if i != j && oi.le(&oj) {
                if let Ok(m) = at(oj) {
                    if at(oi).as_ref().ok() != Some(m) {
                        return Err(Failure::new(
                            "C14",
                            "monotone",
                            cls,
                            format!(
                                "{}: accepted under {:?} as {} but under the weaker {:?} the result is {}",
                                hex(),
                                oj,
                                serde_json::to_string(m).unwrap_or_default(),
                                oi,
                                result_text(at(oi))
                            ),
                        ));
                    }
                }
            }
        }
    }
    let version_bad = (w & FLAG_VERSION) >> 4 != 2;
    let reserved_bad = w & FLAG_RESERVED != 0;
    let unused_bad = is_control && w & (FLAG_P | FLAG_O) != 0;
    // each gate rejects exactly its strings and is otherwise transparent
    for r in [false, true] {
        for u in [false, true] {
            let on = Opts { reserved: r, version: true, unused: u };
            let off = Opts { reserved: r, version: false, unused: u };
            if version_bad {
                if at(on).is_ok() {
                    return Err(Failure::new("C14", "version-gate", cls, format!("{}: version nibble {} accepted under {:?}", hex(), (w & FLAG_VERSION) >> 4, on)));
                }
            } else if !same(at(on), at(off)) {
                return Err(Failure::new(
                    "C14",
                    "version-gate",
                    cls,
                    format!("{}: version nibble is 2, yet {:?} gives {} and {:?} gives {}", hex(), on, result_text(at(on)), off, result_text(at(off))),
                ));
            }
        }
    }
    for v in [false, true] {
        for u in [false, true] {
            let on = Opts { reserved: true, version: v, unused: u };
            let off = Opts { reserved: false, version: v, unused: u };
            if reserved_bad {
                if at(on).is_ok() {
                    return Err(Failure::new("C14", "reserved-gate", cls, format!("{}: reserved bits {:#06x} accepted under {:?}", hex(), w & FLAG_RESERVED, on)));
                }
            } else if !same(at(on), at(off)) {
                return Err(Failure::new(
                    "C14",
                    "reserved-gate",
                    cls,
                    format!("{}: no reserved bit set, yet {:?} gives {} and {:?} gives {}", hex(), on, result_text(at(on)), off, result_text(at(off))),
                ));
            }
        }
    }
    for v in [false, true] {
        for r in [false, true] {
            let on = Opts { reserved: r, version: v, unused: true };
            let off = Opts { reserved: r, version: v, unused: false };
            if unused_bad {
                if at(on).is_ok() {
                    return Err(Failure::new("C14", "unused-gate", cls, format!("{}: control message with P/O set accepted under {:?}", hex(), on)));
                }
            } else if !same(at(on), at(off)) {
                return Err(Failure::new(
                    "C14",
                    "unused-gate",
                    cls,
                    format!("{}: no forbidden P/O bit, yet {:?} gives {} and {:?} gives {}", hex(), on, result_text(at(on)), off, result_text(at(off))),
                ));
            }
        }
    }
    // independence: with a check off, the bits it owns do not matter.
    // Compare with the same delivery whose owned bits are cleared / set to
    // the canonical value.
    let lax = Opts::from_index(0);
    let mut w0 = w & !FLAG_RESERVED;
    w0 = (w0 & !FLAG_VERSION) | (2 << 4);
    if is_control {
        w0 &= !(FLAG_P | FLAG_O);
    }
    if w0 != w {
        let mut b0 = w0.to_be_bytes().to_vec();
        b0.extend_from_slice(&case.body);
        if let Ok(o0) = decode_msg(&b0, Some(lax), &ReaderCfg::Real, false) {
            if !same(&o0.result, at(lax)) {
                return Err(Failure::new(
                    "C14",
                    "independence",
                    cls,
                    format!(
                        "with all checks off, flags {:#06x} give {} but {:#06x} (same T/L/S{} bits, owned bits normalised) give {}; body {}",
                        w,
                        result_text(at(lax)),
                        w0,
                        if is_control { "" } else { "/O/P" },
                        result_text(&o0.result),
                        to_hex(&case.body[..case.body.len().min(48)])
                    ),
                ));
            }
        }
        obs.count("probe:independence-pair");
    }
    Ok(())
}

/// Bodies (everything after the flag word) for the sweep.
fn bodies(rng: &mut Rng, sw: &Swarm) -> Vec<Vec<u8>> {
    let mut out = Vec::new();
    // valid control with AVPs, ZLB, control with a bad AVP, truncated control
    let m = gen_control(rng, sw, 200);
    out.push(spec_encode(&m)[2..].to_vec());
    let zlb = spec_encode(&SpecMessage::Control {
        length: 0,
        tunnel_id: rng.u16(),
        session_id: rng.u16(),
        ns: rng.u16(),
        nr: rng.u16(),
        avps: Vec::new(),
    });
    out.push(zlb[2..].to_vec());
    // a valid control message whose Length covers 1-5 ignored octets after
    // the last AVP, and a ZLB with such a tail
    {
        let mut e = spec_encode(&m);
        let k = rng.urange(1, 5);
        let tail = rng.bytes(k);
        e.extend_from_slice(&tail);
        let l = e.len() as u16;
        e[2..4].copy_from_slice(&l.to_be_bytes());
        out.push(e[2..].to_vec());
        let mut z = zlb.clone();
        z.extend_from_slice(&tail);
        let l = z.len() as u16;
        z[2..4].copy_from_slice(&l.to_be_bytes());
        out.push(z[2..].to_vec());
    }
    // traffic shaped like the real protocol: an opening SCCRQ (tunnel and
    // session id 0, Protocol Version AVP) and one message of any other kind
    out.push(spec_encode(&gen_realistic_of(rng, Some(1)))[2..].to_vec());
    out.push(spec_encode(&gen_realistic(rng))[2..].to_vec());
    let bk = *rng.pick(&NONTERMINAL);
    let bad = bad_record(rng, sw, bk).bytes;
    let mt = msgtype_record(rng);
    let c = control_of(rng, &[&mt, &bad]);
    out.push(c[2..].to_vec());
    let full = spec_encode(&m);
    let cut = rng.urange(2, full.len().max(3) - 1);
    out.push(full[2..cut.max(2)].to_vec());
    // data bodies laid out for each optional-field combination (so that
    // under the matching flag word they are valid data messages, and under
    // control-ish flag words they exercise the control path)
    for combo in 0..8u8 {
        let (l, s, o) = (combo & 1 != 0, combo & 2 != 0, combo & 4 != 0);
        let dl = rng.urange(1, 12);
        let d = SpecMessage::Data {
            prio: false,
            length: if l { Some((data_header_len(l, s, o) + dl) as u16) } else { None },
            tunnel_id: rng.u16(),
            session_id: rng.u16(),
            ns_nr: if s { Some((rng.u16(), rng.u16())) } else { None },
            offset: if o { Some(rng.range(0, dl as u64 - 1) as u16) } else { None },
            data: rng.bytes(dl),
        };
        out.push(spec_encode(&d)[2..].to_vec());
    }
    out.push(Vec::new());
    let n = rng.urange(1, 30);
    out.push(rng.bytes(n));
    out
}

pub struct C14;

impl Scenario for C14 {
    type Case = Case14;
    const ID: &'static str = "C14";
    const LEVEL: &'static str = "fault_enumeration";
    fn runs(tier: Tier) -> u64 {
        tier.pick(6_400, 8_192)
    }
    fn profiles() -> &'static [Profile] {
        &[Profile::Release]
    }
    fn run(rng: &mut Rng, ctx: &mut Ctx) {
        let sw = Swarm::draw(rng);
        let bods = bodies(rng, &sw);
        let mut sm = rng.fork("seams");
        let words: Vec<u16> = match ctx.tier {
            Tier::Thorough => {
                // the whole flag-word space, sliced over runs: run i of 8192
                // delivers the 8 words i*8 .. i*8+8 ... plus neighbours; the
                // batch as a whole covers all 65 536 words in front of every
                // body kind
                let base = ((ctx.run % 8192) * 8) as u32;
                (0..8u32).map(|k| (base + k) as u16).collect()
            }
            Tier::Quick => {
                // all words at Hamming distance <= 2 from the canonical
                // control and data words, sliced over runs, plus PRNG words
                let mut near = Vec::new();
                for canon in [0x1320u16, 0x0020, 0x5320, 0xD220] {
                    near.push(canon);
                    for i in 0..16 {
                        near.push(canon ^ (1 << i));
                        for j in (i + 1)..16 {
                            near.push(canon ^ (1 << i) ^ (1 << j));
                        }
                    }
                }
                let per = (near.len() + 639) / 640;
                let mut v: Vec<u16> = if ctx.run < 640 {
                    let start = ctx.run as usize * per;
                    near.iter().copied().skip(start).take(per).collect()
                } else {
                    Vec::new()
                };
                for _ in 0..6 {
                    v.push(rng.u16());
                }
                v
            }
        };
        for (k, w) in words.iter().enumerate() {
            for body in &bods {
                let case = Case14 {
                    flags: *w,
                    body: body.clone(),
                    reentry: if sm.chance(1, 8) {
                        let at = if sm.chance(3, 4) { sm.range(1, 4) } else { sm.range(1, 30) } as u32;
                        Some((at, draw_nested(&mut sm)))
                    } else {
                        None
                    },
                    soak: if sm.chance(1, 40) {
                        // counts around the powers of two a saturating or
                        // wrapping counter would trip over
                        let k = *sm.pick(&[4u32, 8, 10, 12, 14, 15, 16]);
                        let n = ((1u32 << k) as i64 + *sm.pick(&[-1i64, 0, 1, 1, 2])) as u32;
                        Some((n, sm.below(9) as u8))
                    } else {
                        None
                    },
                    first: sm.below(9) as u8,
                };
                ctx.obs.distinct(mix2(*w as u64, fnv1a(body)));
                ctx.obs.count("fault:set-flag-word");
                if ctx.run == 0 && k == 0 && body.len() > 12 {
                    let c2 = case.clone();
                    ctx.obs.sample(|| json!(c2));
                }
                ctx.check::<C14>(&case);
            }
        }
    }
    fn execute(case: &Case14, obs: &mut Obs) -> Result<(), Failure> {
        exec_c14(case, obs)
    }
    fn shrink(case: &Case14) -> Vec<Case14> {
        let mut out = Vec::new();
        if case.reentry.is_some() {
            out.push(Case14 {
                reentry: None,
                ..case.clone()
            });
        }
        if let Some((n, o)) = case.soak {
            out.push(Case14 {
                soak: None,
                ..case.clone()
            });
            for m in [n / 2, n - 1] {
                if m > 0 && m < n {
                    out.push(Case14 {
                        soak: Some((m, o)),
                        ..case.clone()
                    });
                }
            }
        }
        if case.first != 0 {
            out.push(Case14 {
                first: 0,
                ..case.clone()
            });
        }
        for i in 0..16 {
            if case.flags & (1 << i) != 0 {
                out.push(Case14 {
                    flags: case.flags & !(1 << i),
                    body: case.body.clone(),
                    ..case.clone()
                });
            }
        }
        for b in shrink_bytes(&case.body).into_iter().take(40) {
            out.push(Case14 {
                flags: case.flags,
                body: b,
                ..case.clone()
            });
        }
        out
    }
    fn meta() -> Meta {
        Meta {
            rule: "fault site = the 16-bit flag word. Each run builds 18 bodies (a realistic opening SCCRQ and one realistic message of another kind, valid control with AVPs, ZLB, both also with 1-5 ignored octets inside Length, control holding a bad AVP, truncated control, valid data bodies for all 8 L/S/O layouts, empty, garbage) and puts flag words in front of them: quick tier = all words at Hamming distance <= 2 from 0x1320, 0x0020, 0x5320, 0xD220 (sliced over the runs) plus PRNG words; thorough tier = all 65 536 words (8 per run over 8192 runs), each in front of every body kind. Every delivery goes to the 8 option sets and to try_read; cross-node invariants: try_read = version-only; for every ordered pair opts <= opts', Ok(m) under opts' implies Ok(m) under opts; each gate rejects exactly its strings (nibble != 2; reserved bits {0,1,2,3,10,11,13}; control P/O) and is otherwise transparent (full result equality, error lists included); with all checks off, normalising the owned bits leaves the result unchanged (data-message P/O excluded). distinct_nontrivial = distinct (flag word, body) pairs.",
            assumptions: vec!["when the version nibble is wrong and a reserved bit is set only rejection is required (which gate fires first is not specified)"],
            real: vec!["Message::try_read", "Message::try_read_validate", "Flags", "ControlMessage::try_read unused-field checks"],
            stub: vec!["eight receiver configurations as eight nodes fed the identical delivery", "reference sender for the bodies"],
            faults_not_applicable: "crash/restart, disk, partition, clock faults: no state, storage, membership or clock in rl2tp",
        }
    }
}
