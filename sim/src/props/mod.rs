pub mod c01_c02;
pub mod c05_c10;
pub mod c08;
pub mod c14;
pub mod c15_c20;
pub mod c18;
pub mod c19;
pub mod c19_side;
pub mod encode;
pub mod hiding;

use crate::core::{dyn_of, DynScenario};

pub fn all() -> Vec<DynScenario> {
    vec![
        dyn_of::<c01_c02::C01>(),
        dyn_of::<c01_c02::C02>(),
        dyn_of::<encode::C03>(),
        dyn_of::<encode::C04>(),
        dyn_of::<c05_c10::C05>(),
        dyn_of::<encode::C06>(),
        dyn_of::<encode::C07>(),
        dyn_of::<c08::C08>(),
        dyn_of::<encode::C09>(),
        dyn_of::<c05_c10::C10>(),
        dyn_of::<hiding::C11>(),
        dyn_of::<hiding::C12>(),
        dyn_of::<hiding::C13>(),
        dyn_of::<c14::C14>(),
        dyn_of::<c15_c20::C15>(),
        dyn_of::<c18::C18>(),
        dyn_of::<c19::C19>(),
        dyn_of::<c15_c20::C20>(),
    ]
}

pub fn find(id: &str) -> Option<DynScenario> {
    all().into_iter().find(|s| s.id == id)
}
