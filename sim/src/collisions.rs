/// Pairs of different, equally long secrets that collide under a common
/// non-cryptographic 32-bit hash (found offline by birthday search): what a
/// cache keyed by such a fingerprint cannot tell apart.
pub const COLLIDING_SECRETS: &[(&str, &[u8], &[u8])] = &[
    ("fnv1a32", b"tunnel-secret-ucvxnv", b"tunnel-secret-ibqs2a"),
    ("fnv1a32", b"nk45xgaqnhlnygyj", b"ekmqb6no8o0rdign"),
    ("fnv1a32", b"KKKKKKKKKKKKKKKKKKKKKKKKKKKKKKKKKKKKKKKKKKKKKKKKKKKKKKKKKKKK16vexc8w", b"KKKKKKKKKKKKKKKKKKKKKKKKKKKKKKKKKKKKKKKKKKKKKKKKKKKKKKKKKKKKrdrtgohh"),
    ("fnv1_32", b"tunnel-secret-6g5wv8", b"tunnel-secret-md2s2k"),
    ("fnv1_32", b"7onzjnt7iiyxyrex", b"3hzvxpmf3a3n6ir8"),
    ("fnv1_32", b"KKKKKKKKKKKKKKKKKKKKKKKKKKKKKKKKKKKKKKKKKKKKKKKKKKKKKKKKKKKKeaiu2usl", b"KKKKKKKKKKKKKKKKKKKKKKKKKKKKKKKKKKKKKKKKKKKKKKKKKKKKKKKKKKKKleii8nzy"),
    ("djb2", b"tunnel-secret-6ykxt8", b"tunnel-secret-87m6rz"),
    ("djb2", b"q3px9z2osxqajd98", b"2gnowltxmxijoyni"),
    ("djb2", b"KKKKKKKKKKKKKKKKKKKKKKKKKKKKKKKKKKKKKKKKKKKKKKKKKKKKKKKKKKKK9ag5c15e", b"KKKKKKKKKKKKKKKKKKKKKKKKKKKKKKKKKKKKKKKKKKKKKKKKKKKKKKKKKKKK6cxc7p4u"),
    ("djb2_xor", b"tunnel-secret-gssm0e", b"tunnel-secret-a71m0e"),
    ("djb2_xor", b"3vav1k15xgf0l3zh", b"b7nt2x35btba25ip"),
    ("djb2_xor", b"KKKKKKKKKKKKKKKKKKKKKKKKKKKKKKKKKKKKKKKKKKKKKKKKKKKKKKKKKKKK3gxa3v63", b"KKKKKKKKKKKKKKKKKKKKKKKKKKKKKKKKKKKKKKKKKKKKKKKKKKKKKKKKKKKKj07avc7c"),
    ("sdbm", b"tunnel-secret-mz3j74", b"tunnel-secret-ytxpb0"),
    ("sdbm", b"i3iktiqot477cwn2", b"efv7exbya9tr0yf2"),
    ("sdbm", b"KKKKKKKKKKKKKKKKKKKKKKKKKKKKKKKKKKKKKKKKKKKKKKKKKKKKKKKKKKKK9dvym61w", b"KKKKKKKKKKKKKKKKKKKKKKKKKKKKKKKKKKKKKKKKKKKKKKKKKKKKKKKKKKKK7yiozumg"),
    ("java31", b"tunnel-secret-s725rd", b"tunnel-secret-s5nu4d"),
    ("java31", b"m4pw8abvrszoc7l5", b"v6d0lfuqclpkd3dm"),
    ("java31", b"KKKKKKKKKKKKKKKKKKKKKKKKKKKKKKKKKKKKKKKKKKKKKKKKKKKKKKKKKKKKrgzpygb5", b"KKKKKKKKKKKKKKKKKKKKKKKKKKKKKKKKKKKKKKKKKKKKKKKKKKKKKKKKKKKKdkf7ox9d"),
    ("crc32", b"tunnel-secret-a7c3of", b"tunnel-secret-pvuam4"),
    ("crc32", b"gi6njzs19iskbo1h", b"kkhfp4huesok6kbb"),
    ("crc32", b"KKKKKKKKKKKKKKKKKKKKKKKKKKKKKKKKKKKKKKKKKKKKKKKKKKKKKKKKKKKKnun9r6jf", b"KKKKKKKKKKKKKKKKKKKKKKKKKKKKKKKKKKKKKKKKKKKKKKKKKKKKKKKKKKKKw8f2tc2l"),
    ("adler32", b"tunnel-secret-v2mc1h", b"tunnel-secret-eg5x0h"),
    ("adler32", b"gk3cs8vrhfh2rcmi", b"6dfgpmhud4v9akeu"),
    ("adler32", b"KKKKKKKKKKKKKKKKKKKKKKKKKKKKKKKKKKKKKKKKKKKKKKKKKKKKKKKKKKKKoy5pi9na", b"KKKKKKKKKKKKKKKKKKKKKKKKKKKKKKKKKKKKKKKKKKKKKKKKKKKKKKKKKKKKjhw8y3ih"),
    ("murmur3_32", b"tunnel-secret-ikqq6p", b"tunnel-secret-an4nvn"),
    ("murmur3_32", b"l678eg9uc8x98hm9", b"9jdykmyhq52t0m8y"),
    ("murmur3_32", b"KKKKKKKKKKKKKKKKKKKKKKKKKKKKKKKKKKKKKKKKKKKKKKKKKKKKKKKKKKKKcy60pl7f", b"KKKKKKKKKKKKKKKKKKKKKKKKKKKKKKKKKKKKKKKKKKKKKKKKKKKKKKKKKKKK46rnen16"),
];


// ---------------------------------------------------------------------------
// Colliding control messages
// ---------------------------------------------------------------------------

use crate::model::*;

/// The 32-bit fingerprints a memo is likely to be keyed by.
pub const HASHES: [(&str, fn(&[u8]) -> u32); 9] = [
    ("fnv1a32", fnv1a32),
    ("fnv1_32", fnv1_32),
    ("djb2", djb2),
    ("djb2_xor", djb2_xor),
    ("sdbm", sdbm),
    ("java31", java31),
    ("crc32", crc32),
    ("adler32", adler32),
    ("murmur3_32", murmur3_32),
];

pub fn fnv1a32(b: &[u8]) -> u32 {
    b.iter().fold(0x811c_9dc5u32, |h, &c| (h ^ c as u32).wrapping_mul(0x0100_0193))
}
pub fn fnv1_32(b: &[u8]) -> u32 {
    b.iter().fold(0x811c_9dc5u32, |h, &c| h.wrapping_mul(0x0100_0193) ^ c as u32)
}
pub fn djb2(b: &[u8]) -> u32 {
    b.iter().fold(5381u32, |h, &c| h.wrapping_mul(33).wrapping_add(c as u32))
}
pub fn djb2_xor(b: &[u8]) -> u32 {
    b.iter().fold(5381u32, |h, &c| h.wrapping_mul(33) ^ c as u32)
}
pub fn sdbm(b: &[u8]) -> u32 {
    b.iter().fold(0u32, |h, &c| (c as u32).wrapping_add(h << 6).wrapping_add(h << 16).wrapping_sub(h))
}
pub fn java31(b: &[u8]) -> u32 {
    b.iter().fold(0u32, |h, &c| h.wrapping_mul(31).wrapping_add(c as u32))
}
pub fn crc32(b: &[u8]) -> u32 {
    let mut crc = 0xFFFF_FFFFu32;
    for &c in b {
        crc ^= c as u32;
        for _ in 0..8 {
            crc = if crc & 1 != 0 { (crc >> 1) ^ 0xEDB8_8320 } else { crc >> 1 };
        }
    }
    !crc
}
pub fn adler32(b: &[u8]) -> u32 {
    let (mut a, mut s) = (1u32, 0u32);
    for &c in b {
        a = (a + c as u32) % 65521;
        s = (s + a) % 65521;
    }
    (s << 16) | a
}
pub fn murmur3_32(b: &[u8]) -> u32 {
    let (c1, c2) = (0xcc9e_2d51u32, 0x1b87_3593u32);
    let mut h = 0u32;
    let mut chunks = b.chunks_exact(4);
    for ch in &mut chunks {
        let mut k = u32::from_le_bytes([ch[0], ch[1], ch[2], ch[3]]);
        k = k.wrapping_mul(c1).rotate_left(15).wrapping_mul(c2);
        h = (h ^ k).rotate_left(13).wrapping_mul(5).wrapping_add(0xe654_6b64);
    }
    let t = chunks.remainder();
    let mut k = 0u32;
    if t.len() >= 3 {
        k ^= (t[2] as u32) << 16;
    }
    if t.len() >= 2 {
        k ^= (t[1] as u32) << 8;
    }
    if !t.is_empty() {
        k ^= t[0] as u32;
        k = k.wrapping_mul(c1).rotate_left(15).wrapping_mul(c2);
        h ^= k;
    }
    h ^= b.len() as u32;
    h ^= h >> 16;
    h = h.wrapping_mul(0x85eb_ca6b);
    h ^= h >> 13;
    h = h.wrapping_mul(0xc2b2_ae35);
    h ^ (h >> 16)
}

/// The message the colliding pairs are instances of: an opening SCCRQ whose
/// Host Name ends in eight varying characters (`kind` 0) or whose Tie
/// Breaker varies (`kind` 1). Ids and sequence numbers are those of every
/// opening SCCRQ (all zero), so two instances differ in those 8 octets only.
pub fn template(kind: u8, vary: [u8; 8]) -> SpecMessage {
    let mut avps = vec![
        SpecAvp { attr: 0, val: Val::Code(1) },
        SpecAvp { attr: 2, val: Val::Pair(1, 0) },
        SpecAvp { attr: 3, val: Val::Mask(3) },
    ];
    if kind == 0 {
        let mut h = b"lns-".to_vec();
        h.extend_from_slice(&vary);
        avps.push(SpecAvp { attr: 7, val: Val::Bytes(h) });
        avps.push(SpecAvp { attr: 9, val: Val::U16(7) });
    } else {
        avps.push(SpecAvp { attr: 7, val: Val::Bytes(b"lac".to_vec()) });
        avps.push(SpecAvp { attr: 9, val: Val::U16(7) });
        avps.push(SpecAvp { attr: 5, val: Val::U64(u64::from_be_bytes(vary)) });
    }
    SpecMessage::Control {
        length: 0,
        tunnel_id: 0,
        session_id: 0,
        ns: 0,
        nr: 0,
        avps,
    }
}

/// What the fingerprint is taken over: 0 = the AVP area (octets 12..), 1 =
/// the whole message.
pub fn scope_of(b: &[u8], scope: u8) -> &[u8] {
    if scope == 0 && b.len() >= 12 {
        &b[12..]
    } else {
        b
    }
}

/// One-off generator (`rl2tp-dst gen-collisions`): prints the table below.
pub fn generate() {
    let alpha = b"abcdefghijklmnopqrstuvwxyz0123456789";
    println!("pub const COLLIDING_MESSAGES: &[(&str, u8, u8, [u8; 8], [u8; 8])] = &[");
    for (name, f) in HASHES {
        for scope in 0..2u8 {
            for kind in 0..2u8 {
                let mut rng = crate::rng::Rng::new(0xC011_1DE0 ^ crate::rng::fnv1a(name.as_bytes()) ^ ((scope as u64) << 8) ^ kind as u64);
                let mut base = spec_encode(&template(kind, [0; 8]));
                // where the varying octets sit
                let probe = spec_encode(&template(kind, [0xA5; 8]));
                let at = (0..base.len()).find(|&i| base[i] != probe[i]).unwrap();
                let mut seen: std::collections::HashMap<u32, [u8; 8]> = std::collections::HashMap::new();
                loop {
                    let mut v = [0u8; 8];
                    for x in v.iter_mut() {
                        *x = if kind == 0 { alpha[rng.usize_below(alpha.len())] } else { rng.u8() };
                    }
                    base[at..at + 8].copy_from_slice(&v);
                    let h = f(scope_of(&base, scope));
                    if let Some(w) = seen.get(&h) {
                        if *w != v {
                            println!("    (\"{name}\", {scope}, {kind}, {:?}, {:?}),", w, v);
                            break;
                        }
                    }
                    seen.insert(h, v);
                }
            }
        }
    }
    println!("];");
}

/// (hash, scope: 0 AVP area / 1 whole message, template kind, varying octets
/// of A, of B): `template(kind, A)` and `template(kind, B)` encode to
/// different octet strings of equal length whose fingerprints over `scope`
/// are equal. Generated by `rl2tp-dst gen-collisions`; verified by selftest.
pub const COLLIDING_MESSAGES: &[(&str, u8, u8, [u8; 8], [u8; 8])] = &[
    ("fnv1a32", 0, 0, [105, 121, 51, 104, 116, 116, 52, 98], [108, 99, 50, 111, 102, 108, 106, 51]),
    ("fnv1a32", 0, 1, [114, 126, 3, 23, 101, 255, 54, 242], [79, 1, 77, 53, 0, 228, 98, 222]),
    ("fnv1a32", 1, 0, [112, 99, 121, 48, 97, 48, 51, 109], [103, 51, 106, 114, 55, 106, 111, 107]),
    ("fnv1a32", 1, 1, [136, 241, 226, 203, 56, 244, 110, 126], [21, 231, 192, 223, 171, 145, 125, 212]),
    ("fnv1_32", 0, 0, [119, 103, 52, 122, 107, 121, 57, 57], [98, 106, 107, 51, 110, 121, 121, 100]),
    ("fnv1_32", 0, 1, [117, 124, 80, 59, 32, 38, 37, 157], [184, 251, 152, 63, 137, 188, 82, 149]),
    ("fnv1_32", 1, 0, [104, 106, 110, 113, 56, 114, 52, 49], [111, 51, 51, 122, 97, 54, 56, 118]),
    ("fnv1_32", 1, 1, [39, 234, 144, 145, 99, 93, 243, 25], [247, 141, 254, 184, 76, 58, 7, 207]),
    ("djb2", 0, 0, [103, 56, 97, 55, 98, 53, 103, 48], [114, 102, 97, 114, 115, 51, 101, 111]),
    ("djb2", 0, 1, [167, 97, 195, 35, 115, 186, 187, 118], [0, 69, 140, 181, 250, 200, 202, 186]),
    ("djb2", 1, 0, [48, 55, 120, 56, 119, 104, 56, 107], [120, 107, 109, 119, 54, 113, 50, 57]),
    ("djb2", 1, 1, [244, 74, 151, 36, 133, 45, 154, 75], [107, 178, 55, 169, 181, 73, 78, 39]),
    ("djb2_xor", 0, 0, [52, 99, 109, 109, 53, 99, 55, 51], [53, 112, 53, 52, 101, 99, 104, 111]),
    ("djb2_xor", 0, 1, [186, 145, 134, 247, 76, 186, 183, 245], [232, 19, 175, 204, 54, 204, 40, 100]),
    ("djb2_xor", 1, 0, [102, 118, 101, 51, 55, 101, 105, 55], [107, 103, 48, 57, 104, 56, 50, 109]),
    ("djb2_xor", 1, 1, [43, 184, 148, 155, 86, 85, 75, 232], [41, 61, 155, 158, 166, 211, 144, 72]),
    ("sdbm", 0, 0, [55, 114, 57, 56, 99, 104, 99, 105], [115, 116, 48, 119, 106, 52, 55, 106]),
    ("sdbm", 0, 1, [49, 91, 251, 144, 12, 11, 103, 197], [79, 154, 186, 133, 229, 164, 146, 25]),
    ("sdbm", 1, 0, [110, 107, 122, 102, 109, 110, 106, 121], [51, 116, 56, 119, 56, 54, 55, 114]),
    ("sdbm", 1, 1, [171, 188, 166, 218, 143, 199, 225, 207], [51, 181, 15, 73, 109, 213, 107, 242]),
    ("java31", 0, 0, [109, 109, 52, 55, 98, 49, 56, 99], [108, 114, 106, 113, 122, 53, 121, 110]),
    ("java31", 0, 1, [74, 244, 202, 117, 254, 21, 180, 72], [8, 179, 80, 242, 147, 93, 78, 215]),
    ("java31", 1, 0, [57, 119, 115, 53, 49, 119, 117, 57], [113, 53, 102, 56, 116, 101, 101, 104]),
    ("java31", 1, 1, [239, 78, 24, 255, 184, 206, 135, 222], [32, 221, 244, 168, 97, 175, 168, 188]),
    ("crc32", 0, 0, [103, 100, 102, 55, 120, 106, 50, 119], [109, 119, 49, 121, 49, 48, 113, 98]),
    ("crc32", 0, 1, [204, 175, 126, 3, 194, 129, 23, 153], [54, 87, 222, 54, 163, 45, 175, 51]),
    ("crc32", 1, 0, [108, 54, 106, 98, 53, 109, 113, 115], [121, 53, 120, 51, 112, 101, 104, 114]),
    ("crc32", 1, 1, [232, 54, 129, 64, 192, 113, 54, 186], [190, 75, 152, 11, 189, 235, 119, 114]),
    ("adler32", 0, 0, [116, 54, 107, 109, 109, 120, 122, 108], [57, 110, 121, 112, 115, 113, 113, 104]),
    ("adler32", 0, 1, [159, 75, 60, 153, 100, 172, 90, 2], [153, 169, 53, 159, 0, 54, 115, 108]),
    ("adler32", 1, 0, [109, 119, 120, 105, 108, 98, 53, 102], [119, 104, 114, 119, 102, 106, 49, 101]),
    ("adler32", 1, 1, [235, 24, 121, 241, 77, 171, 242, 10], [208, 148, 101, 202, 16, 180, 108, 158]),
    ("murmur3_32", 0, 0, [50, 52, 53, 52, 111, 113, 112, 56], [97, 102, 102, 119, 106, 109, 113, 121]),
    ("murmur3_32", 0, 1, [230, 114, 38, 140, 24, 167, 233, 13], [57, 128, 53, 63, 29, 43, 39, 227]),
    ("murmur3_32", 1, 0, [48, 120, 105, 100, 120, 55, 113, 51], [53, 109, 57, 103, 57, 99, 114, 108]),
    ("murmur3_32", 1, 1, [254, 187, 56, 26, 141, 153, 247, 140], [23, 122, 94, 143, 233, 85, 83, 197]),
];

/// A pair of different opening SCCRQs that one of the fingerprints cannot
/// tell apart.
pub fn colliding_pair(rng: &mut crate::rng::Rng) -> (SpecMessage, SpecMessage, &'static str) {
    let (name, _scope, kind, a, b) = *rng.pick(COLLIDING_MESSAGES);
    let (x, y) = (template(kind, a), template(kind, b));
    if rng.bool() {
        (x, y, name)
    } else {
        (y, x, name)
    }
}

/// Selftest: every table row collides under the model's encoding.
pub fn verify() -> Result<usize, String> {
    for (name, scope, kind, a, b) in COLLIDING_MESSAGES {
        let f = HASHES.iter().find(|h| h.0 == *name).ok_or("unknown hash")?.1;
        let (x, y) = (spec_encode(&template(*kind, *a)), spec_encode(&template(*kind, *b)));
        if x == y || x.len() != y.len() || f(scope_of(&x, *scope)) != f(scope_of(&y, *scope)) {
            return Err(format!("row {name}/{scope}/{kind} does not collide"));
        }
    }
    for (name, a, b) in COLLIDING_SECRETS {
        if let Some(h) = HASHES.iter().find(|h| h.0 == *name) {
            if a == b || a.len() != b.len() || (h.1)(a) != (h.1)(b) {
                return Err(format!("secret pair for {name} does not collide"));
            }
        }
    }
    Ok(COLLIDING_MESSAGES.len() + COLLIDING_SECRETS.len())
}


// ---------------------------------------------------------------------------
// Key streams with a zero word
// ---------------------------------------------------------------------------

/// One-off generator (`rl2tp-dst gen-keystreams`): for each of the first
/// three 32-bit words, a (type 8, secret, random vector) whose first-chunk
/// key stream MD5(type | secret | rv) has that word zero. About 2^32 MD5
/// evaluations each, spread over the available cores.
pub fn generate_keystreams() {
    use std::sync::atomic::{AtomicBool, Ordering};
    println!("pub const ZERO_WORD_KEYSTREAMS: &[(u16, &[u8], [u8; 4], usize)] = &[");
    for word in 0..3usize {
        let found = std::sync::Arc::new(AtomicBool::new(false));
        let out = std::sync::Arc::new(std::sync::Mutex::new(None));
        let threads = std::thread::available_parallelism().map(|n| n.get()).unwrap_or(4);
        let mut hs = Vec::new();
        for t in 0..threads {
            let found = found.clone();
            let out = out.clone();
            hs.push(std::thread::spawn(move || {
                let secret = format!("tunnel-secret-{:02}", word * 16 + t);
                let mut buf = vec![0u8, 8];
                buf.extend_from_slice(secret.as_bytes());
                let at = buf.len();
                buf.extend_from_slice(&[0; 4]);
                let mut rv: u32 = 0;
                loop {
                    if rv & 0xFFFF == 0 && found.load(Ordering::Relaxed) {
                        return;
                    }
                    buf[at..at + 4].copy_from_slice(&rv.to_be_bytes());
                    let d = ::md5::compute(&buf).0;
                    if d[4 * word..4 * word + 4] == [0, 0, 0, 0] {
                        found.store(true, Ordering::Relaxed);
                        *out.lock().unwrap() = Some((secret.clone(), rv.to_be_bytes()));
                        return;
                    }
                    rv = rv.wrapping_add(1);
                    if rv == 0 {
                        return;
                    }
                }
            }));
        }
        for h in hs {
            let _ = h.join();
        }
        let got: Option<(String, [u8; 4])> = out.lock().unwrap().clone();
        if let Some((s, rv)) = got {
            println!("    (8, b\"{s}\", {:?}, {word}),", rv);
        }
    }
    println!("];");
}

/// (attribute type, secret, random vector, index of the 32-bit word of
/// MD5(type | secret | rv) that is zero): key streams that leave four
/// octets of the first chunk unchanged. Generated by `rl2tp-dst
/// gen-keystreams` (about 2^32 MD5 evaluations each); verified by selftest.
pub const ZERO_WORD_KEYSTREAMS: &[(u16, &[u8], [u8; 4], usize)] = &[
    (8, b"tunnel-secret-08", [10, 67, 118, 202], 0),
    (8, b"tunnel-secret-18", [28, 103, 240, 203], 1),
    (8, b"tunnel-secret-40", [3, 111, 213, 63], 2),
];

pub fn verify_keystreams() -> Result<usize, String> {
    for (attr, secret, rv, word) in ZERO_WORD_KEYSTREAMS {
        let mut b = attr.to_be_bytes().to_vec();
        b.extend_from_slice(secret);
        b.extend_from_slice(rv);
        let d = crate::model::md5::md5(&b);
        if d[4 * word..4 * word + 4] != [0, 0, 0, 0] {
            return Err(format!("key stream row for word {word} has no zero word"));
        }
    }
    Ok(ZERO_WORD_KEYSTREAMS.len())
}
