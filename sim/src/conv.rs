//! Conversion between crate values and model values, through public fields,
//! public constructors and accessors only. No `Debug`/`Display` text of a
//! crate type is parsed here.

use crate::model::*;
use core::borrow::Borrow;
use rl2tp::avp::types::{self as t, result_code as rc};
use rl2tp::avp::AVP;
use rl2tp::common::{DecodeError, SliceReader, VecWriter};
use rl2tp::{
    ControlMessage, DataMessage, Message, ValidateReserved, ValidateUnused, ValidateVersion,
    ValidationOptions,
};

pub fn crate_opts(o: Opts) -> ValidationOptions {
    ValidationOptions {
        reserved: if o.reserved {
            ValidateReserved::Yes
        } else {
            ValidateReserved::No
        },
        version: if o.version {
            ValidateVersion::Yes
        } else {
            ValidateVersion::No
        },
        unused: if o.unused {
            ValidateUnused::Yes
        } else {
            ValidateUnused::No
        },
    }
}

// ---------------------------------------------------------------------------
// Message type names <-> RFC numbers (RFC 2661 section 3.2), by variant.
// ---------------------------------------------------------------------------

pub fn message_type_code(m: &t::MessageType) -> u16 {
    use t::MessageType::*;
    match m {
        StartControlConnectionRequest => 1,
        StartControlConnectionReply => 2,
        StartControlConnectionConnected => 3,
        StopControlConnectionNotification => 4,
        Hello => 6,
        OutgoingCallRequest => 7,
        OutgoingCallReply => 8,
        OutgoingCallConnected => 9,
        IncomingCallRequest => 10,
        IncomingCallReply => 11,
        IncomingCallConnected => 12,
        CallDisconnectNotify => 14,
        WanErrorNotify => 15,
        SetLinkInfo => 16,
        // a variant added to the crate after the model was written (see
        // err_kind): a code point / attribute the reference never yields
        #[allow(unreachable_patterns)]
        _ => 0xffff,
    }
}

pub fn message_type_from_code(c: u16) -> Option<t::MessageType> {
    use t::MessageType::*;
    Some(match c {
        1 => StartControlConnectionRequest,
        2 => StartControlConnectionReply,
        3 => StartControlConnectionConnected,
        4 => StopControlConnectionNotification,
        6 => Hello,
        7 => OutgoingCallRequest,
        8 => OutgoingCallReply,
        9 => OutgoingCallConnected,
        10 => IncomingCallRequest,
        11 => IncomingCallReply,
        12 => IncomingCallConnected,
        14 => CallDisconnectNotify,
        15 => WanErrorNotify,
        16 => SetLinkInfo,
        _ => return None,
    })
}

pub fn proxy_type_code(p: &t::ProxyAuthenType) -> u16 {
    use t::ProxyAuthenType::*;
    match p {
        Reserved => 0,
        TextualUserNamePasswordExchange => 1,
        PppChap => 2,
        PppPap => 3,
        NoAuthentication => 4,
        MicrosoftChapVersion1 => 5,
        // a variant added to the crate after the model was written (see
        // err_kind): a code point / attribute the reference never yields
        #[allow(unreachable_patterns)]
        _ => 0xffff,
    }
}

pub fn proxy_type_from_code(c: u16) -> Option<t::ProxyAuthenType> {
    use t::ProxyAuthenType::*;
    Some(match c {
        0 => Reserved,
        1 => TextualUserNamePasswordExchange,
        2 => PppChap,
        3 => PppPap,
        4 => NoAuthentication,
        5 => MicrosoftChapVersion1,
        _ => return None,
    })
}

pub fn error_type_code(e: &rc::ErrorType) -> u16 {
    use rc::ErrorType::*;
    match e {
        Ok => 0,
        NoControlConnectionExists => 1,
        WrongLength => 2,
        OutOfRangeOrBadReserved => 3,
        InsufficientResources => 4,
        InvalidSessionId => 5,
        Generic => 6,
        TryAnotherDestination => 7,
        UnknownMandatoryAvp => 8,
        // a variant added to the crate after the model was written (see
        // err_kind): a code point / attribute the reference never yields
        #[allow(unreachable_patterns)]
        _ => 0xffff,
    }
}

pub fn error_type_from_code(c: u16) -> Option<rc::ErrorType> {
    use rc::ErrorType::*;
    Some(match c {
        0 => Ok,
        1 => NoControlConnectionExists,
        2 => WrongLength,
        3 => OutOfRangeOrBadReserved,
        4 => InsufficientResources,
        5 => InvalidSessionId,
        6 => Generic,
        7 => TryAnotherDestination,
        8 => UnknownMandatoryAvp,
        _ => return None,
    })
}

// ---------------------------------------------------------------------------
// Bitmask kinds: calibrated bit assignment
// ---------------------------------------------------------------------------

/// For each bitmask kind: the bit answering to the accessor named after the
/// capability the RFC lists first ("A": async / analog) and the bit of the
/// one it lists second ("S"/"D": sync / digital).
#[derive(Clone, Copy, Debug, PartialEq, Eq)]
pub struct MaskBits {
    pub a: u32,
    pub b: u32,
}

/// Build a bitmask AVP of kind `attr` holding raw word `w` by decoding its
/// model encoding with the real decoder (the only public way to obtain an
/// arbitrary 32-bit word).
pub fn mask_from_wire(attr: u16, w: u32) -> Option<AVP> {
    let enc = spec_encode_avp(&SpecAvp {
        attr,
        val: Val::Mask(w),
    });
    // (guarded: on a tree that is broken the decoder may refuse even this)
    let mut v = crate::core::guard(|| {
        let mut r = SliceReader::from(&enc[..]);
        AVP::try_read_greedy::<&[u8]>(&mut r)
    })
    .ok()?;
    if v.len() != 1 {
        return None;
    }
    v.pop().unwrap().ok()
}

/// (accessor for capability A, accessor for capability B) of a decoded mask.
pub fn mask_accessors(a: &AVP) -> Option<(bool, bool)> {
    Some(match a {
        AVP::FramingCapabilities(x) => (
            x.is_async_framing_supported(),
            x.is_sync_framing_supported(),
        ),
        AVP::BearerCapabilities(x) => (
            x.is_analog_access_supported(),
            x.is_digital_access_supported(),
        ),
        AVP::BearerType(x) => (x.is_analog_request(), x.is_digital_request()),
        AVP::FramingType(x) => (x.is_analog_request(), x.is_digital_request()),
        _ => return None,
    })
}

/// Calibrate from the accessors on the 32 single-bit words. `Err` describes
/// an accessor that does not answer to exactly one bit.
pub fn calibrate_mask(attr: u16) -> Result<MaskBits, String> {
    let mut a_bits = Vec::new();
    let mut b_bits = Vec::new();
    for k in 0..32 {
        let w = 1u32 << k;
        let avp = mask_from_wire(attr, w).ok_or_else(|| {
            format!("bitmask kind {attr}: word {w:#x} does not decode to one AVP")
        })?;
        let (a, b) = mask_accessors(&avp).ok_or_else(|| {
            format!("bitmask kind {attr}: decoded to a different AVP kind")
        })?;
        if a {
            a_bits.push(w);
        }
        if b {
            b_bits.push(w);
        }
    }
    if a_bits.len() != 1 || b_bits.len() != 1 || a_bits[0] == b_bits[0] {
        return Err(format!(
            "bitmask kind {attr}: accessors answer to bits {a_bits:x?} / {b_bits:x?}"
        ));
    }
    // zero word: both false
    let z = mask_from_wire(attr, 0).and_then(|x| mask_accessors(&x));
    if z != Some((false, false)) {
        return Err(format!("bitmask kind {attr}: zero word reads {z:?}"));
    }
    Ok(MaskBits {
        a: a_bits[0],
        b: b_bits[0],
    })
}

/// Build through the public constructor, passing each capability to the
/// parameter that bears its name.
pub fn mask_via_ctor(attr: u16, cap_a: bool, cap_b: bool) -> Option<AVP> {
    Some(match attr {
        // new(async_framing_supported, sync_framing_supported)
        3 => AVP::FramingCapabilities(t::FramingCapabilities::new(cap_a, cap_b)),
        // new(digital_access_supported, analog_access_supported)
        4 => AVP::BearerCapabilities(t::BearerCapabilities::new(cap_b, cap_a)),
        // new(analog_request, digital_request)
        18 => AVP::BearerType(t::BearerType::new(cap_a, cap_b)),
        19 => AVP::FramingType(t::FramingType::new(cap_a, cap_b)),
        _ => return None,
    })
}

pub fn is_mask_attr(attr: u16) -> bool {
    matches!(attr, 3 | 4 | 18 | 19)
}

// ---------------------------------------------------------------------------
// spec -> crate
// ---------------------------------------------------------------------------

fn s(v: &[u8]) -> Option<String> {
    String::from_utf8(v.to_vec()).ok()
}

/// `None` when the value has no crate representation (invalid UTF-8,
/// unassigned code, attribute/format mismatch).
/// The caller's byte strings rarely have `capacity == len` (they are built
/// by pushing, or cut from larger buffers): values handed to the library get
/// spare capacity, so that nothing can depend on the allocation's size.
fn spare(v: &[u8]) -> Vec<u8> {
    let mut x = Vec::with_capacity(v.len() + 1 + v.len() % 13);
    x.extend_from_slice(v);
    x
}

fn spare_s(v: String) -> String {
    let mut x = String::with_capacity(v.len() + 1 + v.len() % 11);
    x.push_str(&v);
    x
}

pub fn to_crate_avp(a: &SpecAvp, bits: &dyn Fn(u16) -> Option<MaskBits>) -> Option<AVP> {
    if let Val::Hidden(v) = &a.val {
        return Some(AVP::Hidden(t::Hidden {
            attribute_type: a.attr,
            value: v.clone(),
        }));
    }
    Some(match (a.attr, &a.val) {
        (0, Val::Code(c)) => AVP::MessageType(message_type_from_code(*c)?),
        (1, Val::Result { code, error }) => AVP::ResultCode(t::ResultCode {
            code: rc::CodeValue::from(*code),
            error: match error {
                None => None,
                Some(ResErr { et, msg }) => Some(rc::Error {
                    error_type: error_type_from_code(*et)?,
                    error_message: match msg {
                        None => None,
                        Some(m) => Some(spare_s(s(m)?)),
                    },
                }),
            },
        }),
        (2, Val::Pair(v, r)) => AVP::ProtocolVersion(t::ProtocolVersion {
            version: *v,
            revision: *r,
        }),
        (3 | 4 | 18 | 19, Val::Mask(w)) => {
            let mb = bits(a.attr);
            match mb {
                Some(mb) if *w & !(mb.a | mb.b) == 0 => {
                    mask_via_ctor(a.attr, *w & mb.a != 0, *w & mb.b != 0)?
                }
                _ => mask_from_wire(a.attr, *w)?,
            }
        }
        (5, Val::U64(v)) => AVP::TieBreaker(t::TieBreaker::from(*v)),
        (6, Val::U16(v)) => AVP::FirmwareRevision(t::FirmwareRevision::from(*v)),
        (7, Val::Bytes(v)) => AVP::HostName(t::HostName::from(spare(v))),
        (8, Val::Str(v)) => AVP::VendorName(t::VendorName::from(spare_s(s(v)?))),
        (9, Val::U16(v)) => AVP::AssignedTunnelId(t::AssignedTunnelId { value: *v }),
        (10, Val::U16(v)) => AVP::ReceiveWindowSize(t::ReceiveWindowSize { value: *v }),
        (11, Val::Bytes(v)) => AVP::Challenge(t::Challenge::from(spare(v))),
        (
            12,
            Val::Q931 {
                code,
                msg,
                advisory,
            },
        ) => AVP::Q931CauseCode(t::Q931CauseCode {
            cause_code: *code,
            cause_msg: *msg,
            advisory: match advisory {
                None => None,
                Some(a) => Some(spare_s(s(a)?)),
            },
        }),
        (13, Val::Fix16(v)) => AVP::ChallengeResponse(t::ChallengeResponse::from(*v)),
        (14, Val::U16(v)) => AVP::AssignedSessionId(t::AssignedSessionId { value: *v }),
        (15, Val::U32(v)) => AVP::CallSerialNumber(t::CallSerialNumber { value: *v }),
        (16, Val::U32(v)) => AVP::MinimumBps(t::MinimumBps { value: *v }),
        (17, Val::U32(v)) => AVP::MaximumBps(t::MaximumBps { value: *v }),
        (21, Val::Str(v)) => AVP::CalledNumber(t::CalledNumber::from(spare_s(s(v)?))),
        (22, Val::Str(v)) => AVP::CallingNumber(t::CallingNumber::from(spare_s(s(v)?))),
        (23, Val::Str(v)) => AVP::SubAddress(t::SubAddress::from(spare_s(s(v)?))),
        (24, Val::U32(v)) => AVP::TxConnectSpeed(t::TxConnectSpeed { value: *v }),
        (25, Val::Fix4(v)) => AVP::PhysicalChannelId(t::PhysicalChannelId::from(*v)),
        (26, Val::Bytes(v)) => {
            AVP::InitialReceivedLcpConfReq(t::InitialReceivedLcpConfReq::from(spare(v)))
        }
        (27, Val::Bytes(v)) => AVP::LastSentLcpConfReq(t::LastSentLcpConfReq::from(spare(v))),
        (28, Val::Bytes(v)) => {
            AVP::LastReceivedLcpConfReq(t::LastReceivedLcpConfReq::from(spare(v)))
        }
        (29, Val::Code(c)) => AVP::ProxyAuthenType(proxy_type_from_code(*c)?),
        (30, Val::Bytes(v)) => AVP::ProxyAuthenName(t::ProxyAuthenName::from(spare(v))),
        (31, Val::Bytes(v)) => AVP::ProxyAuthenChallenge(t::ProxyAuthenChallenge::from(spare(v))),
        (32, Val::ProxyId(v)) => AVP::ProxyAuthenId(t::ProxyAuthenId::from(*v)),
        (33, Val::Bytes(v)) => AVP::ProxyAuthenResponse(t::ProxyAuthenResponse::from(spare(v))),
        (34, Val::CallErrors(e)) => AVP::CallErrors(t::CallErrors {
            crc_errors: e[0],
            framing_errors: e[1],
            hardware_overruns: e[2],
            buffer_overruns: e[3],
            timeout_errors: e[4],
            alignment_errors: e[5],
        }),
        (35, Val::Accm(sa, ra)) => AVP::Accm(t::Accm {
            send_accm: *sa,
            receive_accm: *ra,
        }),
        (36, Val::Fix4(v)) => AVP::RandomVector(t::RandomVector::from(*v)),
        (37, Val::Bytes(v)) => AVP::PrivateGroupId(t::PrivateGroupId::from(spare(v))),
        (38, Val::U32(v)) => AVP::RxConnectSpeed(t::RxConnectSpeed { value: *v }),
        (39, Val::Empty) => AVP::SequencingRequired(t::SequencingRequired {}),
        _ => return None,
    })
}

// ---------------------------------------------------------------------------
// crate -> spec
// ---------------------------------------------------------------------------

/// Raw word of a bitmask AVP, observed through the public encoder (the
/// field is private): last four octets of the 14-octet encoding.
fn mask_word(a: &AVP) -> u32 {
    // the Debug rendering shows the private word ("... { data: 192 }") and
    // involves no encoder; the encoder is the fallback
    let dbg = format!("{a:?}");
    if let Some(i) = dbg.find("data: ") {
        let digits: String = dbg[i + 6..].chars().take_while(|c| c.is_ascii_digit()).collect();
        if let Ok(v) = digits.parse::<u32>() {
            return v;
        }
    }
    let d = match crate::core::guard(|| {
        let mut w = VecWriter::new();
        a.write(&mut w);
        w.data
    }) {
        Ok(d) => d,
        Err(_) => return 0xDEAD_BEEF, // the encoder refuses even this (a broken tree)
    };
    if d.len() < 4 {
        return 0;
    }
    let n = d.len();
    u32::from_be_bytes([d[n - 4], d[n - 3], d[n - 2], d[n - 1]])
}

pub fn from_crate_avp(a: &AVP) -> SpecAvp {
    let b = |v: &Vec<u8>| Val::Bytes(v.clone());
    let st = |v: &String| Val::Str(v.as_bytes().to_vec());
    let (attr, val) = match a {
        AVP::MessageType(m) => (0, Val::Code(message_type_code(m))),
        AVP::ResultCode(r) => (
            1,
            Val::Result {
                code: u16::from(r.code),
                error: r.error.as_ref().map(|e| ResErr {
                    et: error_type_code(&e.error_type),
                    msg: e.error_message.as_ref().map(|m| m.as_bytes().to_vec()),
                }),
            },
        ),
        AVP::ProtocolVersion(p) => (2, Val::Pair(p.version, p.revision)),
        AVP::FramingCapabilities(_) => (3, Val::Mask(mask_word(a))),
        AVP::BearerCapabilities(_) => (4, Val::Mask(mask_word(a))),
        AVP::TieBreaker(x) => (5, Val::U64(x.value)),
        AVP::FirmwareRevision(x) => (6, Val::U16(x.value)),
        AVP::HostName(x) => (7, b(&x.value)),
        AVP::VendorName(x) => (8, st(&x.value)),
        AVP::AssignedTunnelId(x) => (9, Val::U16(x.value)),
        AVP::ReceiveWindowSize(x) => (10, Val::U16(x.value)),
        AVP::Challenge(x) => (11, b(&x.value)),
        AVP::Q931CauseCode(x) => (
            12,
            Val::Q931 {
                code: x.cause_code,
                msg: x.cause_msg,
                advisory: x.advisory.as_ref().map(|m| m.as_bytes().to_vec()),
            },
        ),
        AVP::ChallengeResponse(x) => (13, Val::Fix16(x.value)),
        AVP::AssignedSessionId(x) => (14, Val::U16(x.value)),
        AVP::CallSerialNumber(x) => (15, Val::U32(x.value)),
        AVP::MinimumBps(x) => (16, Val::U32(x.value)),
        AVP::MaximumBps(x) => (17, Val::U32(x.value)),
        AVP::BearerType(_) => (18, Val::Mask(mask_word(a))),
        AVP::FramingType(_) => (19, Val::Mask(mask_word(a))),
        AVP::CalledNumber(x) => (21, st(&x.value)),
        AVP::CallingNumber(x) => (22, st(&x.value)),
        AVP::SubAddress(x) => (23, st(&x.value)),
        AVP::TxConnectSpeed(x) => (24, Val::U32(x.value)),
        AVP::PhysicalChannelId(x) => (25, Val::Fix4(x.value)),
        AVP::InitialReceivedLcpConfReq(x) => (26, b(&x.value)),
        AVP::LastSentLcpConfReq(x) => (27, b(&x.value)),
        AVP::LastReceivedLcpConfReq(x) => (28, b(&x.value)),
        AVP::ProxyAuthenType(x) => (29, Val::Code(proxy_type_code(x))),
        AVP::ProxyAuthenName(x) => (30, b(&x.value)),
        AVP::ProxyAuthenChallenge(x) => (31, b(&x.value)),
        AVP::ProxyAuthenId(x) => (32, Val::ProxyId(x.value)),
        AVP::ProxyAuthenResponse(x) => (33, b(&x.value)),
        AVP::CallErrors(x) => (
            34,
            Val::CallErrors([
                x.crc_errors,
                x.framing_errors,
                x.hardware_overruns,
                x.buffer_overruns,
                x.timeout_errors,
                x.alignment_errors,
            ]),
        ),
        AVP::Accm(x) => (35, Val::Accm(x.send_accm, x.receive_accm)),
        AVP::RandomVector(x) => (36, Val::Fix4(x.value)),
        AVP::PrivateGroupId(x) => (37, b(&x.value)),
        AVP::RxConnectSpeed(x) => (38, Val::U32(x.value)),
        AVP::SequencingRequired(_) => (39, Val::Empty),
        AVP::Hidden(h) => (h.attribute_type, Val::Hidden(h.value.clone())),
        // a variant added to the crate after the model was written (see
        // err_kind): a code point / attribute the reference never yields
        #[allow(unreachable_patterns)]
        _ => (0xffff, Val::Empty),
    };
    SpecAvp { attr, val }
}

pub fn from_crate_msg<T: Borrow<[u8]>>(m: &Message<T>) -> SpecMessage {
    match m {
        Message::Control(c) => SpecMessage::Control {
            length: c.length,
            tunnel_id: c.tunnel_id,
            session_id: c.session_id,
            ns: c.ns,
            nr: c.nr,
            avps: c.avps.iter().map(from_crate_avp).collect(),
        },
        Message::Data(d) => SpecMessage::Data {
            prio: d.is_prioritized,
            length: d.length,
            tunnel_id: d.tunnel_id,
            session_id: d.session_id,
            ns_nr: d.ns_nr,
            offset: d.offset,
            data: d.data.borrow().to_vec(),
        },
    }
}

pub fn to_crate_msg(
    m: &SpecMessage,
    bits: &dyn Fn(u16) -> Option<MaskBits>,
) -> Option<Message<Vec<u8>>> {
    Some(match m {
        SpecMessage::Control {
            length,
            tunnel_id,
            session_id,
            ns,
            nr,
            avps,
        } => {
            let mut v = Vec::with_capacity(avps.len());
            for a in avps {
                v.push(to_crate_avp(a, bits)?);
            }
            Message::Control(ControlMessage {
                length: *length,
                tunnel_id: *tunnel_id,
                session_id: *session_id,
                ns: *ns,
                nr: *nr,
                avps: v,
            })
        }
        SpecMessage::Data {
            prio,
            length,
            tunnel_id,
            session_id,
            ns_nr,
            offset,
            data,
        } => Message::Data(DataMessage {
            is_prioritized: *prio,
            length: *length,
            tunnel_id: *tunnel_id,
            session_id: *session_id,
            ns_nr: *ns_nr,
            offset: *offset,
            data: spare(data),
        }),
    })
}

// ---------------------------------------------------------------------------
// errors
// ---------------------------------------------------------------------------

/// Meaning of a crate error in model terms. Total. Variants with no model
/// counterpart map to `None` (a read error reported by a conforming reader
/// cannot occur).
pub fn err_kind(e: &DecodeError) -> Option<SpecErr> {
    use DecodeError as D;
    Some(match e {
        D::IncompleteAVP(t) => SpecErr::IncompleteAvp(*t),
        D::UnknownMessageType(c) => SpecErr::UnknownMessageType(*c),
        D::InvalidUtf8(t) => SpecErr::InvalidUtf8(*t),
        D::InvalidResultCodeErrorType(c) => SpecErr::InvalidResultCodeErrorType(*c),
        D::AVPReadError(_) => return None,
        D::InvalidAVPLength(_) => SpecErr::InvalidAvpLength,
        D::UnknownAvp(t) => SpecErr::UnknownAvp(*t),
        D::EmptyHiddenAVP => SpecErr::EmptyHidden,
        D::MisalignedHiddenAVP => SpecErr::MisalignedHidden,
        D::InvalidOriginalAVPLength(l) => SpecErr::InvalidOriginalLength(*l),
        D::UnsupportedVendorId(v) => SpecErr::UnsupportedVendorId(*v),
        D::InvalidVersion(v) => SpecErr::InvalidVersion(*v),
        D::InvalidReservedBits => SpecErr::InvalidReservedBits,
        D::IncompleteFlags => SpecErr::IncompleteFlags,
        D::InvalidOffset(n) => SpecErr::InvalidOffset(*n),
        D::IncompleteDataMessageHeader => SpecErr::IncompleteDataHeader,
        D::IncompleteDataMessagePayload => SpecErr::BadDataLength(0),
        D::EmptyDataMessagePayload => SpecErr::EmptyDataPayload,
        D::MessageReadError => return None,
        D::ForbiddenControlMessagePriority => SpecErr::ForbiddenPriority,
        D::ForbiddenControlMessageOffset => SpecErr::ForbiddenOffset,
        D::ControlMessageWithoutLength => SpecErr::NoLength,
        D::ControlMessageWithoutNsNr => SpecErr::NoNsNr,
        D::IncompleteControlMessageHeader => SpecErr::IncompleteControlHeader,
        D::IncompleteControlMessagePayload => SpecErr::IncompleteControlPayload,
        D::ControlMessageTypeNotFirst => SpecErr::NotFirst,
        // a variant added to the crate after the model was written: the
        // harness must still build against such a tree (a build failure is a
        // harness error, not a verdict), and the oracles then judge what the
        // decoder does with it
        #[allow(unreachable_patterns)]
        _ => SpecErr::Unmodelled,
    })
}

/// All `DecodeError` variants with a representative payload, for C20's
/// rendering pass.
pub fn all_error_variants(x: u16) -> Vec<DecodeError> {
    use DecodeError as D;
    vec![
        D::IncompleteAVP(x),
        D::UnknownMessageType(x),
        D::InvalidUtf8(x),
        D::InvalidResultCodeErrorType(x),
        D::AVPReadError(x),
        D::InvalidAVPLength(x),
        D::UnknownAvp(x),
        D::EmptyHiddenAVP,
        D::MisalignedHiddenAVP,
        D::InvalidOriginalAVPLength(x),
        D::UnsupportedVendorId(x),
        D::InvalidVersion(x as u8),
        D::InvalidReservedBits,
        D::IncompleteFlags,
        D::InvalidOffset(x),
        D::IncompleteDataMessageHeader,
        D::IncompleteDataMessagePayload,
        D::EmptyDataMessagePayload,
        D::MessageReadError,
        D::ForbiddenControlMessagePriority,
        D::ForbiddenControlMessageOffset,
        D::ControlMessageWithoutLength,
        D::ControlMessageWithoutNsNr,
        D::IncompleteControlMessageHeader,
        D::IncompleteControlMessagePayload,
        D::ControlMessageTypeNotFirst,
    ]
}

// ---------------------------------------------------------------------------
// per-process calibration cache
// ---------------------------------------------------------------------------

thread_local! {
    static CAL: std::cell::RefCell<Option<[Result<MaskBits, String>; 4]>> = const { std::cell::RefCell::new(None) };
}

fn cal_index(attr: u16) -> Option<usize> {
    match attr {
        3 => Some(0),
        4 => Some(1),
        18 => Some(2),
        19 => Some(3),
        _ => None,
    }
}

/// Calibrated bit assignment of a bitmask kind (cached); `Err` carries the
/// description of the accessor defect.
pub fn cal(attr: u16) -> Result<MaskBits, String> {
    let i = cal_index(attr).ok_or_else(|| "not a bitmask kind".to_string())?;
    let f = |a: u16| match crate::core::guard(|| calibrate_mask(a)) {
        Ok(r) => r,
        Err(e) => Err(format!("calibration of kind {a}: {}", e.text())),
    };
    // try_with: may be called while the thread's locals are being destroyed
    match CAL.try_with(|c| {
        let mut c = c.borrow_mut();
        if c.is_none() {
            *c = Some([f(3), f(4), f(18), f(19)]);
        }
        c.as_ref().unwrap()[i].clone()
    }) {
        Ok(v) => v,
        Err(_) => f(attr),
    }
}

pub fn cal_bits(attr: u16) -> Option<MaskBits> {
    cal(attr).ok()
}
