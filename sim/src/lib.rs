//! rl2tp-dst: deterministic simulation with fault injection for rl2tp
//! (library part: PRNG, reference model, seams, channel faults, nodes,
//! oracles, engine).
#![allow(dead_code)]

pub mod collisions;
pub mod conv;
pub mod core;
pub mod deliver;
pub mod dict;
pub mod engine;
pub mod env;
pub mod faults;
pub mod gen;
pub mod model;
pub mod props;
pub mod records;
pub mod rng;
pub mod seams;
pub mod selftest;
