//! Receiver nodes: hand delivered octets to the real decoder through a chosen
//! reader back-end and return what happened in model terms.

use crate::conv::*;
use crate::core::*;
use crate::model::*;
use crate::seams::*;
use rl2tp::avp::AVP;
use rl2tp::common::{DecodeError, Reader, SliceReader, VecWriter};
use rl2tp::Message;

pub struct MonSnap {
    pub calls: u64,
    pub violations: Vec<String>,
    pub path: u64,
    pub touched_hi: usize,
    pub straddles: u64,
    pub log: Option<Vec<Call>>,
    /// read faults injected by a `Refusing` reader: (absolute offset, length)
    pub refusals: Vec<(usize, usize)>,
}

impl MonSnap {
    pub fn none() -> MonSnap {
        MonSnap {
            calls: 0,
            violations: Vec::new(),
            path: 0,
            touched_hi: 0,
            straddles: 0,
            log: None,
            refusals: Vec::new(),
        }
    }
    fn take(m: &std::rc::Rc<std::cell::RefCell<Monitor>>) -> MonSnap {
        let mut m = m.borrow_mut();
        MonSnap {
            calls: m.calls,
            violations: std::mem::take(&mut m.violations),
            path: m.path,
            touched_hi: m.touched_hi,
            straddles: m.straddles,
            log: m.log.take(),
            refusals: std::mem::take(&mut m.refusals),
        }
    }
}

pub struct MsgOut {
    pub result: Result<SpecMessage, Vec<DecodeError>>,
    /// `len()` of the reader after the call
    pub remaining: usize,
    pub mon: MonSnap,
}

pub struct AvpsOut {
    pub items: Vec<Result<SpecAvp, DecodeError>>,
    pub remaining: usize,
    pub mon: MonSnap,
}

pub fn step_budget(len: usize) -> u64 {
    64 + 8 * len as u64
}

/// `opts = None` is the default entry point `Message::try_read`.
pub fn decode_msg(
    b: &[u8],
    opts: Option<Opts>,
    rcfg: &ReaderCfg,
    keep_log: bool,
) -> Result<MsgOut, Caught> {
    match rcfg {
        ReaderCfg::Real => guard(|| {
            let mut r = SliceReader::from(b);
            let res = match opts {
                Some(o) => Message::<&[u8]>::try_read_validate(&mut r, crate_opts(o)),
                None => Message::<&[u8]>::try_read(&mut r),
            };
            MsgOut {
                result: res.map(|m| from_crate_msg(&m)),
                remaining: r.len(),
                mon: MonSnap::none(),
            }
        }),
        ReaderCfg::Slice | ReaderCfg::Reentrant { .. } | ReaderCfg::Refusing(_) => {
            let mon = Monitor::new(step_budget(b.len()), keep_log);
            if let ReaderCfg::Refusing(c) = rcfg {
                mon.borrow_mut().refuse_cuts = c.clone();
            }
            let slot = arm_reentry(&mon, rcfg);
            let m2 = mon.clone();
            let r = guard(move || {
                let mut r = SimSlice::new(b, m2);
                let res = match opts {
                    Some(o) => Message::<&[u8]>::try_read_validate(&mut r, crate_opts(o)),
                    None => Message::<&[u8]>::try_read(&mut r),
                };
                let out = res.map(|m| from_crate_msg(&m));
                (out, quiet_len(&r))
            });
            settle_reentry(&mon, rcfg, slot);
            r.map(|(result, remaining)| MsgOut {
                result,
                remaining,
                mon: MonSnap::take(&mon),
            })
        }
        ReaderCfg::Sparse(total) => {
            let mon = Monitor::new(step_budget(b.len() + 64), keep_log);
            let m2 = mon.clone();
            let total = *total as usize;
            let r = guard(move || {
                let mut r = SimSparse::new(b, total, m2);
                let res = match opts {
                    Some(o) => Message::<Vec<u8>>::try_read_validate(&mut r, crate_opts(o)),
                    None => Message::<Vec<u8>>::try_read(&mut r),
                };
                let out = res.map(|m| from_crate_msg(&m));
                (out, quiet_len(&r))
            });
            r.map(|(result, remaining)| MsgOut {
                result,
                remaining,
                mon: MonSnap::take(&mon),
            })
        }
        ReaderCfg::Owned | ReaderCfg::Segmented(_) => {
            let cuts: &[usize] = match rcfg {
                ReaderCfg::Segmented(c) => c,
                _ => &[],
            };
            let mon = Monitor::new(step_budget(b.len()), keep_log);
            let m2 = mon.clone();
            let r = guard(move || {
                let mut r = SimSeg::new(b, cuts, m2);
                let res = match opts {
                    Some(o) => Message::<Vec<u8>>::try_read_validate(&mut r, crate_opts(o)),
                    None => Message::<Vec<u8>>::try_read(&mut r),
                };
                let out = res.map(|m| from_crate_msg(&m));
                (out, quiet_len(&r))
            });
            r.map(|(result, remaining)| MsgOut {
                result,
                remaining,
                mon: MonSnap::take(&mon),
            })
        }
    }
}

/// `len()` that does not count against the budget (harness observation).
fn quiet_len<T, R: Reader<T>>(r: &R) -> usize {
    // the monitor counts this call; that is harmless (one call per decode,
    // identical on every back-end) and keeps the seam honest
    match guard(|| r.len()) {
        Ok(n) => n,
        Err(_) => usize::MAX,
    }
}

pub fn decode_avps(b: &[u8], rcfg: &ReaderCfg, keep_log: bool) -> Result<AvpsOut, Caught> {
    fn conv(v: Vec<Result<AVP, DecodeError>>) -> Vec<Result<SpecAvp, DecodeError>> {
        v.into_iter().map(|x| x.map(|a| from_crate_avp(&a))).collect()
    }
    match rcfg {
        ReaderCfg::Real => guard(|| {
            let mut r = SliceReader::from(b);
            let v = AVP::try_read_greedy::<&[u8]>(&mut r);
            AvpsOut {
                items: conv(v),
                remaining: r.len(),
                mon: MonSnap::none(),
            }
        }),
        ReaderCfg::Slice | ReaderCfg::Reentrant { .. } | ReaderCfg::Refusing(_) => {
            let mon = Monitor::new(step_budget(b.len()), keep_log);
            if let ReaderCfg::Refusing(c) = rcfg {
                mon.borrow_mut().refuse_cuts = c.clone();
            }
            let slot = arm_reentry(&mon, rcfg);
            let m2 = mon.clone();
            let r = guard(move || {
                let mut r = SimSlice::new(b, m2);
                let v = AVP::try_read_greedy::<&[u8]>(&mut r);
                (conv(v), quiet_len(&r))
            });
            settle_reentry(&mon, rcfg, slot);
            r.map(|(items, remaining)| AvpsOut {
                items,
                remaining,
                mon: MonSnap::take(&mon),
            })
        }
        ReaderCfg::Sparse(total) => {
            let mon = Monitor::new(step_budget(b.len() + 64), keep_log);
            let m2 = mon.clone();
            let total = *total as usize;
            let r = guard(move || {
                let mut r = SimSparse::new(b, total, m2);
                let v = AVP::try_read_greedy::<Vec<u8>>(&mut r);
                (conv(v), quiet_len(&r))
            });
            r.map(|(items, remaining)| AvpsOut {
                items,
                remaining,
                mon: MonSnap::take(&mon),
            })
        }
        ReaderCfg::Owned | ReaderCfg::Segmented(_) => {
            let cuts: &[usize] = match rcfg {
                ReaderCfg::Segmented(c) => c,
                _ => &[],
            };
            let mon = Monitor::new(step_budget(b.len()), keep_log);
            let m2 = mon.clone();
            let r = guard(move || {
                let mut r = SimSeg::new(b, cuts, m2);
                let v = AVP::try_read_greedy::<Vec<u8>>(&mut r);
                (conv(v), quiet_len(&r))
            });
            r.map(|(items, remaining)| AvpsOut {
                items,
                remaining,
                mon: MonSnap::take(&mon),
            })
        }
    }
}

// ---------------------------------------------------------------------------
// Read faults
// ---------------------------------------------------------------------------

/// The relaxed oracle for a decode during which the reader declined at least
/// one `bytes()` request: against the fault-free result `base`, the faulted
/// result `got` may (a) be the same, (b) be an error list that reports a
/// read error and otherwise only errors the fault-free decode reports too,
/// in the same order, or (c) be the same value with declined hidden AVPs
/// left empty. Wrong data and errors that blame the message are not allowed.
pub fn read_fault_consistent(
    base: &Result<SpecMessage, Vec<DecodeError>>,
    got: &Result<SpecMessage, Vec<DecodeError>>,
) -> Result<(), String> {
    let same = match (base, got) {
        (Ok(a), Ok(b)) => a == b,
        (Err(a), Err(b)) => a == b,
        _ => false,
    };
    if same {
        return Ok(());
    }
    match got {
        Err(ge) => {
            let reads = ge.iter().filter(|e| err_kind(e).is_none()).count();
            if reads == 0 {
                return Err(format!(
                    "the reader declined a request, the decoder reports {} — no read error among them (fault-free result: {})",
                    errs_text(ge),
                    result_text(base)
                ));
            }
            let be: &[DecodeError] = match base {
                Err(b) => b,
                Ok(_) => &[],
            };
            // the other errors: a subsequence of the fault-free ones
            let mut i = 0;
            for e in ge.iter().filter(|e| err_kind(e).is_some()) {
                match be[i..].iter().position(|x| x == e) {
                    Some(p) => i += p + 1,
                    None => {
                        return Err(format!(
                            "the reader declined a request, the decoder reports {} of which {} is not reported without the fault ({})",
                            errs_text(ge),
                            errs_text(std::slice::from_ref(e)),
                            result_text(base)
                        ))
                    }
                }
            }
            Ok(())
        }
        Ok(gm) => {
            let bm = match base {
                Ok(b) => b,
                Err(_) => return Err(format!("accepted ({}) only because the reader declined a request; fault-free: {}", result_text(got), result_text(base))),
            };
            match (bm, gm) {
                (
                    SpecMessage::Control { avps: ba, .. },
                    SpecMessage::Control { avps: ga, .. },
                ) if ba.len() == ga.len() => {
                    let mut b2 = bm.clone();
                    if let SpecMessage::Control { avps, .. } = &mut b2 {
                        for (x, g) in avps.iter_mut().zip(ga.iter()) {
                            if x.is_hidden() && g.is_hidden() && x.attr == g.attr && matches!(&g.val, Val::Hidden(v) if v.is_empty()) {
                                x.val = Val::Hidden(Vec::new());
                            }
                        }
                    }
                    if b2 == *gm {
                        Ok(())
                    } else {
                        Err(format!("after a declined request the decoder returns a different value: {} instead of {}", result_text(got), result_text(base)))
                    }
                }
                _ => Err(format!("after a declined request the decoder returns a different value: {} instead of {}", result_text(got), result_text(base))),
            }
        }
    }
}

/// Decode `b` through a reader that declines requests (`reader`) and judge
/// the result against the fault-free decode of the same octets with the
/// relaxed oracle above. The fault-free decode itself is judged by the
/// caller's ordinary oracle.
pub fn check_read_faults(
    prop: &str,
    b: &[u8],
    opts: Option<Opts>,
    reader: &ReaderCfg,
    cls: &str,
    obs: &mut crate::core::Obs,
) -> Result<(), crate::core::Failure> {
    let base = match decode_msg(b, opts, &ReaderCfg::Real, false) {
        Ok(o) => o,
        Err(_) => return Ok(()), // totality: C01
    };
    let got = match decode_msg(b, opts, reader, false) {
        Ok(o) => o,
        Err(_) => return Ok(()),
    };
    obs.reader_calls += got.mon.calls;
    let fail = |oracle: &str, d: String| {
        crate::core::Failure::new(
            prop,
            oracle,
            cls,
            format!(
                "via a reader that declines requests across {:?} on {} octets {}: {}",
                reader,
                b.len(),
                crate::model::to_hex(&b[..b.len().min(96)]),
                d
            ),
        )
    };
    if got.mon.refusals.is_empty() {
        obs.count("probe:refusing-reader-no-fault-fired");
        let same = match (&base.result, &got.result) {
            (Ok(x), Ok(y)) => x == y,
            (Err(x), Err(y)) => x == y,
            _ => false,
        };
        if !same {
            return Err(fail(
                "same-result-on-every-reader",
                format!("no request was declined, yet {} instead of {}", result_text(&got.result), result_text(&base.result)),
            ));
        }
        return Ok(());
    }
    obs.add("fault:read-declined", got.mon.refusals.len() as u64);
    if hidden_payload_declined(b, &got.mon.refusals) {
        obs.count("skipped:hidden-payload-declined-unspecified");
        return Ok(());
    }
    read_fault_consistent(&base.result, &got.result).map_err(|d| fail("read-fault-changes-only-read-errors", d))
}

/// Was one of the declined requests the payload of a hidden AVP? The
/// library's handling of that case (it carries on as if the payload were
/// empty, without skipping it) is outside every property; such runs are not
/// judged. `refusals` are (offset, length) relative to `b`.
pub fn hidden_payload_declined(b: &[u8], refusals: &[(usize, usize)]) -> bool {
    refusals.iter().any(|&(a, n)| {
        a >= 6 && a <= b.len() && b[a - 6] & AVP_H != 0 && {
            let l = (((b[a - 6] >> 6) as usize) << 8) | b[a - 5] as usize;
            l == n + 6
        }
    })
}

/// Discontinuities for a `Refusing` reader over `len` octets.
pub fn draw_refusing(rng: &mut crate::rng::Rng, len: usize) -> ReaderCfg {
    let mut cuts = Vec::new();
    if len > 2 {
        for _ in 0..rng.urange(1, 4) {
            cuts.push(rng.urange(1, len - 1));
        }
        if rng.chance(1, 3) {
            // a ring of small pages
            let p = *rng.pick(&[8usize, 16, 32, 64]);
            let mut c = p;
            while c < len && cuts.len() < 64 {
                cuts.push(c);
                c += p;
            }
        }
    }
    cuts.sort_unstable();
    cuts.dedup();
    ReaderCfg::Refusing(cuts)
}

// ---------------------------------------------------------------------------
// Re-entrant readers
// ---------------------------------------------------------------------------

type NestedSlot = std::rc::Rc<std::cell::RefCell<Option<(String, Vec<String>)>>>;

/// Arm the monitor so that the `at`-th reader call performs the nested use
/// of the library before it is served.
pub fn arm_reentry(mon: &std::rc::Rc<std::cell::RefCell<Monitor>>, rcfg: &ReaderCfg) -> Option<NestedSlot> {
    if let ReaderCfg::Reentrant { at, nested } = rcfg {
        let slot: NestedSlot = Default::default();
        let s2 = slot.clone();
        let n2 = nested.clone();
        let mut m = mon.borrow_mut();
        // the nested use may add a few calls' worth of work of its own
        m.reentry = Some((
            (*at).max(1) as u64,
            Box::new(move || {
                *s2.borrow_mut() = Some(run_nested(&n2));
            }),
        ));
        Some(slot)
    } else {
        None
    }
}

/// After the outer call: the nested use must have behaved exactly as it does
/// on its own (same result, no request outside its input). Anything else is
/// recorded with the outer monitor's violations.
pub fn settle_reentry(mon: &std::rc::Rc<std::cell::RefCell<Monitor>>, rcfg: &ReaderCfg, slot: Option<NestedSlot>) {
    let (slot, nested) = match (slot, rcfg) {
        (Some(s), ReaderCfg::Reentrant { nested, .. }) => (s, nested),
        _ => return,
    };
    mon.borrow_mut().reentry = None;
    let inside = match slot.borrow_mut().take() {
        Some(x) => x,
        None => return, // the outer call made fewer requests
    };
    let alone = run_nested(nested);
    let mut m = mon.borrow_mut();
    for v in inside.1 {
        if m.violations.len() < 8 {
            m.violations.push(format!("nested use of the library from inside a reader call: {v}"));
        }
    }
    if inside.0 != alone.0 && m.violations.len() < 8 {
        m.violations.push(format!(
            "nested use of the library from inside a reader call returned {} but {} on its own ({:?})",
            cut(&inside.0),
            cut(&alone.0),
            nested
        ));
    }
}

fn cut(s: &str) -> String {
    if s.len() > 200 {
        format!("{}...", &s[..200])
    } else {
        s.to_string()
    }
}

/// Perform a nested use of the library; returns its result as text and the
/// precondition violations of its own reader.
pub fn run_nested(n: &Nested) -> (String, Vec<String>) {
    use rl2tp::avp::types as t;
    fn avp_text(r: Result<Result<AVP, DecodeError>, Caught>) -> String {
        match r {
            Ok(Ok(a)) => serde_json::to_string(&from_crate_avp(&a)).unwrap_or_default(),
            Ok(Err(e)) => format!("Err{}", errs_text(std::slice::from_ref(&e))),
            Err(c) => c.text(),
        }
    }
    match n {
        Nested::Repeat { times, inner } => {
            let mut last = (String::new(), Vec::new());
            let mut vios = Vec::new();
            let mut first: Option<String> = None;
            for k in 0..(*times).clamp(1, 1024) {
                last = run_nested(inner);
                vios.append(&mut last.1);
                match &first {
                    None => first = Some(last.0.clone()),
                    Some(f) if *f != last.0 && vios.len() < 8 => {
                        vios.push(format!("repetition #{k} returned {} but the first {}", cut(&last.0), cut(f)));
                    }
                    _ => {}
                }
            }
            vios.truncate(8);
            (last.0, vios)
        }
        Nested::Decode { bytes, opts } => {
            let o = opts.map(Opts::from_index);
            match decode_msg(bytes, o, &ReaderCfg::Slice, false) {
                Ok(out) => (format!("{} rem {}", result_text(&out.result), out.remaining), out.mon.violations),
                Err(c) => (c.text(), Vec::new()),
            }
        }
        Nested::Greedy { bytes } => match decode_avps(bytes, &ReaderCfg::Slice, false) {
            Ok(out) => {
                let items: Vec<String> = out
                    .items
                    .iter()
                    .map(|x| match x {
                        Ok(a) => serde_json::to_string(a).unwrap_or_default(),
                        Err(e) => errs_text(std::slice::from_ref(e)),
                    })
                    .collect();
                (format!("{:?} rem {}", items, out.remaining), out.mon.violations)
            }
            Err(c) => (c.text(), Vec::new()),
        },
        Nested::Reveal { attr, value, secret, rv } => {
            let h = AVP::Hidden(t::Hidden {
                attribute_type: *attr,
                value: value.clone(),
            });
            let rvv = t::RandomVector::from(*rv);
            (avp_text(guard(|| h.reveal(secret, &rvv))), Vec::new())
        }
        Nested::TypeRead { attr, payload } => {
            let mon = Monitor::new(step_budget(payload.len()), false);
            let m2 = mon.clone();
            let attr = *attr;
            let r = guard(move || {
                let mut r = SimSlice::new(payload, m2);
                match attr {
                    0 => t::MessageType::try_read(&mut r).map(AVP::MessageType),
                    1 => t::ResultCode::try_read(&mut r).map(AVP::ResultCode),
                    2 => t::ProtocolVersion::try_read(&mut r).map(AVP::ProtocolVersion),
                    6 => t::FirmwareRevision::try_read(&mut r).map(AVP::FirmwareRevision),
                    7 => t::HostName::try_read(&mut r).map(AVP::HostName),
                    8 => t::VendorName::try_read(&mut r).map(AVP::VendorName),
                    9 => t::AssignedTunnelId::try_read(&mut r).map(AVP::AssignedTunnelId),
                    10 => t::ReceiveWindowSize::try_read(&mut r).map(AVP::ReceiveWindowSize),
                    14 => t::AssignedSessionId::try_read(&mut r).map(AVP::AssignedSessionId),
                    15 => t::CallSerialNumber::try_read(&mut r).map(AVP::CallSerialNumber),
                    _ => t::TieBreaker::try_read(&mut r).map(AVP::TieBreaker),
                }
            });
            let v = std::mem::take(&mut mon.borrow_mut().violations);
            (avp_text(r), v)
        }
    }
}

/// A nested use for a re-entrant reader.
pub fn draw_nested(rng: &mut crate::rng::Rng) -> Nested {
    if rng.chance(1, 10) {
        let times = *rng.pick(&[2u32, 3, 4, 5, 8, 9, 16, 17, 32, 33, 64, 64, 65, 128, 256]);
        let inner = draw_nested_once(rng);
        return Nested::Repeat { times, inner: Box::new(inner) };
    }
    draw_nested_once(rng)
}

fn draw_nested_once(rng: &mut crate::rng::Rng) -> Nested {
    const TWO_OCTET: [u16; 6] = [0, 2, 6, 9, 10, 14];
    match rng.below(10) {
        0..=3 => {
            // a small control or data message under some option set; the
            // header bits the options look at are set now and then
            let mut b = if rng.chance(3, 4) {
                spec_encode(&SpecMessage::Control {
                    length: 0,
                    tunnel_id: rng.u16(),
                    session_id: rng.u16(),
                    ns: rng.u16(),
                    nr: rng.u16(),
                    avps: vec![
                        SpecAvp { attr: 0, val: Val::Code(*rng.pick(&[1u16, 2, 3, 4, 6])) },
                        SpecAvp { attr: 9, val: Val::U16(rng.u16()) },
                    ],
                })
            } else {
                let mut d = vec![0x00, 0x02, 0, 9, 0, 3];
                d.extend_from_slice(&rng.bytes(5));
                d
            };
            match rng.below(5) {
                0 => b[0] |= 0x80,
                1 => b[0] |= 0x40,
                2 => b[1] = (b[1] & 0xF0) | 3,
                3 => b[1] = (b[1] & 0x0F) | 0x30,
                _ => {}
            }
            let opts = if rng.chance(1, 5) { None } else { Some(rng.below(8) as u8) };
            Nested::Decode { bytes: b, opts }
        }
        4 | 5 => {
            // short records of the fixed-size kinds: payloads of 0-3 octets
            let mut b = Vec::new();
            for _ in 0..rng.urange(1, 3) {
                let n = rng.urange(0, 3);
                b.extend_from_slice(&crate::records::raw_record(AVP_M, 0, *rng.pick(&TWO_OCTET), &rng.bytes(n)));
            }
            Nested::Greedy { bytes: b }
        }
        6 | 7 => {
            // hidden AVP of a fixed-size kind whose recovered payload has 0-3 octets
            let attr = *rng.pick(&TWO_OCTET);
            let n = rng.urange(0, 3);
            let payload = rng.bytes(n);
            let sl = rng.urange(1, 20);
            let secret = rng.bytes(sl);
            let rvb = rng.bytes(4);
            let rv = [rvb[0], rvb[1], rvb[2], rvb[3]];
            let ll = rng.urange(0, 9);
            let lp = rng.bytes(ll);
            let conv = if rng.bool() { LenConv::Whole } else { LenConv::Value };
            let value = spec_hide(attr, &payload, &secret, &rv, &lp, &[0x5A; 16], conv).unwrap_or_default();
            Nested::Reveal { attr, value, secret, rv }
        }
        _ => {
            let n = rng.urange(0, 3);
            Nested::TypeRead {
                attr: *rng.pick(&[0u16, 2, 6, 9, 10, 14, 1, 7, 8, 15, 5]),
                payload: rng.bytes(n),
            }
        }
    }
}

// ---------------------------------------------------------------------------
// Sender side
// ---------------------------------------------------------------------------

/// Encode with the real encoder into a fresh `VecWriter`.
pub fn real_encode_msg(m: &Message<Vec<u8>>) -> Result<Vec<u8>, Caught> {
    guard(|| {
        let mut w = VecWriter::new();
        m.write(&mut w);
        w.data
    })
}

pub fn real_encode_avp(a: &AVP) -> Result<Vec<u8>, Caught> {
    guard(|| {
        let mut w = VecWriter::new();
        a.write(&mut w);
        w.data
    })
}

/// Render an error list in model terms for reports (no crate Debug text is
/// compared anywhere; this is only for human-readable details).
pub fn errs_text(e: &[DecodeError]) -> String {
    let v: Vec<String> = e
        .iter()
        .map(|x| match err_kind(x) {
            Some(k) => format!("{k:?}"),
            None => "ReadError".to_string(),
        })
        .collect();
    format!("[{}]", v.join(", "))
}

pub fn result_text(r: &Result<SpecMessage, Vec<DecodeError>>) -> String {
    match r {
        Ok(m) => {
            let s = serde_json::to_string(m).unwrap_or_default();
            if s.len() > 400 {
                format!("Ok({}...)", &s[..400])
            } else {
                format!("Ok({s})")
            }
        }
        Err(e) => format!("Err{}", errs_text(e)),
    }
}

/// A random reader configuration for a buffer of `len` octets.
pub fn draw_reader(rng: &mut crate::rng::Rng, len: usize) -> ReaderCfg {
    if rng.chance(1, 12) {
        // mostly during the first requests (flags, header), sometimes later
        let at = if rng.chance(2, 3) { rng.range(1, 6) } else { rng.range(1, 40) } as u32;
        return ReaderCfg::Reentrant {
            at,
            nested: draw_nested(rng),
        };
    }
    match rng.below(4) {
        0 => ReaderCfg::Slice,
        1 => ReaderCfg::Owned,
        _ => {
            let n = rng.urange(1, 6);
            let mut cuts = Vec::with_capacity(n);
            for _ in 0..n {
                if len > 1 {
                    // bias towards the header and the first records
                    let c = if rng.bool() {
                        rng.urange(1, len.min(24).max(2) - 1)
                    } else {
                        rng.urange(1, len - 1)
                    };
                    cuts.push(c);
                }
            }
            cuts.sort_unstable();
            cuts.dedup();
            ReaderCfg::Segmented(cuts)
        }
    }
}
