//! Receiver nodes: hand delivered octets to the real decoder through a chosen
//! reader back-end and return what happened in model terms.

use crate::conv::*;
use crate::core::*;
use crate::model::*;
use crate::seams::*;
use rl2tp::avp::AVP;
use rl2tp::common::{DecodeError, Reader, SliceReader, VecWriter};
use rl2tp::Message;

pub struct MonSnap {
    pub calls: u64,
    pub violations: Vec<String>,
    pub path: u64,
    pub touched_hi: usize,
    pub straddles: u64,
    pub log: Option<Vec<Call>>,
}

impl MonSnap {
    fn none() -> MonSnap {
        MonSnap {
            calls: 0,
            violations: Vec::new(),
            path: 0,
            touched_hi: 0,
            straddles: 0,
            log: None,
        }
    }
    fn take(m: &std::rc::Rc<std::cell::RefCell<Monitor>>) -> MonSnap {
        let mut m = m.borrow_mut();
        MonSnap {
            calls: m.calls,
            violations: std::mem::take(&mut m.violations),
            path: m.path,
            touched_hi: m.touched_hi,
            straddles: m.straddles,
            log: m.log.take(),
        }
    }
}

pub struct MsgOut {
    pub result: Result<SpecMessage, Vec<DecodeError>>,
    /// `len()` of the reader after the call
    pub remaining: usize,
    pub mon: MonSnap,
}

pub struct AvpsOut {
    pub items: Vec<Result<SpecAvp, DecodeError>>,
    pub remaining: usize,
    pub mon: MonSnap,
}

pub fn step_budget(len: usize) -> u64 {
    64 + 8 * len as u64
}

/// `opts = None` is the default entry point `Message::try_read`.
pub fn decode_msg(
    b: &[u8],
    opts: Option<Opts>,
    rcfg: &ReaderCfg,
    keep_log: bool,
) -> Result<MsgOut, Caught> {
    match rcfg {
        ReaderCfg::Real => guard(|| {
            let mut r = SliceReader::from(b);
            let res = match opts {
                Some(o) => Message::<&[u8]>::try_read_validate(&mut r, crate_opts(o)),
                None => Message::<&[u8]>::try_read(&mut r),
            };
            MsgOut {
                result: res.map(|m| from_crate_msg(&m)),
                remaining: r.len(),
                mon: MonSnap::none(),
            }
        }),
        ReaderCfg::Slice => {
            let mon = Monitor::new(step_budget(b.len()), keep_log);
            let m2 = mon.clone();
            let r = guard(move || {
                let mut r = SimSlice::new(b, m2);
                let res = match opts {
                    Some(o) => Message::<&[u8]>::try_read_validate(&mut r, crate_opts(o)),
                    None => Message::<&[u8]>::try_read(&mut r),
                };
                let out = res.map(|m| from_crate_msg(&m));
                (out, quiet_len(&r))
            });
            r.map(|(result, remaining)| MsgOut {
                result,
                remaining,
                mon: MonSnap::take(&mon),
            })
        }
        ReaderCfg::Owned | ReaderCfg::Segmented(_) => {
            let cuts: &[usize] = match rcfg {
                ReaderCfg::Segmented(c) => c,
                _ => &[],
            };
            let mon = Monitor::new(step_budget(b.len()), keep_log);
            let m2 = mon.clone();
            let r = guard(move || {
                let mut r = SimSeg::new(b, cuts, m2);
                let res = match opts {
                    Some(o) => Message::<Vec<u8>>::try_read_validate(&mut r, crate_opts(o)),
                    None => Message::<Vec<u8>>::try_read(&mut r),
                };
                let out = res.map(|m| from_crate_msg(&m));
                (out, quiet_len(&r))
            });
            r.map(|(result, remaining)| MsgOut {
                result,
                remaining,
                mon: MonSnap::take(&mon),
            })
        }
    }
}

/// `len()` that does not count against the budget (harness observation).
fn quiet_len<T, R: Reader<T>>(r: &R) -> usize {
    // the monitor counts this call; that is harmless (one call per decode,
    // identical on every back-end) and keeps the seam honest
    match guard(|| r.len()) {
        Ok(n) => n,
        Err(_) => usize::MAX,
    }
}

pub fn decode_avps(b: &[u8], rcfg: &ReaderCfg, keep_log: bool) -> Result<AvpsOut, Caught> {
    fn conv(v: Vec<Result<AVP, DecodeError>>) -> Vec<Result<SpecAvp, DecodeError>> {
        v.into_iter().map(|x| x.map(|a| from_crate_avp(&a))).collect()
    }
    match rcfg {
        ReaderCfg::Real => guard(|| {
            let mut r = SliceReader::from(b);
            let v = AVP::try_read_greedy::<&[u8]>(&mut r);
            AvpsOut {
                items: conv(v),
                remaining: r.len(),
                mon: MonSnap::none(),
            }
        }),
        ReaderCfg::Slice => {
            let mon = Monitor::new(step_budget(b.len()), keep_log);
            let m2 = mon.clone();
            let r = guard(move || {
                let mut r = SimSlice::new(b, m2);
                let v = AVP::try_read_greedy::<&[u8]>(&mut r);
                (conv(v), quiet_len(&r))
            });
            r.map(|(items, remaining)| AvpsOut {
                items,
                remaining,
                mon: MonSnap::take(&mon),
            })
        }
        ReaderCfg::Owned | ReaderCfg::Segmented(_) => {
            let cuts: &[usize] = match rcfg {
                ReaderCfg::Segmented(c) => c,
                _ => &[],
            };
            let mon = Monitor::new(step_budget(b.len()), keep_log);
            let m2 = mon.clone();
            let r = guard(move || {
                let mut r = SimSeg::new(b, cuts, m2);
                let v = AVP::try_read_greedy::<Vec<u8>>(&mut r);
                (conv(v), quiet_len(&r))
            });
            r.map(|(items, remaining)| AvpsOut {
                items,
                remaining,
                mon: MonSnap::take(&mon),
            })
        }
    }
}

// ---------------------------------------------------------------------------
// Sender side
// ---------------------------------------------------------------------------

/// Encode with the real encoder into a fresh `VecWriter`.
pub fn real_encode_msg(m: &Message<Vec<u8>>) -> Result<Vec<u8>, Caught> {
    guard(|| {
        let mut w = VecWriter::new();
        m.write(&mut w);
        w.data
    })
}

pub fn real_encode_avp(a: &AVP) -> Result<Vec<u8>, Caught> {
    guard(|| {
        let mut w = VecWriter::new();
        a.write(&mut w);
        w.data
    })
}

/// Render an error list in model terms for reports (no crate Debug text is
/// compared anywhere; this is only for human-readable details).
pub fn errs_text(e: &[DecodeError]) -> String {
    let v: Vec<String> = e
        .iter()
        .map(|x| match err_kind(x) {
            Some(k) => format!("{k:?}"),
            None => "ReadError".to_string(),
        })
        .collect();
    format!("[{}]", v.join(", "))
}

pub fn result_text(r: &Result<SpecMessage, Vec<DecodeError>>) -> String {
    match r {
        Ok(m) => {
            let s = serde_json::to_string(m).unwrap_or_default();
            if s.len() > 400 {
                format!("Ok({}...)", &s[..400])
            } else {
                format!("Ok({s})")
            }
        }
        Err(e) => format!("Err{}", errs_text(e)),
    }
}

/// A random reader configuration for a buffer of `len` octets.
pub fn draw_reader(rng: &mut crate::rng::Rng, len: usize) -> ReaderCfg {
    match rng.below(4) {
        0 => ReaderCfg::Slice,
        1 => ReaderCfg::Owned,
        _ => {
            let n = rng.urange(1, 6);
            let mut cuts = Vec::with_capacity(n);
            for _ in 0..n {
                if len > 1 {
                    // bias towards the header and the first records
                    let c = if rng.bool() {
                        rng.urange(1, len.min(24).max(2) - 1)
                    } else {
                        rng.urange(1, len - 1)
                    };
                    cuts.push(c);
                }
            }
            cuts.sort_unstable();
            cuts.dedup();
            ReaderCfg::Segmented(cuts)
        }
    }
}
