//! Constants of the code under test, harvested from the source tree the
//! checks are built from (`<repo>/src/**/*.rs`, test modules excluded):
//! integer literals, string and byte-string literals, arrays of octet
//! literals — in source order, so that constants written next to each other
//! can be used next to each other. Generators in *dictionary mode* fill
//! successive fields of one message from successive entries (a tunnel id and
//! a session id that a special case compares against sit on neighbouring
//! lines; so do a vendor id, an attribute range and a payload size).
//!
//! This is the simulator's answer to special cases keyed on magic values
//! (2^-32 .. 2^-64 for any PRNG): the values are in the tree, the checks are
//! rebuilt from the tree, so the workload can simply contain them.

use crate::rng::Rng;
use std::cell::Cell;
use std::sync::OnceLock;

pub struct Dict {
    pub ints: Vec<u64>,
    pub strs: Vec<Vec<u8>>,
    pub arrays: Vec<Vec<u8>>,
}

fn collect_files(dir: &std::path::Path, out: &mut Vec<std::path::PathBuf>) {
    let mut entries: Vec<_> = match std::fs::read_dir(dir) {
        Ok(e) => e.filter_map(|x| x.ok()).map(|x| x.path()).collect(),
        Err(_) => return,
    };
    entries.sort();
    for p in entries {
        let name = p.file_name().and_then(|n| n.to_str()).unwrap_or("").to_string();
        if p.is_dir() {
            if name != "tests" {
                collect_files(&p, out);
            }
        } else if name.ends_with(".rs") && name != "tests.rs" {
            out.push(p);
        }
    }
}

fn parse_int(tok: &str) -> Option<u64> {
    let mut t = tok.replace('_', "");
    // type suffixes
    for suf in ["usize", "isize", "u128", "i128", "u64", "i64", "u32", "i32", "u16", "i16", "u8", "i8"] {
        if let Some(x) = t.strip_suffix(suf) {
            t = x.to_string();
            break;
        }
    }
    if let Some(h) = t.strip_prefix("0x").or_else(|| t.strip_prefix("0X")) {
        u64::from_str_radix(h, 16).ok()
    } else if let Some(b) = t.strip_prefix("0b") {
        u64::from_str_radix(b, 2).ok()
    } else if !t.is_empty() && t.chars().all(|c| c.is_ascii_digit()) {
        t.parse::<u64>().ok()
    } else {
        None
    }
}

fn scan(text: &str, d: &mut Dict) {
    let b = text.as_bytes();
    let mut i = 0;
    while i < b.len() {
        let c = b[i];
        // line comments (doc comments included): constants there are prose
        if c == b'/' && i + 1 < b.len() && b[i + 1] == b'/' {
            while i < b.len() && b[i] != b'\n' {
                i += 1;
            }
            continue;
        }
        // string / byte-string literal
        if c == b'"' {
            let mut j = i + 1;
            let mut s = Vec::new();
            while j < b.len() && b[j] != b'"' {
                if b[j] == b'\\' && j + 1 < b.len() {
                    match b[j + 1] {
                        b'n' => s.push(b'\n'),
                        b't' => s.push(b'\t'),
                        b'r' => s.push(b'\r'),
                        b'0' => s.push(0),
                        b'x' if j + 3 < b.len() => {
                            if let Ok(v) = u8::from_str_radix(&text[j + 2..j + 4], 16) {
                                s.push(v);
                            }
                            j += 2;
                        }
                        other => s.push(other),
                    }
                    j += 2;
                } else {
                    s.push(b[j]);
                    j += 1;
                }
            }
            if !s.is_empty() && s.len() <= 64 && !s.contains(&b'{') && d.strs.len() < 400 && !d.strs.contains(&s) {
                d.strs.push(s);
            }
            i = j + 1;
            continue;
        }
        // char literal / lifetime: skip the quote
        if c == b'\'' {
            i += 1;
            continue;
        }
        // array of octet literals
        if c == b'[' {
            let mut j = i + 1;
            let mut vals: Vec<u8> = Vec::new();
            let mut ok = true;
            let mut tok = String::new();
            while j < b.len() && j < i + 600 {
                let ch = b[j] as char;
                if ch == ']' {
                    break;
                }
                if ch == ',' {
                    if !tok.trim().is_empty() {
                        match parse_int(tok.trim()) {
                            Some(v) if v <= 255 => vals.push(v as u8),
                            _ => {
                                ok = false;
                                break;
                            }
                        }
                    }
                    tok.clear();
                } else if ch.is_ascii_alphanumeric() || ch == '_' || ch.is_ascii_whitespace() {
                    tok.push(ch);
                } else {
                    ok = false;
                    break;
                }
                j += 1;
            }
            if ok && j < b.len() && b[j] == b']' {
                if !tok.trim().is_empty() {
                    match parse_int(tok.trim()) {
                        Some(v) if v <= 255 => vals.push(v as u8),
                        _ => ok = false,
                    }
                }
                if ok && vals.len() >= 2 && vals.len() <= 64 && d.arrays.len() < 200 && !d.arrays.contains(&vals) {
                    d.arrays.push(vals);
                }
            }
            // fall through: the elements are also scanned as integers
        }
        // integer literal (not part of an identifier)
        if c.is_ascii_digit() && (i == 0 || !(b[i - 1].is_ascii_alphanumeric() || b[i - 1] == b'_' || b[i - 1] == b'.')) {
            let mut j = i;
            while j < b.len() && (b[j].is_ascii_alphanumeric() || b[j] == b'_') {
                j += 1;
            }
            // not a float, not a tuple index
            if !(j < b.len() && b[j] == b'.' && j + 1 < b.len() && b[j + 1].is_ascii_digit()) {
                if let Some(v) = parse_int(&text[i..j]) {
                    if d.ints.len() < 1500 && !d.ints.contains(&v) {
                        d.ints.push(v);
                    }
                }
            }
            i = j;
            continue;
        }
        i += 1;
    }
}

pub fn dict() -> &'static Dict {
    static D: OnceLock<Dict> = OnceLock::new();
    D.get_or_init(|| {
        let mut d = Dict {
            ints: Vec::new(),
            strs: Vec::new(),
            arrays: Vec::new(),
        };
        let mut files = Vec::new();
        collect_files(&crate::engine::repo_root().join("src"), &mut files);
        for f in files {
            if let Ok(t) = std::fs::read_to_string(&f) {
                scan(&t, &mut d);
            }
        }
        if d.ints.is_empty() {
            d.ints.push(0);
        }
        d
    })
}

thread_local! {
    /// cursor into `ints` while a generator is in dictionary mode
    static CURSOR: Cell<Option<usize>> = const { Cell::new(None) };
}

/// Run `f` in dictionary mode with probability 1/`one_in`.
pub fn maybe_dict_mode<R>(rng: &mut Rng, one_in: u64, f: impl FnOnce(&mut Rng) -> R) -> R {
    let was = CURSOR.with(|c| c.get());
    if was.is_none() && rng.chance(1, one_in) {
        let n = dict().ints.len();
        CURSOR.with(|c| c.set(Some(rng.usize_below(n))));
        let r = f(rng);
        CURSOR.with(|c| c.set(None));
        r
    } else {
        f(rng)
    }
}

pub fn active() -> bool {
    CURSOR.with(|c| c.get()).is_some()
}

/// In dictionary mode: the next constant that fits `bits` (sometimes one
/// off, for comparisons written with < or <=), three times out of four.
pub fn next_int(rng: &mut Rng, bits: u32) -> Option<u64> {
    let cur = CURSOR.with(|c| c.get())?;
    if rng.chance(1, 4) {
        return None;
    }
    let d = dict();
    let n = d.ints.len();
    for k in 0..n.min(12) {
        let v = d.ints[(cur + k) % n];
        if bits >= 64 || v < (1u64 << bits) {
            CURSOR.with(|c| c.set(Some((cur + k + 1) % n)));
            return Some(match rng.below(8) {
                0 => v.wrapping_sub(1) & mask(bits),
                1 => v.wrapping_add(1) & mask(bits),
                _ => v,
            });
        }
    }
    None
}

fn mask(bits: u32) -> u64 {
    if bits >= 64 {
        u64::MAX
    } else {
        (1u64 << bits) - 1
    }
}

/// A string constant (valid UTF-8 when `text`), at most `max` octets.
pub fn pick_str(rng: &mut Rng, max: usize, text: bool) -> Option<Vec<u8>> {
    let d = dict();
    let c: Vec<&Vec<u8>> = d
        .strs
        .iter()
        .filter(|s| s.len() <= max && (!text || std::str::from_utf8(s).is_ok()))
        .collect();
    if c.is_empty() {
        None
    } else {
        Some((*rng.pick(&c)).clone())
    }
}

pub fn pick_array(rng: &mut Rng) -> Option<Vec<u8>> {
    let d = dict();
    if d.arrays.is_empty() {
        None
    } else {
        Some(rng.pick(&d.arrays).clone())
    }
}
