//! The two seams the simulator owns: harness implementations of the public
//! `Reader<T>` and `Writer` traits. Both are *conforming* implementations
//! (no spurious `None`, no short read); what they add is a contract monitor,
//! a step clock, a call log, and alternative back-ends (owned copies,
//! scatter/gather segments, paged writer).

use rl2tp::common::{Reader, VecWriter, Writer};
use serde::{Deserialize, Serialize};
use std::cell::RefCell;
use std::rc::Rc;

/// Panic payload used by the step-clock watchdog to unwind out of a decode
/// that has lost its progress guarantee.
pub struct StepBudgetExceeded;

#[derive(Clone, Copy, Debug, PartialEq, Eq)]
#[repr(u8)]
pub enum Method {
    IsEmpty = 1,
    Len = 2,
    Subreader = 3,
    Bytes = 4,
    U8 = 5,
    U16 = 6,
    U32 = 7,
    U64 = 8,
    Skip = 9,
}

#[derive(Clone, Debug)]
pub struct Call {
    pub method: Method,
    pub arg: usize,
    pub remaining_before: usize,
    pub abs: usize,
}

#[derive(Default)]
pub struct Monitor {
    pub calls: u64,
    pub budget: u64,
    pub violations: Vec<String>,
    /// rolling hash of (method, guard outcome) — the decode path
    pub path: u64,
    pub log: Option<Vec<Call>>,
    /// one past the highest absolute octet index any call addressed
    pub touched_hi: usize,
    pub straddles: u64,
    pub bytes_none: u64,
    /// (call index, action): run once, in the middle of that reader call —
    /// a reader that uses the library itself while serving a request
    pub reentry: Option<(u64, Box<dyn FnOnce()>)>,
    /// requests that a `Refusing` reader declined: (absolute offset, length)
    pub refusals: Vec<(usize, usize)>,
    /// discontinuities of a `Refusing` reader's storage
    pub refuse_cuts: Vec<usize>,
}

impl Monitor {
    pub fn new(budget: u64, keep_log: bool) -> Rc<RefCell<Monitor>> {
        Rc::new(RefCell::new(Monitor {
            budget,
            path: 0xcbf2_9ce4_8422_2325,
            log: if keep_log { Some(Vec::new()) } else { None },
            ..Default::default()
        }))
    }
}

fn note(mon: &Rc<RefCell<Monitor>>, method: Method, arg: usize, remaining: usize, abs: usize) {
    let action = {
        let mut m = mon.borrow_mut();
        match &m.reentry {
            Some((at, _)) if *at == m.calls + 1 => m.reentry.take().map(|x| x.1),
            _ => None,
        }
    };
    if let Some(f) = action {
        f();
    }
    let mut m = mon.borrow_mut();
    m.calls += 1;
    // path: method + how the argument relates to what remains
    let rel: u8 = match method {
        Method::IsEmpty | Method::Len => (remaining == 0) as u8,
        _ => {
            if arg < remaining {
                0
            } else if arg == remaining {
                1
            } else {
                2
            }
        }
    };
    m.path ^= ((method as u64) << 8) | rel as u64;
    m.path = m.path.wrapping_mul(0x0000_0100_0000_01B3);
    if let Some(log) = m.log.as_mut() {
        if log.len() < 4096 {
            log.push(Call {
                method,
                arg,
                remaining_before: remaining,
                abs,
            });
        }
    }
    if m.budget != 0 && m.calls > m.budget {
        drop(m);
        std::panic::panic_any(StepBudgetExceeded);
    }
}

fn violate(mon: &Rc<RefCell<Monitor>>, what: String) {
    let mut m = mon.borrow_mut();
    if m.violations.len() < 8 {
        let idx = m.calls;
        m.violations.push(format!("call #{idx}: {what}"));
    }
}

fn touch(mon: &Rc<RefCell<Monitor>>, hi: usize) {
    let mut m = mon.borrow_mut();
    if hi > m.touched_hi {
        m.touched_hi = hi;
    }
}

// ---------------------------------------------------------------------------
// Contiguous borrowed back-end: T = &[u8]
// ---------------------------------------------------------------------------

pub struct SimSlice<'a> {
    data: &'a [u8],
    abs: usize,
    mon: Rc<RefCell<Monitor>>,
}

impl<'a> SimSlice<'a> {
    pub fn new(data: &'a [u8], mon: Rc<RefCell<Monitor>>) -> Self {
        SimSlice { data, abs: 0, mon }
    }
    fn fixed(&mut self, m: Method, n: usize) -> u64 {
        note(&self.mon, m, n, self.data.len(), self.abs);
        if self.data.len() < n {
            violate(
                &self.mon,
                format!(
                    "{:?} needs {} octets, {} remain (absolute offset {})",
                    m,
                    n,
                    self.data.len(),
                    self.abs
                ),
            );
            self.abs += self.data.len();
            self.data = &self.data[self.data.len()..];
            return 0;
        }
        let mut v = 0u64;
        for b in &self.data[..n] {
            v = (v << 8) | *b as u64;
        }
        touch(&self.mon, self.abs + n);
        self.data = &self.data[n..];
        self.abs += n;
        v
    }
}

impl<'a> Reader<&'a [u8]> for SimSlice<'a> {
    fn is_empty(&self) -> bool {
        note(&self.mon, Method::IsEmpty, 0, self.data.len(), self.abs);
        self.data.is_empty()
    }
    fn len(&self) -> usize {
        note(&self.mon, Method::Len, 0, self.data.len(), self.abs);
        self.data.len()
    }
    fn subreader(&mut self, length: usize) -> Self {
        note(&self.mon, Method::Subreader, length, self.data.len(), self.abs);
        let mut n = length;
        if n > self.data.len() {
            violate(
                &self.mon,
                format!(
                    "subreader({}) with {} remaining (absolute offset {})",
                    length,
                    self.data.len(),
                    self.abs
                ),
            );
            n = self.data.len();
        }
        let sub = SimSlice {
            data: &self.data[..n],
            abs: self.abs,
            mon: self.mon.clone(),
        };
        self.data = &self.data[n..];
        self.abs += n;
        sub
    }
    fn bytes(&mut self, length: usize) -> Option<&'a [u8]> {
        note(&self.mon, Method::Bytes, length, self.data.len(), self.abs);
        if length > self.data.len() {
            self.mon.borrow_mut().bytes_none += 1;
            return None;
        }
        if length > 1 {
            // a zero-copy reader over non-contiguous storage cannot lend a
            // span that crosses a discontinuity: injected read fault
            let (a, e) = (self.abs, self.abs + length);
            let mut m = self.mon.borrow_mut();
            if m.refuse_cuts.iter().any(|&c| a < c && c < e) {
                if m.refusals.len() < 64 {
                    m.refusals.push((a, length));
                }
                return None;
            }
        }
        let r = &self.data[..length];
        touch(&self.mon, self.abs + length);
        self.data = &self.data[length..];
        self.abs += length;
        Some(r)
    }
    unsafe fn read_u8_unchecked(&mut self) -> u8 {
        self.fixed(Method::U8, 1) as u8
    }
    unsafe fn read_u16_be_unchecked(&mut self) -> u16 {
        self.fixed(Method::U16, 2) as u16
    }
    unsafe fn read_u32_be_unchecked(&mut self) -> u32 {
        self.fixed(Method::U32, 4) as u32
    }
    unsafe fn read_u64_be_unchecked(&mut self) -> u64 {
        self.fixed(Method::U64, 8)
    }
    fn skip_bytes(&mut self, length: usize) {
        note(&self.mon, Method::Skip, length, self.data.len(), self.abs);
        let mut n = length;
        if n > self.data.len() {
            violate(
                &self.mon,
                format!(
                    "skip_bytes({}) with {} remaining (absolute offset {})",
                    length,
                    self.data.len(),
                    self.abs
                ),
            );
            n = self.data.len();
        }
        self.data = &self.data[n..];
        self.abs += n;
    }
}

// ---------------------------------------------------------------------------
// Segmented / owning back-end: T = Vec<u8>
// ---------------------------------------------------------------------------

/// The octets live in separately allocated chunks; `bytes()` hands out a
/// fresh copy, `subreader()` is a window over the same chunks, fixed-width
/// reads gather across chunk boundaries. One chunk = the "Owned" back-end.
pub struct SimSeg {
    chunks: Rc<Vec<Vec<u8>>>,
    /// start offset of each chunk, plus the total at the end
    starts: Rc<Vec<usize>>,
    pos: usize,
    end: usize,
    mon: Rc<RefCell<Monitor>>,
}

impl SimSeg {
    /// `cuts` are the chunk boundaries (offsets into `data`, any order,
    /// out-of-range and duplicate values ignored).
    pub fn new(data: &[u8], cuts: &[usize], mon: Rc<RefCell<Monitor>>) -> Self {
        let mut c: Vec<usize> = cuts
            .iter()
            .copied()
            .filter(|&x| x > 0 && x < data.len())
            .collect();
        c.sort_unstable();
        c.dedup();
        let mut chunks = Vec::new();
        let mut starts = Vec::new();
        let mut prev = 0;
        for &x in c.iter().chain(std::iter::once(&data.len())) {
            starts.push(prev);
            chunks.push(data[prev..x].to_vec());
            prev = x;
        }
        starts.push(data.len());
        SimSeg {
            chunks: Rc::new(chunks),
            starts: Rc::new(starts),
            pos: 0,
            end: data.len(),
            mon,
        }
    }
    fn remaining(&self) -> usize {
        self.end - self.pos
    }
    fn chunk_of(&self, off: usize) -> usize {
        // last chunk whose start <= off
        let i = self.starts[..self.chunks.len()].partition_point(|&s| s <= off);
        i.saturating_sub(1)
    }
    fn gather(&self, from: usize, n: usize) -> Vec<u8> {
        let mut out = Vec::with_capacity(n);
        if n == 0 {
            return out;
        }
        let mut ci = self.chunk_of(from);
        let mut off = from - self.starts[ci];
        while out.len() < n {
            let ch = &self.chunks[ci];
            let take = (n - out.len()).min(ch.len() - off);
            out.extend_from_slice(&ch[off..off + take]);
            ci += 1;
            off = 0;
        }
        out
    }
    fn fixed(&mut self, m: Method, n: usize) -> u64 {
        note(&self.mon, m, n, self.remaining(), self.pos);
        if self.remaining() < n {
            violate(
                &self.mon,
                format!(
                    "{:?} needs {} octets, {} remain (absolute offset {})",
                    m,
                    n,
                    self.remaining(),
                    self.pos
                ),
            );
            self.pos = self.end;
            return 0;
        }
        if n > 1 && self.chunk_of(self.pos) != self.chunk_of(self.pos + n - 1) {
            self.mon.borrow_mut().straddles += 1;
        }
        let g = self.gather(self.pos, n);
        let mut v = 0u64;
        for b in g {
            v = (v << 8) | b as u64;
        }
        touch(&self.mon, self.pos + n);
        self.pos += n;
        v
    }
}

impl Reader<Vec<u8>> for SimSeg {
    fn is_empty(&self) -> bool {
        note(&self.mon, Method::IsEmpty, 0, self.remaining(), self.pos);
        self.remaining() == 0
    }
    fn len(&self) -> usize {
        note(&self.mon, Method::Len, 0, self.remaining(), self.pos);
        self.remaining()
    }
    fn subreader(&mut self, length: usize) -> Self {
        note(&self.mon, Method::Subreader, length, self.remaining(), self.pos);
        let mut n = length;
        if n > self.remaining() {
            violate(
                &self.mon,
                format!(
                    "subreader({}) with {} remaining (absolute offset {})",
                    length,
                    self.remaining(),
                    self.pos
                ),
            );
            n = self.remaining();
        }
        let sub = SimSeg {
            chunks: self.chunks.clone(),
            starts: self.starts.clone(),
            pos: self.pos,
            end: self.pos + n,
            mon: self.mon.clone(),
        };
        self.pos += n;
        sub
    }
    fn bytes(&mut self, length: usize) -> Option<Vec<u8>> {
        note(&self.mon, Method::Bytes, length, self.remaining(), self.pos);
        if length > self.remaining() {
            self.mon.borrow_mut().bytes_none += 1;
            return None;
        }
        let g = self.gather(self.pos, length);
        touch(&self.mon, self.pos + length);
        self.pos += length;
        Some(g)
    }
    unsafe fn read_u8_unchecked(&mut self) -> u8 {
        self.fixed(Method::U8, 1) as u8
    }
    unsafe fn read_u16_be_unchecked(&mut self) -> u16 {
        self.fixed(Method::U16, 2) as u16
    }
    unsafe fn read_u32_be_unchecked(&mut self) -> u32 {
        self.fixed(Method::U32, 4) as u32
    }
    unsafe fn read_u64_be_unchecked(&mut self) -> u64 {
        self.fixed(Method::U64, 8)
    }
    fn skip_bytes(&mut self, length: usize) {
        note(&self.mon, Method::Skip, length, self.remaining(), self.pos);
        let mut n = length;
        if n > self.remaining() {
            violate(
                &self.mon,
                format!(
                    "skip_bytes({}) with {} remaining (absolute offset {})",
                    length,
                    self.remaining(),
                    self.pos
                ),
            );
            n = self.remaining();
        }
        self.pos += n;
    }
}

// ---------------------------------------------------------------------------
// Sparse back-end: an honest reader over an astronomically long input
// ---------------------------------------------------------------------------

/// `head` followed by zero octets up to `end` (a sparse file, a generated
/// source): `len()` is honest and huge, every request that can be
/// materialised is served exactly. `T = Vec<u8>`.
pub struct SimSparse {
    head: Rc<Vec<u8>>,
    pos: usize,
    end: usize,
    mon: Rc<RefCell<Monitor>>,
}

/// Largest span a sparse reader materialises; a longer `bytes()` request is
/// declined (no decoder has a use for one: every wire length is 16 bits).
pub const SPARSE_SPAN_MAX: usize = 1 << 20;

impl SimSparse {
    pub fn new(head: &[u8], total: usize, mon: Rc<RefCell<Monitor>>) -> Self {
        SimSparse {
            head: Rc::new(head.to_vec()),
            pos: 0,
            end: total.max(head.len()),
            mon,
        }
    }
    fn remaining(&self) -> usize {
        self.end - self.pos
    }
    fn gather(&self, from: usize, n: usize) -> Vec<u8> {
        let mut out = vec![0u8; n];
        if from < self.head.len() {
            let k = (self.head.len() - from).min(n);
            out[..k].copy_from_slice(&self.head[from..from + k]);
        }
        out
    }
    fn fixed(&mut self, m: Method, n: usize) -> u64 {
        note(&self.mon, m, n, self.remaining(), self.pos);
        if self.remaining() < n {
            violate(
                &self.mon,
                format!("{:?} needs {} octets, {} remain (absolute offset {})", m, n, self.remaining(), self.pos),
            );
            self.pos = self.end;
            return 0;
        }
        let mut v = 0u64;
        for b in self.gather(self.pos, n) {
            v = (v << 8) | b as u64;
        }
        touch(&self.mon, self.pos + n);
        self.pos += n;
        v
    }
}

impl Reader<Vec<u8>> for SimSparse {
    fn is_empty(&self) -> bool {
        note(&self.mon, Method::IsEmpty, 0, self.remaining(), self.pos);
        self.remaining() == 0
    }
    fn len(&self) -> usize {
        note(&self.mon, Method::Len, 0, self.remaining(), self.pos);
        self.remaining()
    }
    fn subreader(&mut self, length: usize) -> Self {
        note(&self.mon, Method::Subreader, length, self.remaining(), self.pos);
        let mut n = length;
        if n > self.remaining() {
            violate(
                &self.mon,
                format!("subreader({}) with {} remaining (absolute offset {})", length, self.remaining(), self.pos),
            );
            n = self.remaining();
        }
        let sub = SimSparse {
            head: self.head.clone(),
            pos: self.pos,
            end: self.pos + n,
            mon: self.mon.clone(),
        };
        self.pos += n;
        sub
    }
    fn bytes(&mut self, length: usize) -> Option<Vec<u8>> {
        note(&self.mon, Method::Bytes, length, self.remaining(), self.pos);
        if length > self.remaining() {
            self.mon.borrow_mut().bytes_none += 1;
            return None;
        }
        if length > SPARSE_SPAN_MAX {
            let mut m = self.mon.borrow_mut();
            if m.refusals.len() < 64 {
                m.refusals.push((self.pos, length));
            }
            return None;
        }
        let g = self.gather(self.pos, length);
        touch(&self.mon, self.pos + length);
        self.pos += length;
        Some(g)
    }
    unsafe fn read_u8_unchecked(&mut self) -> u8 {
        self.fixed(Method::U8, 1) as u8
    }
    unsafe fn read_u16_be_unchecked(&mut self) -> u16 {
        self.fixed(Method::U16, 2) as u16
    }
    unsafe fn read_u32_be_unchecked(&mut self) -> u32 {
        self.fixed(Method::U32, 4) as u32
    }
    unsafe fn read_u64_be_unchecked(&mut self) -> u64 {
        self.fixed(Method::U64, 8)
    }
    fn skip_bytes(&mut self, length: usize) {
        note(&self.mon, Method::Skip, length, self.remaining(), self.pos);
        let mut n = length;
        if n > self.remaining() {
            violate(
                &self.mon,
                format!("skip_bytes({}) with {} remaining (absolute offset {})", length, self.remaining(), self.pos),
            );
            n = self.remaining();
        }
        self.pos += n;
    }
}

/// Which reader sits behind the seam in a delivery (materialised in cases).
#[derive(Clone, Debug, PartialEq, Eq, Serialize, Deserialize)]
pub enum ReaderCfg {
    /// the crate's own `SliceReader`
    Real,
    /// monitored contiguous borrowed view
    Slice,
    /// monitored, `T = Vec<u8>`, one chunk
    Owned,
    /// monitored, `T = Vec<u8>`, chunk boundaries
    Segmented(Vec<usize>),
    /// monitored contiguous view that, while serving its `at`-th request,
    /// uses the library itself for something else on the same thread
    Reentrant { at: u32, nested: Nested },
    /// FAULT INJECTION, not a conforming reader: a zero-copy view of
    /// non-contiguous storage whose `bytes(n)` declines (returns `None`,
    /// consumes nothing) when the span would cross one of these offsets.
    /// Results are judged by the relaxed read-fault oracle only.
    Refusing(Vec<usize>),
    /// the delivered octets followed by zero octets up to this total length
    /// (an honest reader over a sparse source of astronomical size)
    Sparse(u64),
}

/// What a re-entrant reader does in the middle of a request.
#[derive(Clone, Debug, PartialEq, Eq, Serialize, Deserialize)]
pub enum Nested {
    /// `inner`, `times` times in a row within the one reader call (a reader
    /// that works through a backlog: tables and rings of recent calls wrap)
    Repeat { times: u32, inner: Box<Nested> },
    /// decode a whole message (`opts = None`: `Message::try_read`)
    Decode {
        #[serde(with = "crate::model::hexser")]
        bytes: Vec<u8>,
        opts: Option<u8>,
    },
    /// `AVP::try_read_greedy`
    Greedy {
        #[serde(with = "crate::model::hexser")]
        bytes: Vec<u8>,
    },
    /// `AVP::reveal` of a hidden AVP
    Reveal {
        attr: u16,
        #[serde(with = "crate::model::hexser")]
        value: Vec<u8>,
        #[serde(with = "crate::model::hexser")]
        secret: Vec<u8>,
        rv: [u8; 4],
    },
    /// the public per-type decoder of `attr` on these payload octets
    TypeRead {
        attr: u16,
        #[serde(with = "crate::model::hexser")]
        payload: Vec<u8>,
    },
}

impl ReaderCfg {
    pub fn name(&self) -> &'static str {
        match self {
            ReaderCfg::Real => "real",
            ReaderCfg::Slice => "slice",
            ReaderCfg::Owned => "owned",
            ReaderCfg::Segmented(_) => "segmented",
            ReaderCfg::Reentrant { .. } => "re-entrant",
            ReaderCfg::Refusing(_) => "refusing",
            ReaderCfg::Sparse(_) => "sparse",
        }
    }
}

// ---------------------------------------------------------------------------
// Writer seam
// ---------------------------------------------------------------------------

#[derive(Clone, Debug, PartialEq, Eq, Serialize, Deserialize)]
pub enum WriterCfg {
    /// the crate's own `VecWriter`
    Real,
    /// monitored flat vector
    Vec,
    /// monitored rope of fixed-size pages
    Paged(usize),
    /// monitored flat vector that, on its n-th call, runs a caller-supplied
    /// action (used for a re-entrant encode of the same value: what a
    /// callback, a signal handler or a logging writer may do)
    Reentrant(u8),
    /// as `Reentrant`, nested: the writer of the nested encode re-enters
    /// too, `depth` levels deep (call index, depth)
    ReentrantDeep(u8, u8),
    /// monitored flat vector that stands for the patchable tail of a long
    /// stream: `len()` reports `base` octets more than it holds (what a log
    /// or stream writer that has flushed `base` octets reports); only the
    /// tail can be patched
    Based(u64),
    /// monitored flat vector with room for this many octets beyond its
    /// prefix: the append that does not fit panics (a full device; the
    /// trait has no other way to refuse)
    Full(usize),
}

/// Panic payload of a `Full` writer.
pub struct WriterFull;

impl WriterCfg {
    pub fn name(&self) -> &'static str {
        match self {
            WriterCfg::Real => "real",
            WriterCfg::Vec => "vec",
            WriterCfg::Paged(_) => "paged",
            WriterCfg::Reentrant(_) => "reentrant",
            WriterCfg::ReentrantDeep(..) => "reentrant-nested",
            WriterCfg::Based(_) => "based",
            WriterCfg::Full(_) => "full",
        }
    }
}

#[derive(Clone, Debug)]
pub struct Patch {
    pub offset: usize,
    pub bytes: Vec<u8>,
    pub len_at_patch: usize,
}

pub struct SimWriter {
    page: usize,
    pages: Vec<Vec<u8>>,
    len: usize,
    real: Option<VecWriter>,
    pub value_start: usize,
    pub violations: Vec<String>,
    pub patches: Vec<Patch>,
    pub calls: u64,
    pub straddles: u64,
    /// (call index within the current value, action)
    pub reentry: Option<(u64, Box<dyn FnMut()>)>,
    /// how many consecutive calls, from the `at`-th on, perform the action
    pub reentry_span: u64,
    /// `Reentrant*` configuration: (at, depth)
    pub reentrant: Option<(u8, u8)>,
    calls_in_value: u64,
    /// octets that `len()` reports in front of what is held
    pub base: usize,
    /// remaining room (`Full` writers)
    room: Option<usize>,
}

impl SimWriter {
    pub fn new(cfg: &WriterCfg, prefix: &[u8]) -> Self {
        let mut w = SimWriter {
            page: match cfg {
                WriterCfg::Paged(p) => (*p).max(1),
                _ => usize::MAX,
            },
            pages: Vec::new(),
            len: 0,
            real: match cfg {
                WriterCfg::Real => Some(VecWriter::new()),
                _ => None,
            },
            value_start: 0,
            violations: Vec::new(),
            patches: Vec::new(),
            calls: 0,
            straddles: 0,
            reentry: None,
            reentry_span: 1,
            reentrant: match cfg {
                WriterCfg::Reentrant(at) => Some((*at, 1)),
                WriterCfg::ReentrantDeep(at, d) => Some((*at, (*d).max(1))),
                _ => None,
            },
            calls_in_value: 0,
            base: match cfg {
                WriterCfg::Based(b) => *b as usize,
                _ => 0,
            },
            room: None,
        };
        w.append(prefix);
        if let WriterCfg::Full(n) = cfg {
            w.room = Some(*n);
        }
        w.calls = 0;
        w.value_start = w.cur_len();
        w
    }

    /// Mark the start of the next top-level encode call.
    pub fn begin_value(&mut self) {
        self.value_start = self.cur_len();
        self.calls_in_value = 0;
    }

    fn tick(&mut self) {
        self.calls_in_value += 1;
        let span = self.reentry_span.max(1);
        if let Some((at, action)) = self.reentry.as_mut() {
            if *at <= self.calls_in_value && self.calls_in_value < *at + span {
                action();
            }
        }
    }

    fn cur_len(&self) -> usize {
        match &self.real {
            Some(r) => r.data.len(),
            None => self.base.wrapping_add(self.len),
        }
    }

    fn append(&mut self, bytes: &[u8]) {
        self.calls += 1;
        self.tick();
        if let Some(r) = self.real.as_mut() {
            r.write_bytes(bytes);
            return;
        }
        if let Some(room) = self.room.as_mut() {
            if bytes.len() > *room {
                std::panic::panic_any(WriterFull);
            }
            *room -= bytes.len();
        }
        let mut rest = bytes;
        while !rest.is_empty() {
            let need_new = match self.pages.last() {
                None => true,
                Some(p) => p.len() >= self.page,
            };
            if need_new {
                self.pages.push(Vec::new());
            }
            let p = self.pages.last_mut().unwrap();
            let room = if self.page == usize::MAX {
                rest.len()
            } else {
                self.page - p.len()
            };
            let take = room.min(rest.len());
            p.extend_from_slice(&rest[..take]);
            rest = &rest[take..];
            self.len += take;
        }
    }

    pub fn contents(&self) -> Vec<u8> {
        match &self.real {
            Some(r) => r.data.clone(),
            None => {
                let mut v = Vec::with_capacity(self.len);
                for p in &self.pages {
                    v.extend_from_slice(p);
                }
                v
            }
        }
    }
}

impl Writer for SimWriter {
    fn is_empty(&self) -> bool {
        self.cur_len() == 0
    }
    fn len(&self) -> usize {
        self.cur_len()
    }
    fn write_bytes(&mut self, bytes: &[u8]) {
        self.append(bytes);
    }
    fn write_bytes_at(&mut self, bytes: &[u8], offset: usize) {
        self.calls += 1;
        self.tick();
        let len = self.cur_len();
        self.patches.push(Patch {
            offset,
            bytes: bytes.to_vec(),
            len_at_patch: len,
        });
        let end = offset.checked_add(bytes.len());
        let inside_value = offset >= self.value_start && end.map_or(false, |e| e <= len);
        if !inside_value {
            if self.violations.len() < 8 {
                self.violations.push(format!(
                    "write_bytes_at(len {}, offset {}) outside the value being encoded [{}, {})",
                    bytes.len(),
                    offset,
                    self.value_start,
                    len
                ));
            }
        }
        if let Some(r) = self.real.as_mut() {
            // the real writer refuses (panics) by itself when out of range
            r.write_bytes_at(bytes, offset);
            return;
        }
        // apply whatever lies inside the buffer, so that corruption of
        // earlier content is also visible in the final octets
        let offset = match offset.checked_sub(self.base) {
            Some(o) => o,
            None => return, // in the flushed part: reported above, nothing to apply
        };
        if self.page == usize::MAX {
            if let Some(p) = self.pages.first_mut() {
                for (i, b) in bytes.iter().enumerate() {
                    if let Some(slot) = offset.checked_add(i).and_then(|o| p.get_mut(o)) {
                        *slot = *b;
                    }
                }
            }
        } else {
            let mut pages_touched = std::collections::BTreeSet::new();
            for (i, b) in bytes.iter().enumerate() {
                if let Some(o) = offset.checked_add(i) {
                    if o < self.len {
                        let pi = o / self.page;
                        pages_touched.insert(pi);
                        self.pages[pi][o % self.page] = *b;
                    }
                }
            }
            if pages_touched.len() > 1 {
                self.straddles += 1;
            }
        }
    }
    fn write_u8(&mut self, value: u8) {
        self.append(&[value]);
    }
    fn write_u16_be(&mut self, value: u16) {
        self.append(&value.to_be_bytes());
    }
    fn write_u32_be(&mut self, value: u32) {
        self.append(&value.to_be_bytes());
    }
    fn write_u64_be(&mut self, value: u64) {
        self.append(&value.to_be_bytes());
    }
}
