//! `selftest`: proves the harness before its verdicts are trusted —
//! reference-model sanity (MD5 against RFC 1321 and against the md5 crate;
//! reference decoder against the repository's own octet vectors) and
//! determinism of every check (same digest across repeated executions and
//! across worker counts 1 and 16).

use crate::conv::*;
use crate::core::*;
use crate::engine;
use crate::model::*;
use crate::rng::Rng;
use rl2tp::common::SliceReader;
use rl2tp::Message;

fn extract_vectors(src: &str) -> Vec<Vec<u8>> {
    let mut out = Vec::new();
    let mut rest = src;
    while let Some(i) = rest.find("vec![") {
        rest = &rest[i + 5..];
        let end = match rest.find(']') {
            Some(e) => e,
            None => break,
        };
        let body = &rest[..end];
        let mut v = Vec::new();
        let mut ok = true;
        for line in body.lines() {
            let code = line.split("//").next().unwrap_or("");
            for tok in code.split(|c: char| c == ',' || c.is_whitespace()) {
                let tok = tok.trim();
                if tok.is_empty() {
                    continue;
                }
                match tok.strip_prefix("0x").and_then(|h| u8::from_str_radix(h, 16).ok()) {
                    Some(b) => v.push(b),
                    None => ok = false,
                }
            }
        }
        if ok && v.len() >= 12 && v[0] == 0x13 && v[1] == 0x20 {
            out.push(v);
        }
        rest = &rest[end..];
    }
    out
}

pub fn selftest_main(full: bool) -> i32 {
    let mut bad = 0;
    // (a) model self-check
    match selfcheck() {
        Ok(()) => println!("selftest: model self-check (RFC 1321 A.5 vectors, UTF-8 validator, canonical header) ok"),
        Err(e) => {
            println!("SELFTEST-FAIL model self-check: {e}");
            bad += 1;
        }
    }
    // the clock seam, in a process of its own (this one keeps real time)
    match std::process::Command::new(std::env::current_exe().unwrap()).arg("clock-selftest").output() {
        Ok(o) if o.status.success() => println!("selftest: {}", String::from_utf8_lossy(&o.stdout).trim()),
        Ok(o) => {
            println!("SELFTEST-FAIL {}", String::from_utf8_lossy(&o.stdout).trim());
            bad += 1;
        }
        Err(e) => {
            println!("SELFTEST-FAIL clock seam: {e}");
            bad += 1;
        }
    }
    // the Inside environment: the case really runs in the middle of the
    // outer call (once), and after it when the outer call is shorter
    {
        use crate::env::{inside, Outer};
        let mut report = Vec::new();
        let mut ok = true;
        for outer in [Outer::EncodeControl, Outer::EncodeAvp, Outer::DecodeControl, Outer::Greedy] {
            let mut nested_upto = 0u8;
            for at in 1..=60u8 {
                let mut ran = 0;
                // (a control encode with the library unlocked succeeds: the
                // nested use is an ordinary, complete call)
                let r = inside(outer, at, || {
                    ran += 1;
                    let mut r = SliceReader::from(&[0x13u8, 0x20, 0, 12, 0, 1, 0, 2, 0, 3, 0, 4][..]);
                    Message::<&[u8]>::try_read(&mut r).is_ok()
                });
                if ran != 1 || !r {
                    ok = false;
                }
                if at == nested_upto + 1 && crate::env::last_inside_was_nested() {
                    nested_upto = at;
                }
            }
            if nested_upto < 5 {
                ok = false;
            }
            report.push(format!("{outer:?} 1..={nested_upto}"));
        }
        if ok {
            println!("selftest: Inside environment runs the case once, nested in seam calls {}", report.join(", "));
        } else {
            println!("SELFTEST-FAIL Inside environment: {}", report.join(", "));
            bad += 1;
        }
    }
    match crate::collisions::verify_keystreams() {
        Ok(n) => println!("selftest: {n} key streams with a zero word verified"),
        Err(e) => {
            println!("SELFTEST-FAIL key streams: {e}");
            bad += 1;
        }
    }
    match crate::collisions::verify() {
        Ok(n) => println!("selftest: {n} colliding secret / message pairs collide under their fingerprints"),
        Err(e) => {
            println!("SELFTEST-FAIL collisions: {e}");
            bad += 1;
        }
    }
    // (b) model MD5 against the md5 crate (second opinion on the model only)
    {
        let mut rng = Rng::new(0x5e1f_7e57);
        let mut diff = 0;
        for i in 0..10_000usize {
            let n = if i < 200 { i } else { rng.urange(0, 300) };
            let b = rng.bytes(n);
            if crate::model::md5::md5(&b) != ::md5::compute(&b).0 {
                diff += 1;
            }
        }
        if diff == 0 {
            println!("selftest: model MD5 equals the md5 crate on 10000 PRNG inputs (lengths 0..300, every length 0..199)");
        } else {
            println!("SELFTEST-FAIL model MD5 differs from the md5 crate on {diff} inputs");
            bad += 1;
        }
    }
    // (c) reference decoder against the repository's own octet vectors
    {
        let path = engine::repo_root().join("src/message/tests/valid_avp.rs");
        let path = path.to_str().unwrap_or("/repo/src/message/tests/valid_avp.rs");
        match std::fs::read_to_string(path) {
            Ok(src) => {
                let vs = extract_vectors(&src);
                let mut agree = 0;
                for v in &vs {
                    let m = spec_decode(v, Opts::STRICT);
                    let r = guard(|| {
                        let mut r = SliceReader::from(&v[..]);
                        Message::<&[u8]>::try_read_validate(&mut r, crate_opts(Opts::STRICT)).map(|m| from_crate_msg(&m))
                    });
                    match (m.result, r) {
                        (Ok(a), Ok(Ok(b))) if a == b => {
                            // and the model round-trips its own encoding
                            let e = spec_encode(&a);
                            if spec_decode(&e, Opts::STRICT).result.as_ref().ok().map(|x| match (x, &a) {
                                (SpecMessage::Control { avps: p, .. }, SpecMessage::Control { avps: q, .. }) => p == q,
                                _ => false,
                            }) == Some(true) {
                                agree += 1;
                            } else {
                                println!("SELFTEST-FAIL model does not round-trip vector {}", to_hex(v));
                                bad += 1;
                            }
                        }
                        (a, b) => {
                            println!(
                                "SELFTEST-FAIL vector {}: model {:?}, crate {:?}",
                                to_hex(v),
                                a,
                                b.map(|x| x.map_err(|e| crate::deliver::errs_text(&e)))
                            );
                            bad += 1;
                        }
                    }
                }
                if vs.len() < 30 {
                    println!("SELFTEST-FAIL only {} octet vectors extracted from {path}", vs.len());
                    bad += 1;
                } else {
                    println!("selftest: reference decoder agrees with the crate (and so with the suite's expected values) on {agree}/{} octet vectors of {path}", vs.len());
                }
            }
            Err(e) => {
                println!("SELFTEST-FAIL cannot read {path}: {e}");
                bad += 1;
            }
        }
    }
    // (d) bitmask calibration
    for attr in [3u16, 4, 18, 19] {
        match cal(attr) {
            Ok(b) => println!("selftest: bitmask kind {attr} calibrated: first capability bit {:#x}, second {:#x}", b.a, b.b),
            Err(e) => {
                println!("SELFTEST-FAIL calibration: {e}");
                bad += 1;
            }
        }
    }
    // (e) determinism: 2 executions x worker counts {1, 16}, separate
    // processes, digest over counters + distinct hashes + failure signatures
    let seeds: Vec<u64> = if full { vec![1, 2, 3, 20_260_917] } else { vec![20_260_917] };
    for sc in crate::props::all() {
        let runs = match sc.id {
            "C01" | "C02" => 12,
            "C14" => 24,
            _ => 96,
        };
        for &seed in &seeds {
            let mut ds = Vec::new();
            for workers in [1usize, 16, 1, 16, 5] {
                ds.push(engine::digest_main(&sc, Tier::Quick, seed, runs, workers));
            }
            if ds.iter().all(|d| *d == ds[0]) {
                println!("selftest: {} seed {} deterministic over 5 executions at 1/16/1/16/5 workers: {}", sc.id, seed, ds[0]);
            } else {
                println!("SELFTEST-FAIL {} seed {} digests differ: {:?}", sc.id, seed, ds);
                bad += 1;
            }
        }
    }
    if bad == 0 {
        println!("selftest: all ok");
        0
    } else {
        2
    }
}
