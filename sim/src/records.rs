//! AVP-record level workload: independently generated good and bad records
//! (C08 tiling, C15 placements, C20 single faults), each with the error the
//! specification attributes to it.

use crate::gen::*;
use crate::model::*;
use crate::rng::Rng;
use serde::{Deserialize, Serialize};

#[derive(Clone, Copy, Debug, PartialEq, Eq, Serialize, Deserialize)]
pub enum Badness {
    Vendor,
    UnknownAttr,
    Short,
    BadUtf8,
    UnknownMsgType,
    BadErrorType,
    BadProxyType,
    /// terminal: length field below 6
    TermLenLt6,
    /// terminal: length field runs past the end of the body
    TermLenPast,
}

pub const NONTERMINAL: [Badness; 7] = [
    Badness::Vendor,
    Badness::UnknownAttr,
    Badness::Short,
    Badness::BadUtf8,
    Badness::UnknownMsgType,
    Badness::BadErrorType,
    Badness::BadProxyType,
];

#[derive(Clone, Debug, Serialize, Deserialize)]
pub struct Rec {
    #[serde(with = "hexser")]
    pub bytes: Vec<u8>,
    /// `None` for a good record
    pub expect: Option<SpecErr>,
    pub terminal: bool,
}

fn header(len: usize, flags: u8, vendor: u16, attr: u16) -> Vec<u8> {
    let mut h = Vec::with_capacity(6);
    h.push((((len >> 8) as u8) & 3) << 6 | (flags & 0x3F));
    h.push(len as u8);
    h.extend_from_slice(&vendor.to_be_bytes());
    h.extend_from_slice(&attr.to_be_bytes());
    h
}

pub fn raw_record(flags: u8, vendor: u16, attr: u16, payload: &[u8]) -> Vec<u8> {
    let mut r = header(6 + payload.len(), flags, vendor, attr);
    r.extend_from_slice(payload);
    r
}

pub fn good_record(rng: &mut Rng, sw: &Swarm, allow_msgtype: bool) -> Rec {
    let mut a = gen_avp(rng, sw);
    if !allow_msgtype && a.attr == 0 && !a.is_hidden() && rng.chance(3, 4) {
        a = gen_avp_of(rng, sw, 6);
    }
    let tape = gen_knobs(rng, 12);
    let mut k = Knobs::new(&tape);
    let mut bytes = Vec::new();
    spec_encode_avp_with(&a, &mut k, &mut bytes);
    Rec {
        bytes,
        expect: None,
        terminal: false,
    }
}

pub const UTF8_BAD: [&[u8]; 6] = [
    &[0x80],
    &[0xE2, 0x82],
    &[0xC0, 0x80],
    &[0xED, 0xA0, 0x80],
    &[0xF4, 0x90, 0x80, 0x80],
    &[0xFF],
];

pub const STRING_BEARING: [u16; 6] = [8, 21, 22, 23, 1, 12];
pub const UNASSIGNED_ATTRS: [u16; 8] = [20, 40, 41, 255, 256, 1000, 32768, 65535];
pub const UNASSIGNED_MSGTYPES: [u16; 8] = [0, 5, 13, 17, 18, 255, 256, 65535];

pub fn invalid_utf8(rng: &mut Rng) -> Vec<u8> {
    let bad = *rng.pick(&UTF8_BAD);
    let mut s = Vec::new();
    let pre = rng.urange(0, 6);
    s.extend_from_slice(&utf8_of_len(rng, pre, StrRegime::Multi));
    s.extend_from_slice(bad);
    if bad.len() != 2 || rng.bool() {
        // a truncated sequence is only invalid at the end or before ASCII
        let post = rng.urange(0, 4);
        s.extend_from_slice(&utf8_of_len(rng, post, StrRegime::Ascii));
    }
    s
}

pub fn bad_record(rng: &mut Rng, sw: &Swarm, b: Badness) -> Rec {
    let flags = if rng.bool() { AVP_M } else { rng.u8() & (AVP_M | AVP_RESERVED) };
    match b {
        Badness::Vendor => {
            // one in four: vendor id, attribute type and payload size are
            // successive constants of the code under test (a vendor-specific
            // special case names exactly these three)
            if rng.chance(1, 4) {
                let d = crate::dict::dict();
                let n = d.ints.len();
                // half of the time one of the constants that look like an
                // enterprise number (256 ..= 65535)
                let big: Vec<usize> = (0..n).filter(|&k| (256..=65535).contains(&d.ints[k])).collect();
                let i = if !big.is_empty() && rng.bool() { *rng.pick(&big) } else { rng.usize_below(n) };
                let vendor = d.ints[i];
                if vendor >= 1 && vendor <= 0xFFFF {
                    let a0 = d.ints[(i + 1) % n];
                    let a1 = d.ints[(i + 2) % n];
                    let attr = match rng.below(6) {
                        0 if a0 <= 0xFFFF && a1 <= 0xFFFF && a0 < a1 => rng.range(a0, a1) as u16,
                        1 if a1 <= 0xFFFF => a1 as u16,
                        // vendors number their own attributes from the bottom
                        2 | 3 => rng.range(0, 4) as u16,
                        _ if a0 <= 0xFFFF => a0 as u16,
                        _ => rng.u16(),
                    };
                    let plen = match rng.below(4) {
                        0 => d.ints[(i + 3) % n].min(40) as usize,
                        1 => d.ints[(i + 2) % n].min(40) as usize,
                        2 => 4,
                        _ => rng.urange(0, 12),
                    };
                    let flags = if rng.chance(2, 3) { 0 } else { flags };
                    return Rec {
                        bytes: raw_record(flags, vendor as u16, attr, &rng.bytes(plen)),
                        expect: Some(SpecErr::UnsupportedVendorId(vendor as u16)),
                        terminal: false,
                    };
                }
            }
            let vendor = match rng.below(3) {
                0 => 1,
                1 => 0xFFFF,
                _ => rng.range(1, 0xFFFF) as u16,
            };
            // decodable or undecodable payload, any H bit
            let (attr, payload) = if rng.bool() {
                let a = gen_avp(rng, sw);
                (a.attr, spec_payload(&a))
            } else {
                let n = rng.urange(0, 12);
                (rng.u16(), rng.bytes(n))
            };
            let h = if rng.chance(1, 4) { AVP_H } else { 0 };
            Rec {
                bytes: raw_record(flags | h, vendor, attr, &payload),
                expect: Some(SpecErr::UnsupportedVendorId(vendor)),
                terminal: false,
            }
        }
        Badness::UnknownAttr => {
            let attr = if rng.chance(3, 4) {
                *rng.pick(&UNASSIGNED_ATTRS)
            } else {
                rng.range(40, 65535) as u16
            };
            let n = rng.urange(0, 10);
            let payload = rng.bytes(n);
            Rec {
                bytes: raw_record(flags, 0, attr, &payload),
                expect: Some(SpecErr::UnknownAvp(attr)),
                terminal: false,
            }
        }
        Badness::Short => {
            // every type with a minimum > 0
            let cands: Vec<u16> = ALL_ATTRS
                .iter()
                .copied()
                .filter(|a| min_payload(fmt_of(*a).unwrap()) > 0)
                .collect();
            let attr = *rng.pick(&cands);
            let min = min_payload(fmt_of(attr).unwrap());
            let n = if rng.bool() { min - 1 } else { rng.urange(0, min - 1) };
            let payload = rng.bytes(n);
            Rec {
                bytes: raw_record(flags, 0, attr, &payload),
                expect: Some(SpecErr::IncompleteAvp(attr)),
                terminal: false,
            }
        }
        Badness::BadUtf8 => {
            let attr = *rng.pick(&STRING_BEARING);
            let s = invalid_utf8(rng);
            let mut payload = Vec::new();
            match attr {
                1 => {
                    payload.extend_from_slice(&rng.u16().to_be_bytes());
                    payload.extend_from_slice(&(rng.range(0, 8) as u16).to_be_bytes());
                }
                12 => {
                    payload.extend_from_slice(&rng.u16().to_be_bytes());
                    payload.push(rng.u8());
                }
                _ => {}
            }
            payload.extend_from_slice(&s);
            Rec {
                bytes: raw_record(flags, 0, attr, &payload),
                expect: Some(SpecErr::InvalidUtf8(attr)),
                terminal: false,
            }
        }
        Badness::UnknownMsgType => {
            let code = if rng.chance(3, 4) {
                *rng.pick(&UNASSIGNED_MSGTYPES)
            } else {
                rng.range(17, 65535) as u16
            };
            let mut payload = code.to_be_bytes().to_vec();
            if rng.chance(1, 4) {
                payload.push(rng.u8());
            }
            Rec {
                bytes: raw_record(flags, 0, 0, &payload),
                expect: Some(SpecErr::UnknownMessageType(code)),
                terminal: false,
            }
        }
        Badness::BadErrorType => {
            let et = match rng.below(3) {
                0 => 9,
                1 => 65535,
                _ => rng.range(9, 65535) as u16,
            };
            let mut payload = rng.u16().to_be_bytes().to_vec();
            payload.extend_from_slice(&et.to_be_bytes());
            if rng.bool() {
                let n = rng.urange(1, 8);
                payload.extend_from_slice(&utf8_of_len(rng, n, StrRegime::Ascii));
            }
            Rec {
                bytes: raw_record(flags, 0, 1, &payload),
                expect: Some(SpecErr::InvalidResultCodeErrorType(et)),
                terminal: false,
            }
        }
        Badness::BadProxyType => {
            let code = match rng.below(3) {
                0 => 6,
                1 => 65535,
                _ => rng.range(6, 65535) as u16,
            };
            Rec {
                bytes: raw_record(flags, 0, 29, &code.to_be_bytes()),
                expect: Some(SpecErr::BadProxyAuthenType(code)),
                terminal: false,
            }
        }
        Badness::TermLenLt6 => {
            if rng.chance(1, 4) {
                // zero padding where a record should start
                let n = *rng.pick(&[6usize, 7, 8, 12, 16]);
                return Rec {
                    bytes: vec![0u8; n],
                    expect: Some(SpecErr::InvalidAvpLength),
                    terminal: true,
                };
            }
            let len = rng.urange(0, 5);
            let mut bytes = header(len, flags, if rng.bool() { 0 } else { rng.u16() }, rng.range(0, 41) as u16);
            let extra = rng.urange(0, 8);
            bytes.extend_from_slice(&rng.bytes(extra));
            Rec {
                bytes,
                expect: Some(SpecErr::InvalidAvpLength),
                terminal: true,
            }
        }
        Badness::TermLenPast => {
            let have = rng.urange(0, 8);
            // the harness appends nothing after a terminal record, so any
            // declared payload longer than `have` runs past the body
            let len = 6 + have + rng.urange(1, 40);
            // the record that runs past the end may be a vendor-specific one
            // (vendor id from the constants of the code under test)
            let vendor = if rng.chance(1, 4) {
                let d = crate::dict::dict();
                let v = *rng.pick(&d.ints);
                if v <= 0xFFFF { v as u16 } else { 0 }
            } else {
                0
            };
            let flags = if vendor != 0 && rng.bool() { 0 } else { flags };
            let mut bytes = header(len.min(1023), flags, vendor, rng.range(0, 41) as u16);
            bytes.extend_from_slice(&rng.bytes(have));
            Rec {
                bytes,
                expect: Some(SpecErr::InvalidAvpLength),
                terminal: true,
            }
        }
    }
}

/// A valid first record (Message Type).
pub fn msgtype_record(rng: &mut Rng) -> Vec<u8> {
    let code = *rng.pick(&MESSAGE_TYPES);
    raw_record(AVP_M, 0, 0, &code.to_be_bytes())
}

/// Wrap records into a control message with a correct Length.
pub fn control_of(rng: &mut Rng, recs: &[&[u8]]) -> Vec<u8> {
    let mut b = vec![0x13, 0x20, 0, 0];
    for _ in 0..4 {
        b.extend_from_slice(&rng.u16().to_be_bytes());
    }
    for r in recs {
        b.extend_from_slice(r);
    }
    let l = b.len().min(65535) as u16;
    b[2..4].copy_from_slice(&l.to_be_bytes());
    b
}


/// Classify arbitrary octets as one AVP record by the specification: a good
/// record, a record with one attributable error, or a terminal record
/// (unusable length). `None` when they are more or less than one record.
pub fn rec_from_bytes(bytes: &[u8]) -> Option<Rec> {
    let r = spec_decode_avps(bytes);
    if r.items.len() != 1 {
        return None;
    }
    match &r.items[0] {
        Ok(_) if r.covered == bytes.len() => Some(Rec {
            bytes: bytes.to_vec(),
            expect: None,
            terminal: false,
        }),
        Err(SpecErr::InvalidAvpLength) => Some(Rec {
            bytes: bytes.to_vec(),
            expect: Some(SpecErr::InvalidAvpLength),
            terminal: true,
        }),
        Err(e) if r.covered == bytes.len() => Some(Rec {
            bytes: bytes.to_vec(),
            expect: Some(*e),
            terminal: false,
        }),
        _ => None,
    }
}
