//! Shared vocabulary of the simulator: tiers, profiles, failures,
//! observation counters, the scenario trait and its type-erased form.

use crate::rng::Rng;
use serde::de::DeserializeOwned;
use serde::{Deserialize, Serialize};
use serde_json::Value;
use std::cell::RefCell;
use std::collections::{BTreeMap, HashSet};

#[derive(Clone, Copy, Debug, PartialEq, Eq, Serialize, Deserialize)]
#[serde(rename_all = "lowercase")]
pub enum Tier {
    Quick,
    Thorough,
}

impl Tier {
    pub fn name(&self) -> &'static str {
        match self {
            Tier::Quick => "quick",
            Tier::Thorough => "thorough",
        }
    }
    pub fn parse(s: &str) -> Option<Tier> {
        match s {
            "quick" => Some(Tier::Quick),
            "thorough" => Some(Tier::Thorough),
            _ => None,
        }
    }
    /// `q` in the quick tier, `t` in the thorough tier.
    pub fn pick<T>(&self, q: T, t: T) -> T {
        match self {
            Tier::Quick => q,
            Tier::Thorough => t,
        }
    }
}

#[derive(Clone, Copy, Debug, PartialEq, Eq, Serialize, Deserialize, PartialOrd, Ord)]
#[serde(rename_all = "lowercase")]
pub enum Profile {
    /// debug assertions, overflow checks and std's unsafe-precondition
    /// checks on
    Dev,
    /// all of them off
    Release,
}

impl Profile {
    pub fn name(&self) -> &'static str {
        match self {
            Profile::Dev => "dev",
            Profile::Release => "release",
        }
    }
    pub fn parse(s: &str) -> Option<Profile> {
        match s {
            "dev" => Some(Profile::Dev),
            "release" => Some(Profile::Release),
            _ => None,
        }
    }
    pub fn current() -> Profile {
        if cfg!(debug_assertions) {
            Profile::Dev
        } else {
            Profile::Release
        }
    }
}

#[derive(Clone, Debug, Serialize, Deserialize, PartialEq, Eq)]
pub struct Failure {
    pub property: String,
    /// stable name of the violated oracle
    pub oracle: String,
    /// root-cause class derived from the *input* (used to match the
    /// known-findings file and to keep minimisation on the same defect)
    pub class: String,
    pub detail: String,
}

impl Failure {
    pub fn new(property: &str, oracle: &str, class: &str, detail: String) -> Failure {
        Failure {
            property: property.to_string(),
            oracle: oracle.to_string(),
            class: class.to_string(),
            detail,
        }
    }
    pub fn signature(&self) -> String {
        format!("{}/{}/{}", self.property, self.oracle, self.class)
    }
}

pub const DISTINCT_CAP: usize = 1_000_000;

/// Counters one worker accumulates; merged by the parent in run order.
#[derive(Default)]
pub struct Obs {
    pub runs: u64,
    pub evaluations: u64,
    pub steps: u64,
    pub reader_calls: u64,
    pub writer_calls: u64,
    pub counters: BTreeMap<String, u64>,
    pub distinct: HashSet<u64>,
    pub paths: HashSet<u64>,
    pub samples: Vec<Value>,
    pub distinct_capped: bool,
}

impl Obs {
    pub fn count(&mut self, key: &str) {
        self.add(key, 1);
    }
    pub fn add(&mut self, key: &str, n: u64) {
        if n == 0 {
            return;
        }
        match self.counters.get_mut(key) {
            Some(v) => *v += n,
            None => {
                self.counters.insert(key.to_string(), n);
            }
        }
    }
    /// Register a case as distinct and non-trivial by the scenario's rule.
    pub fn distinct(&mut self, h: u64) {
        if self.distinct.len() < DISTINCT_CAP {
            self.distinct.insert(h);
        } else {
            self.distinct_capped = true;
        }
    }
    pub fn path(&mut self, h: u64) {
        if self.paths.len() < DISTINCT_CAP {
            self.paths.insert(h);
        }
    }
    pub fn sample(&mut self, v: impl FnOnce() -> Value) {
        if self.samples.len() < 3 {
            self.samples.push(v());
        }
    }
}

pub const FAIL_CAP_PER_WORKER: usize = 12;

/// What a run has access to.
pub struct Ctx<'a> {
    pub obs: &'a mut Obs,
    pub tier: Tier,
    pub run: u64,
    pub fails: Vec<(Value, Failure)>,
    /// called with the case about to be executed (crash attribution mode)
    pub announce: Option<&'a dyn Fn(&Value)>,
    /// signatures already reported in this worker (dedup)
    pub seen: &'a mut HashSet<String>,
    /// stream that decides the execution environment of each case
    pub env_rng: Rng,
}

/// One case in every `ENV_EVERY` runs in an environment other than the plain
/// one (see `env.rs`).
pub const ENV_EVERY: u64 = 10;

impl<'a> Ctx<'a> {
    /// Cases that cost a thread of their own (histories, families) are part
    /// of every quick-tier run and of every eighth thorough-tier run.
    pub fn history_this_run(&self) -> bool {
        self.tier == Tier::Quick || self.run % 8 == 0
    }

    /// Execute one materialisable case of scenario `S`; record a failure.
    pub fn check<S: Scenario>(&mut self, case: &S::Case) -> bool {
        if let Some(a) = self.announce {
            a(&serde_json::to_value(case).unwrap());
        }
        self.obs.evaluations += 1;
        let env = if S::environments() && self.env_rng.below(ENV_EVERY) == 0 {
            let e = crate::env::draw_env(&mut self.env_rng);
            if let crate::env::Env::AfterIdle { secs, .. } = &e {
                self.obs.add("simulated-seconds-jumped", *secs as u64);
            }
            self.obs.count(match &e {
                crate::env::Env::After(_) => "fault:env-after-refused-operation",
                crate::env::Env::Unwinding => "fault:env-while-unwinding",
                crate::env::Env::AfterThenUnwinding(_) => "fault:env-after-refused-operation-while-unwinding",
                crate::env::Env::AfterMany { .. } => "fault:env-after-many-repetitions-of-one-operation",
                crate::env::Env::AfterIdle { .. } => "fault:env-clock-jump-after-warm-up",
                crate::env::Env::Inside { .. } => "fault:env-inside-a-seam-call-of-another-library-call",
            });
            Some(e)
        } else {
            None
        };
        let obs = &mut *self.obs;
        match crate::env::in_env(env.as_ref(), || S::execute(case, obs)) {
            Ok(()) => true,
            Err(f) => {
                let f = crate::env::annotate(f, env.as_ref());
                let sig = f.signature();
                self.obs.count(&format!("violation:{}", sig));
                if self.seen.len() < FAIL_CAP_PER_WORKER && self.seen.insert(sig) {
                    let cv = serde_json::to_value(case).unwrap();
                    let cv = match &env {
                        Some(e) => serde_json::json!({"__env": e, "case": cv}),
                        None => cv,
                    };
                    self.fails.push((cv, f));
                }
                false
            }
        }
    }
}

/// Split the environment envelope off a materialised case.
pub fn split_env(v: &Value) -> (Option<crate::env::Env>, &Value) {
    if let Some(o) = v.as_object() {
        if o.len() == 2 {
            if let (Some(e), Some(c)) = (o.get("__env"), o.get("case")) {
                if let Ok(env) = serde_json::from_value::<crate::env::Env>(e.clone()) {
                    return (Some(env), c);
                }
            }
        }
    }
    (None, v)
}

pub struct Meta {
    pub rule: &'static str,
    pub assumptions: Vec<&'static str>,
    pub real: Vec<&'static str>,
    pub stub: Vec<&'static str>,
    pub faults_not_applicable: &'static str,
}

pub trait Scenario: 'static {
    type Case: Serialize + DeserializeOwned + Clone;
    const ID: &'static str;
    /// "exploration" or "fault_enumeration"
    const LEVEL: &'static str;
    fn runs(tier: Tier) -> u64;
    fn profiles() -> &'static [Profile];
    /// One seeded run: generate the workload and fault plan from `rng`, derive
    /// the deliveries and hand each to `ctx.check::<Self>`.
    fn run(rng: &mut Rng, ctx: &mut Ctx);
    /// Execute one materialised case against the real code and the oracles.
    fn execute(case: &Self::Case, obs: &mut Obs) -> Result<(), Failure>;
    /// Smaller / simpler variants of a failing case, most aggressive first.
    fn shrink(case: &Self::Case) -> Vec<Self::Case>;
    fn meta() -> Meta;
    /// Hook for work that is not a seeded run (closing passes, side crates);
    /// executed once by the parent. Returns failures with their cases.
    fn extra(_tier: Tier, _seed: u64, _obs: &mut Obs) -> Vec<(Value, Failure)> {
        Vec::new()
    }
    /// Upper bound on the runs one worker process executes before it is
    /// replaced by a fresh one (process-global state cannot outlive it).
    fn runs_per_process(_tier: Tier) -> u64 {
        u64::MAX
    }
    /// Whether cases of this scenario are also executed in the environments
    /// of `env.rs` (after a refused operation, while unwinding).
    fn environments() -> bool {
        true
    }
}

pub struct DynScenario {
    pub id: &'static str,
    pub level: &'static str,
    pub runs: fn(Tier) -> u64,
    pub profiles: fn() -> &'static [Profile],
    pub run: fn(&mut Rng, &mut Ctx),
    pub exec_json: fn(&Value, &mut Obs) -> Result<Result<(), Failure>, String>,
    pub shrink_json: fn(&Value) -> Vec<Value>,
    pub meta: fn() -> Meta,
    pub extra: fn(Tier, u64, &mut Obs) -> Vec<(Value, Failure)>,
    pub runs_per_process: fn(Tier) -> u64,
}

fn exec_json<S: Scenario>(v: &Value, obs: &mut Obs) -> Result<Result<(), Failure>, String> {
    let (env, inner) = split_env(v);
    let case: S::Case = serde_json::from_value(inner.clone()).map_err(|e| e.to_string())?;
    obs.evaluations += 1;
    let r = crate::env::in_env(env.as_ref(), || S::execute(&case, obs));
    Ok(r.map_err(|f| crate::env::annotate(f, env.as_ref())))
}

fn shrink_json<S: Scenario>(v: &Value) -> Vec<Value> {
    let (env, inner) = split_env(v);
    let case: S::Case = match serde_json::from_value(inner.clone()) {
        Ok(c) => c,
        Err(_) => return Vec::new(),
    };
    let mut out = Vec::new();
    if let Some(e) = &env {
        // first without the environment, then with a simpler one
        out.push(inner.clone());
        match e {
            crate::env::Env::AfterThenUnwinding(p) => {
                out.push(serde_json::json!({"__env": crate::env::Env::After(p.clone()), "case": inner}));
                out.push(serde_json::json!({"__env": crate::env::Env::Unwinding, "case": inner}));
            }
            crate::env::Env::AfterMany { op, count } => {
                for c in [*count / 2, count.saturating_sub(1)] {
                    if c > 0 && c < *count {
                        out.push(serde_json::json!({"__env": crate::env::Env::AfterMany { op: *op, count: c }, "case": inner}));
                    }
                }
            }
            _ => {}
        }
    }
    for c in S::shrink(&case) {
        let cv = serde_json::to_value(&c).unwrap();
        out.push(match &env {
            Some(e) => serde_json::json!({"__env": e, "case": cv}),
            None => cv,
        });
    }
    out
}

pub fn dyn_of<S: Scenario>() -> DynScenario {
    DynScenario {
        id: S::ID,
        level: S::LEVEL,
        runs: S::runs,
        profiles: S::profiles,
        run: S::run,
        exec_json: exec_json::<S>,
        shrink_json: shrink_json::<S>,
        meta: S::meta,
        extra: S::extra,
        runs_per_process: S::runs_per_process,
    }
}

// ---------------------------------------------------------------------------
// Panic capture
// ---------------------------------------------------------------------------

thread_local! {
    static LAST_PANIC: RefCell<Option<String>> = const { RefCell::new(None) };
}

/// What the silent hook recorded for the last panic on this thread.
pub fn last_panic_text() -> Option<String> {
    LAST_PANIC.try_with(|p| p.borrow_mut().take()).ok().flatten()
}

/// Install the silent hook: records "file:line: message", prints nothing
/// (fd 2 must stay clean for C19).
pub fn install_silent_hook() {
    std::panic::set_hook(Box::new(|info| {
        let loc = info
            .location()
            .map(|l| format!("{}:{}", l.file(), l.line()))
            .unwrap_or_else(|| "?".into());
        let msg = if let Some(s) = info.payload().downcast_ref::<&str>() {
            s.to_string()
        } else if let Some(s) = info.payload().downcast_ref::<String>() {
            s.clone()
        } else if info
            .payload()
            .downcast_ref::<crate::seams::StepBudgetExceeded>()
            .is_some()
        {
            "step budget exceeded".to_string()
        } else {
            "non-string panic payload".to_string()
        };
        // debugging aid: VERIF_DEBUG_PANICS=<file> appends every panic with a backtrace
        if let Ok(f) = std::env::var("VERIF_DEBUG_PANICS") {
            use std::io::Write;
            if let Ok(mut fh) = std::fs::OpenOptions::new().create(true).append(true).open(f) {
                let _ = writeln!(fh, "PANIC {loc}: {msg}\n{}", std::backtrace::Backtrace::force_capture());
            }
        }
        // try_with: the hook may run while the thread's locals are being destroyed
        let _ = LAST_PANIC.try_with(|p| *p.borrow_mut() = Some(format!("{loc}: {msg}")));
    }));
}

#[derive(Debug, Clone)]
pub enum Caught {
    Panic(String),
    StepBudget,
}

impl Caught {
    pub fn text(&self) -> String {
        match self {
            Caught::Panic(s) => format!("panic at {s}"),
            Caught::StepBudget => "step budget exceeded (non-termination)".into(),
        }
    }
}

/// Run `f`, converting an unwinding panic into `Err`.
pub fn guard<R>(f: impl FnOnce() -> R) -> Result<R, Caught> {
    match std::panic::catch_unwind(std::panic::AssertUnwindSafe(f)) {
        Ok(r) => Ok(r),
        Err(p) => {
            if p.downcast_ref::<crate::seams::StepBudgetExceeded>().is_some() {
                return Err(Caught::StepBudget);
            }
            if p.downcast_ref::<crate::seams::WriterFull>().is_some() {
                let _ = LAST_PANIC.try_with(|p| p.borrow_mut().take());
                return Err(Caught::Panic("<simulated writer is full>".into()));
            }
            let s = LAST_PANIC
                .try_with(|p| p.borrow_mut().take())
                .ok()
                .flatten()
                .unwrap_or_else(|| {
                    // no record (thread-local storage already gone): use the payload
                    if let Some(s) = p.downcast_ref::<&str>() {
                        s.to_string()
                    } else if let Some(s) = p.downcast_ref::<String>() {
                        s.clone()
                    } else {
                        "unknown".into()
                    }
                });
            Err(Caught::Panic(s))
        }
    }
}

/// Strip the variable part of a panic text for use in a failure class.
pub fn panic_site(c: &Caught) -> String {
    match c {
        Caught::StepBudget => "step-budget".into(),
        Caught::Panic(s) => {
            // "path/file.rs:LINE: message" -> "file.rs"
            let first = s.split(": ").next().unwrap_or("");
            let file = first.rsplit('/').next().unwrap_or(first);
            let file = file.split(':').next().unwrap_or(file);
            file.to_string()
        }
    }
}

#[derive(Serialize, Deserialize, Clone, Debug)]
pub struct ReplayFile {
    pub property: String,
    pub profile: Profile,
    pub tier: Tier,
    pub verif_seed: u64,
    pub run_index: u64,
    pub failure: Failure,
    pub minimised: bool,
    pub case: Value,
    #[serde(default, skip_serializing_if = "Option::is_none")]
    pub original_case: Option<Value>,
    #[serde(default)]
    pub how_to_replay: String,
    /// the failure depends on process-wide state: it reproduces when a fresh
    /// process executes the runs `from..to` of the seed (the failing run last)
    #[serde(default, skip_serializing_if = "Option::is_none")]
    pub process_history: Option<(u64, u64)>,
}


/// Run `f` to completion on a newly created thread (nothing left in
/// thread-local storage by earlier cases is visible to it, and nothing it
/// leaves is visible later). A panic of `f` continues on the caller.
pub fn on_fresh_thread<R: Send>(f: impl FnOnce() -> R + Send) -> R {
    match std::thread::scope(|s| s.spawn(f).join()) {
        Ok(r) => r,
        Err(p) => std::panic::resume_unwind(p),
    }
}
