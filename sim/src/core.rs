//! Shared vocabulary of the simulator: tiers, profiles, failures,
//! observation counters, the scenario trait and its type-erased form.

use crate::rng::Rng;
use serde::de::DeserializeOwned;
use serde::{Deserialize, Serialize};
use serde_json::Value;
use std::cell::RefCell;
use std::collections::{BTreeMap, HashSet};

#[derive(Clone, Copy, Debug, PartialEq, Eq, Serialize, Deserialize)]
#[serde(rename_all = "lowercase")]
pub enum Tier {
    Quick,
    Thorough,
}

impl Tier {
    pub fn name(&self) -> &'static str {
        match self {
            Tier::Quick => "quick",
            Tier::Thorough => "thorough",
        }
    }
    pub fn parse(s: &str) -> Option<Tier> {
        match s {
            "quick" => Some(Tier::Quick),
            "thorough" => Some(Tier::Thorough),
            _ => None,
        }
    }
    /// `q` in the quick tier, `t` in the thorough tier.
    pub fn pick<T>(&self, q: T, t: T) -> T {
        match self {
            Tier::Quick => q,
            Tier::Thorough => t,
        }
    }
}

#[derive(Clone, Copy, Debug, PartialEq, Eq, Serialize, Deserialize, PartialOrd, Ord)]
#[serde(rename_all = "lowercase")]
pub enum Profile {
    /// debug assertions, overflow checks and std's unsafe-precondition
    /// checks on
    Dev,
    /// all of them off
    Release,
}

impl Profile {
    pub fn name(&self) -> &'static str {
        match self {
            Profile::Dev => "dev",
            Profile::Release => "release",
        }
    }
    pub fn parse(s: &str) -> Option<Profile> {
        match s {
            "dev" => Some(Profile::Dev),
            "release" => Some(Profile::Release),
            _ => None,
        }
    }
    pub fn current() -> Profile {
        if cfg!(debug_assertions) {
            Profile::Dev
        } else {
            Profile::Release
        }
    }
}

#[derive(Clone, Debug, Serialize, Deserialize, PartialEq, Eq)]
pub struct Failure {
    pub property: String,
    /// stable name of the violated oracle
    pub oracle: String,
    /// root-cause class derived from the *input* (used to match the
    /// known-findings file and to keep minimisation on the same defect)
    pub class: String,
    pub detail: String,
}

impl Failure {
    pub fn new(property: &str, oracle: &str, class: &str, detail: String) -> Failure {
        Failure {
            property: property.to_string(),
            oracle: oracle.to_string(),
            class: class.to_string(),
            detail,
        }
    }
    pub fn signature(&self) -> String {
        format!("{}/{}/{}", self.property, self.oracle, self.class)
    }
}

pub const DISTINCT_CAP: usize = 1_000_000;

/// Counters one worker accumulates; merged by the parent in run order.
#[derive(Default)]
pub struct Obs {
    pub runs: u64,
    pub evaluations: u64,
    pub steps: u64,
    pub reader_calls: u64,
    pub writer_calls: u64,
    pub counters: BTreeMap<String, u64>,
    pub distinct: HashSet<u64>,
    pub paths: HashSet<u64>,
    pub samples: Vec<Value>,
    pub distinct_capped: bool,
}

impl Obs {
    pub fn count(&mut self, key: &str) {
        self.add(key, 1);
    }
    pub fn add(&mut self, key: &str, n: u64) {
        if n == 0 {
            return;
        }
        match self.counters.get_mut(key) {
            Some(v) => *v += n,
            None => {
                self.counters.insert(key.to_string(), n);
            }
        }
    }
    /// Register a case as distinct and non-trivial by the scenario's rule.
    pub fn distinct(&mut self, h: u64) {
        if self.distinct.len() < DISTINCT_CAP {
            self.distinct.insert(h);
        } else {
            self.distinct_capped = true;
        }
    }
    pub fn path(&mut self, h: u64) {
        if self.paths.len() < DISTINCT_CAP {
            self.paths.insert(h);
        }
    }
    pub fn sample(&mut self, v: impl FnOnce() -> Value) {
        if self.samples.len() < 3 {
            self.samples.push(v());
        }
    }
}

pub const FAIL_CAP_PER_WORKER: usize = 12;

/// What a run has access to.
pub struct Ctx<'a> {
    pub obs: &'a mut Obs,
    pub tier: Tier,
    pub run: u64,
    pub fails: Vec<(Value, Failure)>,
    /// called with the case about to be executed (crash attribution mode)
    pub announce: Option<&'a dyn Fn(&Value)>,
    /// signatures already reported in this worker (dedup)
    pub seen: &'a mut HashSet<String>,
}

impl<'a> Ctx<'a> {
    /// Execute one materialisable case of scenario `S`; record a failure.
    pub fn check<S: Scenario>(&mut self, case: &S::Case) -> bool {
        if let Some(a) = self.announce {
            a(&serde_json::to_value(case).unwrap());
        }
        self.obs.evaluations += 1;
        match S::execute(case, self.obs) {
            Ok(()) => true,
            Err(f) => {
                let sig = f.signature();
                self.obs.count(&format!("violation:{}", sig));
                if self.seen.len() < FAIL_CAP_PER_WORKER && self.seen.insert(sig) {
                    self.fails.push((serde_json::to_value(case).unwrap(), f));
                }
                false
            }
        }
    }
}

pub struct Meta {
    pub rule: &'static str,
    pub assumptions: Vec<&'static str>,
    pub real: Vec<&'static str>,
    pub stub: Vec<&'static str>,
    pub faults_not_applicable: &'static str,
}

pub trait Scenario: 'static {
    type Case: Serialize + DeserializeOwned + Clone;
    const ID: &'static str;
    /// "exploration" or "fault_enumeration"
    const LEVEL: &'static str;
    fn runs(tier: Tier) -> u64;
    fn profiles() -> &'static [Profile];
    /// One seeded run: generate the workload and fault plan from `rng`, derive
    /// the deliveries and hand each to `ctx.check::<Self>`.
    fn run(rng: &mut Rng, ctx: &mut Ctx);
    /// Execute one materialised case against the real code and the oracles.
    fn execute(case: &Self::Case, obs: &mut Obs) -> Result<(), Failure>;
    /// Smaller / simpler variants of a failing case, most aggressive first.
    fn shrink(case: &Self::Case) -> Vec<Self::Case>;
    fn meta() -> Meta;
    /// Hook for work that is not a seeded run (closing passes, side crates);
    /// executed once by the parent. Returns failures with their cases.
    fn extra(_tier: Tier, _seed: u64, _obs: &mut Obs) -> Vec<(Value, Failure)> {
        Vec::new()
    }
    /// Upper bound on the runs one worker process executes before it is
    /// replaced by a fresh one (process-global state cannot outlive it).
    fn runs_per_process(_tier: Tier) -> u64 {
        u64::MAX
    }
}

pub struct DynScenario {
    pub id: &'static str,
    pub level: &'static str,
    pub runs: fn(Tier) -> u64,
    pub profiles: fn() -> &'static [Profile],
    pub run: fn(&mut Rng, &mut Ctx),
    pub exec_json: fn(&Value, &mut Obs) -> Result<Result<(), Failure>, String>,
    pub shrink_json: fn(&Value) -> Vec<Value>,
    pub meta: fn() -> Meta,
    pub extra: fn(Tier, u64, &mut Obs) -> Vec<(Value, Failure)>,
    pub runs_per_process: fn(Tier) -> u64,
}

fn exec_json<S: Scenario>(v: &Value, obs: &mut Obs) -> Result<Result<(), Failure>, String> {
    let case: S::Case = serde_json::from_value(v.clone()).map_err(|e| e.to_string())?;
    obs.evaluations += 1;
    Ok(S::execute(&case, obs))
}

fn shrink_json<S: Scenario>(v: &Value) -> Vec<Value> {
    let case: S::Case = match serde_json::from_value(v.clone()) {
        Ok(c) => c,
        Err(_) => return Vec::new(),
    };
    S::shrink(&case)
        .into_iter()
        .map(|c| serde_json::to_value(&c).unwrap())
        .collect()
}

pub fn dyn_of<S: Scenario>() -> DynScenario {
    DynScenario {
        id: S::ID,
        level: S::LEVEL,
        runs: S::runs,
        profiles: S::profiles,
        run: S::run,
        exec_json: exec_json::<S>,
        shrink_json: shrink_json::<S>,
        meta: S::meta,
        extra: S::extra,
        runs_per_process: S::runs_per_process,
    }
}

// ---------------------------------------------------------------------------
// Panic capture
// ---------------------------------------------------------------------------

thread_local! {
    static LAST_PANIC: RefCell<Option<String>> = const { RefCell::new(None) };
}

/// Install the silent hook: records "file:line: message", prints nothing
/// (fd 2 must stay clean for C19).
pub fn install_silent_hook() {
    std::panic::set_hook(Box::new(|info| {
        let loc = info
            .location()
            .map(|l| format!("{}:{}", l.file(), l.line()))
            .unwrap_or_else(|| "?".into());
        let msg = if let Some(s) = info.payload().downcast_ref::<&str>() {
            s.to_string()
        } else if let Some(s) = info.payload().downcast_ref::<String>() {
            s.clone()
        } else if info
            .payload()
            .downcast_ref::<crate::seams::StepBudgetExceeded>()
            .is_some()
        {
            "step budget exceeded".to_string()
        } else {
            "non-string panic payload".to_string()
        };
        LAST_PANIC.with(|p| *p.borrow_mut() = Some(format!("{loc}: {msg}")));
    }));
}

#[derive(Debug, Clone)]
pub enum Caught {
    Panic(String),
    StepBudget,
}

impl Caught {
    pub fn text(&self) -> String {
        match self {
            Caught::Panic(s) => format!("panic at {s}"),
            Caught::StepBudget => "step budget exceeded (non-termination)".into(),
        }
    }
}

/// Run `f`, converting an unwinding panic into `Err`.
pub fn guard<R>(f: impl FnOnce() -> R) -> Result<R, Caught> {
    match std::panic::catch_unwind(std::panic::AssertUnwindSafe(f)) {
        Ok(r) => Ok(r),
        Err(p) => {
            if p.downcast_ref::<crate::seams::StepBudgetExceeded>().is_some() {
                return Err(Caught::StepBudget);
            }
            let s = LAST_PANIC
                .with(|p| p.borrow_mut().take())
                .unwrap_or_else(|| "unknown".into());
            Err(Caught::Panic(s))
        }
    }
}

/// Strip the variable part of a panic text for use in a failure class.
pub fn panic_site(c: &Caught) -> String {
    match c {
        Caught::StepBudget => "step-budget".into(),
        Caught::Panic(s) => {
            // "path/file.rs:LINE: message" -> "file.rs"
            let first = s.split(": ").next().unwrap_or("");
            let file = first.rsplit('/').next().unwrap_or(first);
            let file = file.split(':').next().unwrap_or(file);
            file.to_string()
        }
    }
}

#[derive(Serialize, Deserialize, Clone, Debug)]
pub struct ReplayFile {
    pub property: String,
    pub profile: Profile,
    pub tier: Tier,
    pub verif_seed: u64,
    pub run_index: u64,
    pub failure: Failure,
    pub minimised: bool,
    pub case: Value,
    #[serde(default, skip_serializing_if = "Option::is_none")]
    pub original_case: Option<Value>,
    #[serde(default)]
    pub how_to_replay: String,
}
