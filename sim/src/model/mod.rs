//! Executable reference model of the crate's L2TPv2 layout, written from
//! RFC 2661 (sections 3.1, 4.1, 4.3, 4.4) and RFC 1321. It shares no code
//! with rl2tp, uses no `unsafe`, and indexes only through checked cursors.
//!
//! Conventions that belong to the crate rather than to the RFC, and that the
//! property texts adopt ("the crate's flag-bit numbering", "the crate's
//! L2TPv2 layout"); they are pinned by the repository's own 41 octet vectors:
//!
//! * flag word = big-endian u16; T = bit 8, L = 9, S = 12, O = 14, P = 15,
//!   version = bits 4..7, reserved = {0,1,2,3,10,11,13}
//!   (canonical control header = `13 20`);
//! * first AVP octet: M = 0x01, H = 0x02, reserved = 0x3C, high length bits
//!   = 0xC0;
//! * Random Vector is exactly 4 octets, Challenge Response exactly 16;
//! * fixed-width payloads may be followed by surplus octets, which are
//!   ignored (C05 "nothing outside the named fields", C10 "surplus payload
//!   octets");
//! * the original-length subfield of a hidden AVP holds either |value| (RFC)
//!   or 6 + |value| (pinned tree); C11-C13 leave it open, the model takes the
//!   convention as a parameter and the harness requires consistency.
//!
//! Design choices on malformed input that the properties fix (not the RFC):
//!
//! | choice | from |
//! |---|---|
//! | parsing continues after an undecodable record, stops at an unusable length | C15 |
//! | a vendor-specific record is an error and is skipped by its length | C15 / C08 |
//! | a hidden record's payload is kept opaque, any attribute type | C03 / C08 |
//! | first AVP, if any, must be a valid Message Type | C15 |
//! | a trailing fragment of < 6 octets in the AVP region is ignored | C05 / C10 |
//! | control Length < 12 is rejected | C01 |
//! | AVP length < 6 is an unusable length | C01 / C15 |
//! | data Length counts from the first flag octet and bounds the payload | C04 / C08 |

pub mod md5;

use serde::{Deserialize, Serialize};

pub mod hexser {
    use serde::{Deserialize, Deserializer, Serializer};
    pub fn serialize<S: Serializer>(v: &Vec<u8>, s: S) -> Result<S::Ok, S::Error> {
        s.serialize_str(&super::to_hex(v))
    }
    pub fn deserialize<'de, D: Deserializer<'de>>(d: D) -> Result<Vec<u8>, D::Error> {
        let s = String::deserialize(d)?;
        super::from_hex(&s).ok_or_else(|| serde::de::Error::custom("bad hex"))
    }
}

pub mod hexser_opt {
    use serde::{Deserialize, Deserializer, Serializer};
    pub fn serialize<S: Serializer>(v: &Option<Vec<u8>>, s: S) -> Result<S::Ok, S::Error> {
        match v {
            Some(v) => s.serialize_some(&super::to_hex(v)),
            None => s.serialize_none(),
        }
    }
    pub fn deserialize<'de, D: Deserializer<'de>>(d: D) -> Result<Option<Vec<u8>>, D::Error> {
        let s = Option::<String>::deserialize(d)?;
        match s {
            None => Ok(None),
            Some(s) => super::from_hex(&s)
                .map(Some)
                .ok_or_else(|| serde::de::Error::custom("bad hex")),
        }
    }
}

pub fn to_hex(b: &[u8]) -> String {
    const D: &[u8; 16] = b"0123456789abcdef";
    let mut s = String::with_capacity(b.len() * 2);
    for x in b {
        s.push(D[(x >> 4) as usize] as char);
        s.push(D[(x & 15) as usize] as char);
    }
    s
}

pub fn from_hex(s: &str) -> Option<Vec<u8>> {
    let s = s.as_bytes();
    if s.len() % 2 != 0 {
        return None;
    }
    let nib = |c: u8| -> Option<u8> {
        match c {
            b'0'..=b'9' => Some(c - b'0'),
            b'a'..=b'f' => Some(c - b'a' + 10),
            b'A'..=b'F' => Some(c - b'A' + 10),
            _ => None,
        }
    };
    let mut v = Vec::with_capacity(s.len() / 2);
    for p in s.chunks_exact(2) {
        v.push((nib(p[0])? << 4) | nib(p[1])?);
    }
    Some(v)
}

// ---------------------------------------------------------------------------
// Value types
// ---------------------------------------------------------------------------

#[derive(Clone, Debug, PartialEq, Eq, Serialize, Deserialize)]
pub enum Val {
    /// Enumerated 16-bit code (Message Type, Proxy Authen Type).
    Code(u16),
    Result {
        code: u16,
        error: Option<ResErr>,
    },
    Pair(u8, u8),
    U16(u16),
    U32(u32),
    U64(u64),
    /// The four bitmask kinds: the raw 32-bit word.
    Mask(u32),
    Bytes(#[serde(with = "hexser")] Vec<u8>),
    Str(#[serde(with = "hexser")] Vec<u8>),
    Q931 {
        code: u16,
        msg: u8,
        #[serde(with = "hexser_opt")]
        advisory: Option<Vec<u8>>,
    },
    Fix4([u8; 4]),
    Fix16([u8; 16]),
    ProxyId(u8),
    CallErrors([u32; 6]),
    Accm([u8; 4], [u8; 4]),
    Empty,
    Hidden(#[serde(with = "hexser")] Vec<u8>),
}

/// Error part of a Result Code AVP: error type and optional message octets.
#[derive(Clone, Debug, PartialEq, Eq, Serialize, Deserialize)]
pub struct ResErr {
    pub et: u16,
    #[serde(with = "hexser_opt")]
    pub msg: Option<Vec<u8>>,
}

#[derive(Clone, Debug, PartialEq, Eq, Serialize, Deserialize)]
pub struct SpecAvp {
    pub attr: u16,
    pub val: Val,
}

impl SpecAvp {
    pub fn is_hidden(&self) -> bool {
        matches!(self.val, Val::Hidden(_))
    }
}

#[derive(Clone, Debug, PartialEq, Eq, Serialize, Deserialize)]
pub enum SpecMessage {
    Control {
        length: u16,
        tunnel_id: u16,
        session_id: u16,
        ns: u16,
        nr: u16,
        avps: Vec<SpecAvp>,
    },
    Data {
        prio: bool,
        length: Option<u16>,
        tunnel_id: u16,
        session_id: u16,
        ns_nr: Option<(u16, u16)>,
        offset: Option<u16>,
        #[serde(with = "hexser")]
        data: Vec<u8>,
    },
}

#[derive(Clone, Copy, Debug, PartialEq, Eq, Serialize, Deserialize)]
pub enum SpecErr {
    IncompleteAvp(u16),
    UnknownMessageType(u16),
    InvalidUtf8(u16),
    InvalidResultCodeErrorType(u16),
    BadProxyAuthenType(u16),
    /// Unusable AVP length field (below 6, or past the end of the region).
    InvalidAvpLength,
    UnknownAvp(u16),
    UnsupportedVendorId(u16),
    EmptyHidden,
    MisalignedHidden,
    InvalidOriginalLength(u16),
    IncompleteFlags,
    InvalidVersion(u8),
    InvalidReservedBits,
    ForbiddenPriority,
    ForbiddenOffset,
    NoLength,
    NoNsNr,
    IncompleteControlHeader,
    ControlLengthTooSmall(u16),
    IncompleteControlPayload,
    NotFirst,
    IncompleteDataHeader,
    InvalidOffset(u16),
    BadDataLength(u16),
    EmptyDataPayload,
    /// A crate error variant that did not exist when the model was written.
    /// The reference decoder never produces it, so it equals no expectation.
    Unmodelled,
}

#[derive(Clone, Copy, Debug, PartialEq, Eq, Serialize, Deserialize)]
pub struct Opts {
    pub reserved: bool,
    pub version: bool,
    pub unused: bool,
}

impl Opts {
    pub const STRICT: Opts = Opts {
        reserved: true,
        version: true,
        unused: true,
    };
    pub const DEFAULT: Opts = Opts {
        reserved: false,
        version: true,
        unused: false,
    };
    pub fn from_index(i: u8) -> Opts {
        Opts {
            reserved: i & 1 != 0,
            version: i & 2 != 0,
            unused: i & 4 != 0,
        }
    }
    pub fn index(&self) -> u8 {
        (self.reserved as u8) | ((self.version as u8) << 1) | ((self.unused as u8) << 2)
    }
    /// Pointwise order: self is weaker than or equal to other.
    pub fn le(&self, o: &Opts) -> bool {
        (!self.reserved || o.reserved) && (!self.version || o.version) && (!self.unused || o.unused)
    }
}

// ---------------------------------------------------------------------------
// Tables (RFC 2661 section 4.4, 3.2, 4.4.2)
// ---------------------------------------------------------------------------

#[derive(Clone, Copy, Debug, PartialEq, Eq)]
pub enum Fmt {
    MsgType,
    Result,
    Pair,
    Mask,
    U64,
    U16,
    U32,
    Bytes,
    Str,
    Q931,
    Fix16,
    Fix4,
    ProxyType,
    ProxyId,
    CallErrors,
    Accm,
    Empty,
}

pub const FLAG_T: u16 = 1 << 8;
pub const FLAG_L: u16 = 1 << 9;
pub const FLAG_S: u16 = 1 << 12;
pub const FLAG_O: u16 = 1 << 14;
pub const FLAG_P: u16 = 1 << 15;
pub const FLAG_RESERVED: u16 = 0b0010_1100_0000_1111; // bits 0,1,2,3,10,11,13
pub const FLAG_VERSION: u16 = 0x00F0;

pub const AVP_M: u8 = 0x01;
pub const AVP_H: u8 = 0x02;
pub const AVP_RESERVED: u8 = 0x3C;

pub const MESSAGE_TYPES: [u16; 14] = [1, 2, 3, 4, 6, 7, 8, 9, 10, 11, 12, 14, 15, 16];
pub const MAX_ERROR_TYPE: u16 = 8;
pub const MAX_PROXY_AUTHEN_TYPE: u16 = 5;

/// (attribute type, format, crate variant name).
pub const AVP_TABLE: [(u16, Fmt, &str); 39] = [
    (0, Fmt::MsgType, "MessageType"),
    (1, Fmt::Result, "ResultCode"),
    (2, Fmt::Pair, "ProtocolVersion"),
    (3, Fmt::Mask, "FramingCapabilities"),
    (4, Fmt::Mask, "BearerCapabilities"),
    (5, Fmt::U64, "TieBreaker"),
    (6, Fmt::U16, "FirmwareRevision"),
    (7, Fmt::Bytes, "HostName"),
    (8, Fmt::Str, "VendorName"),
    (9, Fmt::U16, "AssignedTunnelId"),
    (10, Fmt::U16, "ReceiveWindowSize"),
    (11, Fmt::Bytes, "Challenge"),
    (12, Fmt::Q931, "Q931CauseCode"),
    (13, Fmt::Fix16, "ChallengeResponse"),
    (14, Fmt::U16, "AssignedSessionId"),
    (15, Fmt::U32, "CallSerialNumber"),
    (16, Fmt::U32, "MinimumBps"),
    (17, Fmt::U32, "MaximumBps"),
    (18, Fmt::Mask, "BearerType"),
    (19, Fmt::Mask, "FramingType"),
    (21, Fmt::Str, "CalledNumber"),
    (22, Fmt::Str, "CallingNumber"),
    (23, Fmt::Str, "SubAddress"),
    (24, Fmt::U32, "TxConnectSpeed"),
    (25, Fmt::Fix4, "PhysicalChannelId"),
    (26, Fmt::Bytes, "InitialReceivedLcpConfReq"),
    (27, Fmt::Bytes, "LastSentLcpConfReq"),
    (28, Fmt::Bytes, "LastReceivedLcpConfReq"),
    (29, Fmt::ProxyType, "ProxyAuthenType"),
    (30, Fmt::Bytes, "ProxyAuthenName"),
    (31, Fmt::Bytes, "ProxyAuthenChallenge"),
    (32, Fmt::ProxyId, "ProxyAuthenId"),
    (33, Fmt::Bytes, "ProxyAuthenResponse"),
    (34, Fmt::CallErrors, "CallErrors"),
    (35, Fmt::Accm, "Accm"),
    (36, Fmt::Fix4, "RandomVector"),
    (37, Fmt::Bytes, "PrivateGroupId"),
    (38, Fmt::U32, "RxConnectSpeed"),
    (39, Fmt::Empty, "SequencingRequired"),
];

pub fn fmt_of(attr: u16) -> Option<Fmt> {
    AVP_TABLE.iter().find(|e| e.0 == attr).map(|e| e.1)
}

pub fn name_of(attr: u16) -> Option<&'static str> {
    AVP_TABLE.iter().find(|e| e.0 == attr).map(|e| e.2)
}

/// Minimum payload octets for the format (0 for Empty).
pub fn min_payload(f: Fmt) -> usize {
    match f {
        Fmt::MsgType | Fmt::Result | Fmt::Pair | Fmt::U16 | Fmt::ProxyType | Fmt::ProxyId => 2,
        Fmt::Mask | Fmt::U32 | Fmt::Fix4 => 4,
        Fmt::U64 => 8,
        Fmt::Bytes | Fmt::Str => 1,
        Fmt::Q931 => 3,
        Fmt::Fix16 => 16,
        Fmt::CallErrors => 26,
        Fmt::Accm => 10,
        Fmt::Empty => 0,
    }
}

/// True if the format has a fixed width, i.e. may carry ignored surplus.
pub fn is_fixed(f: Fmt) -> bool {
    !matches!(f, Fmt::Bytes | Fmt::Str | Fmt::Q931 | Fmt::Result)
}

pub fn utf8_ok(b: &[u8]) -> bool {
    // Own validator (RFC 3629), so the model does not lean on the same std
    // routine the crate calls.
    let mut i = 0;
    while i < b.len() {
        let c = b[i];
        let (n, min, mut cp) = if c < 0x80 {
            (0, 0, c as u32)
        } else if c & 0xE0 == 0xC0 {
            (1, 0x80, (c & 0x1F) as u32)
        } else if c & 0xF0 == 0xE0 {
            (2, 0x800, (c & 0x0F) as u32)
        } else if c & 0xF8 == 0xF0 {
            (3, 0x10000, (c & 0x07) as u32)
        } else {
            return false;
        };
        for k in 1..=n {
            let d = match b.get(i + k) {
                Some(d) => *d,
                None => return false,
            };
            if d & 0xC0 != 0x80 {
                return false;
            }
            cp = (cp << 6) | (d & 0x3F) as u32;
        }
        if n > 0 && cp < min {
            return false; // overlong
        }
        if (0xD800..=0xDFFF).contains(&cp) || cp > 0x10FFFF {
            return false;
        }
        i += n + 1;
    }
    true
}

// ---------------------------------------------------------------------------
// Cursor with use tracking (for the don't-care mask of C05)
// ---------------------------------------------------------------------------

pub struct Cur<'a> {
    b: &'a [u8],
    pos: usize,
    end: usize,
    /// per input octet: bit mask of the bits the specification names
    pub used: Vec<u8>,
}

impl<'a> Cur<'a> {
    pub fn new(b: &'a [u8]) -> Self {
        Cur {
            b,
            pos: 0,
            end: b.len(),
            used: vec![0; b.len()],
        }
    }
    pub fn remaining(&self) -> usize {
        self.end - self.pos
    }
    fn take(&mut self, n: usize) -> Option<&'a [u8]> {
        if n > self.remaining() {
            return None;
        }
        let s = &self.b[self.pos..self.pos + n];
        for u in &mut self.used[self.pos..self.pos + n] {
            *u = 0xFF;
        }
        self.pos += n;
        Some(s)
    }
    fn skip(&mut self, n: usize) -> Option<()> {
        if n > self.remaining() {
            return None;
        }
        self.pos += n;
        Some(())
    }
    fn u8(&mut self) -> Option<u8> {
        self.take(1).map(|s| s[0])
    }
    fn u16(&mut self) -> Option<u16> {
        self.take(2).map(|s| u16::from_be_bytes([s[0], s[1]]))
    }
    fn u32(&mut self) -> Option<u32> {
        self.take(4)
            .map(|s| u32::from_be_bytes([s[0], s[1], s[2], s[3]]))
    }
    fn u64(&mut self) -> Option<u64> {
        self.take(8).map(|s| {
            let mut a = [0u8; 8];
            a.copy_from_slice(s);
            u64::from_be_bytes(a)
        })
    }
}

// ---------------------------------------------------------------------------
// Decoding
// ---------------------------------------------------------------------------

/// Decode the payload of a non-hidden, vendor-0 AVP of type `attr`. The
/// cursor's window must be exactly the payload.
fn decode_payload(attr: u16, c: &mut Cur) -> Result<SpecAvp, SpecErr> {
    let f = match fmt_of(attr) {
        Some(f) => f,
        None => return Err(SpecErr::UnknownAvp(attr)),
    };
    if c.remaining() < min_payload(f) {
        return Err(SpecErr::IncompleteAvp(attr));
    }
    let inc = SpecErr::IncompleteAvp(attr);
    let val = match f {
        Fmt::MsgType => {
            let code = c.u16().ok_or(inc)?;
            if !MESSAGE_TYPES.contains(&code) {
                return Err(SpecErr::UnknownMessageType(code));
            }
            Val::Code(code)
        }
        Fmt::ProxyType => {
            let code = c.u16().ok_or(inc)?;
            if code > MAX_PROXY_AUTHEN_TYPE {
                return Err(SpecErr::BadProxyAuthenType(code));
            }
            Val::Code(code)
        }
        Fmt::Result => {
            let code = c.u16().ok_or(inc)?;
            let error = if c.remaining() >= 2 {
                let et = c.u16().ok_or(inc)?;
                if et > MAX_ERROR_TYPE {
                    return Err(SpecErr::InvalidResultCodeErrorType(et));
                }
                let msg = if c.remaining() > 0 {
                    let m = c.take(c.remaining()).ok_or(inc)?;
                    if !utf8_ok(m) {
                        return Err(SpecErr::InvalidUtf8(attr));
                    }
                    Some(m.to_vec())
                } else {
                    None
                };
                Some(ResErr { et, msg })
            } else {
                None
            };
            Val::Result { code, error }
        }
        Fmt::Pair => Val::Pair(c.u8().ok_or(inc)?, c.u8().ok_or(inc)?),
        Fmt::Mask => Val::Mask(c.u32().ok_or(inc)?),
        Fmt::U64 => Val::U64(c.u64().ok_or(inc)?),
        Fmt::U16 => Val::U16(c.u16().ok_or(inc)?),
        Fmt::U32 => Val::U32(c.u32().ok_or(inc)?),
        Fmt::Bytes => Val::Bytes(c.take(c.remaining()).ok_or(inc)?.to_vec()),
        Fmt::Str => {
            let s = c.take(c.remaining()).ok_or(inc)?;
            if !utf8_ok(s) {
                return Err(SpecErr::InvalidUtf8(attr));
            }
            Val::Str(s.to_vec())
        }
        Fmt::Q931 => {
            let code = c.u16().ok_or(inc)?;
            let msg = c.u8().ok_or(inc)?;
            let advisory = if c.remaining() > 0 {
                let s = c.take(c.remaining()).ok_or(inc)?;
                if !utf8_ok(s) {
                    return Err(SpecErr::InvalidUtf8(attr));
                }
                Some(s.to_vec())
            } else {
                None
            };
            Val::Q931 {
                code,
                msg,
                advisory,
            }
        }
        Fmt::Fix16 => {
            let s = c.take(16).ok_or(inc)?;
            let mut a = [0u8; 16];
            a.copy_from_slice(s);
            Val::Fix16(a)
        }
        Fmt::Fix4 => {
            let s = c.take(4).ok_or(inc)?;
            Val::Fix4([s[0], s[1], s[2], s[3]])
        }
        Fmt::ProxyId => {
            c.skip(1).ok_or(inc)?;
            Val::ProxyId(c.u8().ok_or(inc)?)
        }
        Fmt::CallErrors => {
            c.skip(2).ok_or(inc)?;
            let mut a = [0u32; 6];
            for x in a.iter_mut() {
                *x = c.u32().ok_or(inc)?;
            }
            Val::CallErrors(a)
        }
        Fmt::Accm => {
            c.skip(2).ok_or(inc)?;
            let s = c.take(4).ok_or(inc)?;
            let r = c.take(4).ok_or(inc)?;
            Val::Accm([s[0], s[1], s[2], s[3]], [r[0], r[1], r[2], r[3]])
        }
        Fmt::Empty => Val::Empty,
    };
    Ok(SpecAvp { attr, val })
}

/// Public wrapper: decode a stand-alone payload (used by reveal).
pub fn spec_decode_payload(attr: u16, payload: &[u8]) -> Result<SpecAvp, SpecErr> {
    let mut c = Cur::new(payload);
    decode_payload(attr, &mut c)
}

/// Result of walking an AVP region.
pub struct AvpRegion {
    pub items: Vec<Result<SpecAvp, SpecErr>>,
    /// (start, total length) of every record with a usable length, in order.
    pub records: Vec<(usize, usize)>,
    /// octets of the region covered by records (the rest is an ignored
    /// trailing fragment, or follows an unusable length)
    pub covered: usize,
    /// true when parsing stopped at an unusable length
    pub stopped: bool,
}

fn decode_region(c: &mut Cur) -> AvpRegion {
    let region_start = c.pos;
    let mut out = AvpRegion {
        items: Vec::new(),
        records: Vec::new(),
        covered: 0,
        stopped: false,
    };
    while c.remaining() >= 6 {
        let start = c.pos;
        let o1 = c.b[c.pos];
        let o2 = c.b[c.pos + 1];
        // H bit and the two high length bits are named; M and reserved are not.
        c.used[c.pos] |= AVP_H | 0xC0;
        c.used[c.pos + 1] = 0xFF;
        c.pos += 2;
        let vendor = c.u16().unwrap();
        let attr = c.u16().unwrap();
        let len = (((o1 >> 6) as usize) << 8) | o2 as usize;
        if len < 6 || len - 6 > c.remaining() {
            out.items.push(Err(SpecErr::InvalidAvpLength));
            out.stopped = true;
            break;
        }
        let plen = len - 6;
        out.records.push((start - region_start, len));
        if vendor != 0 {
            out.items.push(Err(SpecErr::UnsupportedVendorId(vendor)));
            c.pos += plen;
            out.covered = c.pos - region_start;
            continue;
        }
        if o1 & AVP_H != 0 {
            let v = c.take(plen).unwrap().to_vec();
            out.items.push(Ok(SpecAvp {
                attr,
                val: Val::Hidden(v),
            }));
            out.covered = c.pos - region_start;
            continue;
        }
        // confine the payload decoder to its own octets
        let saved_end = c.end;
        c.end = c.pos + plen;
        let r = decode_payload(attr, c);
        c.pos = c.end;
        c.end = saved_end;
        out.items.push(r);
        out.covered = c.pos - region_start;
    }
    out
}

pub fn spec_decode_avps(b: &[u8]) -> AvpRegion {
    let mut c = Cur::new(b);
    decode_region(&mut c)
}

pub struct Decoded {
    pub result: Result<SpecMessage, Vec<SpecErr>>,
    /// octets consumed from the input when accepted
    pub consumed: usize,
    /// per-octet mask of named bits (meaningful only when accepted)
    pub used: Vec<u8>,
    /// record boundaries inside a control body (offsets from message start)
    pub records: Vec<(usize, usize)>,
}

pub fn spec_decode(b: &[u8], opts: Opts) -> Decoded {
    let mut c = Cur::new(b);
    let mut records = Vec::new();
    let result = decode_message(&mut c, opts, &mut records);
    let consumed = if result.is_ok() { c.pos } else { 0 };
    Decoded {
        result,
        consumed,
        used: c.used,
        records,
    }
}

fn decode_message(
    c: &mut Cur,
    opts: Opts,
    records: &mut Vec<(usize, usize)>,
) -> Result<SpecMessage, Vec<SpecErr>> {
    let one = |e: SpecErr| vec![e];
    if c.remaining() < 2 {
        return Err(one(SpecErr::IncompleteFlags));
    }
    let w = u16::from_be_bytes([c.b[0], c.b[1]]);
    c.pos = 2;
    // named bits of the flag word: T, L, S always; the rest by option / kind
    let mut named: u16 = FLAG_T | FLAG_L | FLAG_S;
    let is_control = w & FLAG_T != 0;
    if opts.version {
        named |= FLAG_VERSION;
    }
    if opts.reserved {
        named |= FLAG_RESERVED;
    }
    if !is_control || opts.unused {
        named |= FLAG_O | FLAG_P;
    }
    c.used[0] = (named >> 8) as u8;
    c.used[1] = (named & 0xFF) as u8;

    let version = ((w & FLAG_VERSION) >> 4) as u8;
    if opts.version && version != 2 {
        return Err(one(SpecErr::InvalidVersion(version)));
    }
    if opts.reserved && w & FLAG_RESERVED != 0 {
        return Err(one(SpecErr::InvalidReservedBits));
    }
    if is_control {
        if opts.unused {
            if w & FLAG_P != 0 {
                return Err(one(SpecErr::ForbiddenPriority));
            }
            if w & FLAG_O != 0 {
                return Err(one(SpecErr::ForbiddenOffset));
            }
        }
        if w & FLAG_L == 0 {
            return Err(one(SpecErr::NoLength));
        }
        if w & FLAG_S == 0 {
            return Err(one(SpecErr::NoNsNr));
        }
        if c.remaining() < 10 {
            return Err(one(SpecErr::IncompleteControlHeader));
        }
        let length = c.u16().unwrap();
        let tunnel_id = c.u16().unwrap();
        let session_id = c.u16().unwrap();
        let ns = c.u16().unwrap();
        let nr = c.u16().unwrap();
        if length < 12 {
            return Err(one(SpecErr::ControlLengthTooSmall(length)));
        }
        if length as usize > c.b.len() {
            return Err(one(SpecErr::IncompleteControlPayload));
        }
        let saved_end = c.end;
        c.end = length as usize;
        let region = decode_region(c);
        c.pos = c.end;
        c.end = saved_end;
        for (s, l) in &region.records {
            records.push((12 + s, *l));
        }
        if let Some(first) = region.items.first() {
            match first {
                Ok(SpecAvp { attr: 0, val }) if !matches!(val, Val::Hidden(_)) => {}
                _ => return Err(one(SpecErr::NotFirst)),
            }
        }
        let errs: Vec<SpecErr> = region
            .items
            .iter()
            .filter_map(|x| x.as_ref().err().copied())
            .collect();
        if !errs.is_empty() {
            return Err(errs);
        }
        let avps = region.items.into_iter().map(|x| x.unwrap()).collect();
        Ok(SpecMessage::Control {
            length,
            tunnel_id,
            session_id,
            ns,
            nr,
            avps,
        })
    } else {
        let has_l = w & FLAG_L != 0;
        let has_s = w & FLAG_S != 0;
        let has_o = w & FLAG_O != 0;
        let hdr = 4 + 2 * has_l as usize + 4 * has_s as usize + 2 * has_o as usize;
        if c.remaining() < hdr {
            return Err(one(SpecErr::IncompleteDataHeader));
        }
        let length = if has_l { Some(c.u16().unwrap()) } else { None };
        let tunnel_id = c.u16().unwrap();
        let session_id = c.u16().unwrap();
        let ns_nr = if has_s {
            Some((c.u16().unwrap(), c.u16().unwrap()))
        } else {
            None
        };
        if has_o {
            let n = c.u16().unwrap();
            if n as usize > c.remaining() {
                return Err(one(SpecErr::InvalidOffset(n)));
            }
            c.skip(n as usize).unwrap();
        }
        let data = match length {
            Some(l) => {
                let l = l as usize;
                if l > c.b.len() || l < c.pos {
                    return Err(one(SpecErr::BadDataLength(l as u16)));
                }
                if l == c.pos {
                    return Err(one(SpecErr::EmptyDataPayload));
                }
                c.take(l - c.pos).unwrap().to_vec()
            }
            None => {
                if c.remaining() == 0 {
                    return Err(one(SpecErr::EmptyDataPayload));
                }
                c.take(c.remaining()).unwrap().to_vec()
            }
        };
        Ok(SpecMessage::Data {
            prio: w & FLAG_P != 0,
            length,
            tunnel_id,
            session_id,
            ns_nr,
            offset: None,
            data,
        })
    }
}

// ---------------------------------------------------------------------------
// Encoding
// ---------------------------------------------------------------------------

/// A "knob tape": the foreign peer's legal-but-non-canonical choices, read
/// sequentially; an exhausted (or all-zero) tape yields the canonical
/// encoding. Materialised in replay files, shrunk by zeroing.
pub struct Knobs<'a> {
    tape: &'a [u8],
    pos: usize,
    pub fired: u32,
}

impl<'a> Knobs<'a> {
    pub fn new(tape: &'a [u8]) -> Self {
        Knobs {
            tape,
            pos: 0,
            fired: 0,
        }
    }
    pub fn canonical() -> Knobs<'static> {
        Knobs::new(&[])
    }
    fn next(&mut self) -> u8 {
        let v = self.tape.get(self.pos).copied().unwrap_or(0);
        self.pos += 1;
        v
    }
}

fn payload_octets(a: &SpecAvp, k: &mut Knobs) -> Vec<u8> {
    let mut p = Vec::new();
    match &a.val {
        Val::Code(c) => p.extend_from_slice(&c.to_be_bytes()),
        Val::Result { code, error } => {
            p.extend_from_slice(&code.to_be_bytes());
            if let Some(ResErr { et, msg }) = error {
                p.extend_from_slice(&et.to_be_bytes());
                if let Some(m) = msg {
                    p.extend_from_slice(m);
                }
            }
        }
        Val::Pair(a, b) => p.extend_from_slice(&[*a, *b]),
        Val::U16(v) => p.extend_from_slice(&v.to_be_bytes()),
        Val::U32(v) | Val::Mask(v) => p.extend_from_slice(&v.to_be_bytes()),
        Val::U64(v) => p.extend_from_slice(&v.to_be_bytes()),
        Val::Bytes(v) | Val::Str(v) | Val::Hidden(v) => p.extend_from_slice(v),
        Val::Q931 {
            code,
            msg,
            advisory,
        } => {
            p.extend_from_slice(&code.to_be_bytes());
            p.push(*msg);
            if let Some(a) = advisory {
                p.extend_from_slice(a);
            }
        }
        Val::Fix4(v) => p.extend_from_slice(v),
        Val::Fix16(v) => p.extend_from_slice(v),
        Val::ProxyId(v) => {
            let r = k.next();
            if r != 0 {
                k.fired += 1;
            }
            p.extend_from_slice(&[r, *v]);
        }
        Val::CallErrors(v) => {
            let (r0, r1) = (k.next(), k.next());
            if r0 != 0 || r1 != 0 {
                k.fired += 1;
            }
            p.extend_from_slice(&[r0, r1]);
            for x in v {
                p.extend_from_slice(&x.to_be_bytes());
            }
        }
        Val::Accm(s, r) => {
            let (r0, r1) = (k.next(), k.next());
            if r0 != 0 || r1 != 0 {
                k.fired += 1;
            }
            p.extend_from_slice(&[r0, r1]);
            p.extend_from_slice(s);
            p.extend_from_slice(r);
        }
        Val::Empty => {}
    }
    p
}

/// Surplus octets a foreign peer may legally append to this payload.
fn surplus_allowed(a: &SpecAvp) -> usize {
    match &a.val {
        Val::Hidden(_) | Val::Bytes(_) | Val::Str(_) | Val::Q931 { .. } => 0,
        Val::Result { error: None, .. } => 1,
        Val::Result { .. } => 0,
        _ => 7,
    }
}

pub fn spec_encode_avp_with(a: &SpecAvp, k: &mut Knobs, out: &mut Vec<u8>) {
    let flags_knob = k.next();
    let surplus_knob = k.next();
    let mut payload = payload_octets(a, k);
    let max_surplus = surplus_allowed(a);
    if surplus_knob & 1 != 0 && max_surplus > 0 {
        let n = 1 + ((surplus_knob >> 1) as usize % max_surplus);
        for _ in 0..n {
            let x = k.next();
            payload.push(x);
        }
        k.fired += 1;
    }
    let len = 6 + payload.len();
    let mut o1 = (((len >> 8) & 0x3) as u8) << 6;
    o1 |= AVP_M;
    if a.is_hidden() {
        o1 |= AVP_H;
    }
    if flags_knob & 1 != 0 {
        o1 &= !AVP_M;
        k.fired += 1;
    }
    if flags_knob & AVP_RESERVED != 0 {
        o1 |= flags_knob & AVP_RESERVED;
        k.fired += 1;
    }
    out.push(o1);
    out.push(len as u8);
    out.extend_from_slice(&[0, 0]);
    out.extend_from_slice(&a.attr.to_be_bytes());
    out.extend_from_slice(&payload);
}

pub fn spec_encode_avp(a: &SpecAvp) -> Vec<u8> {
    let mut out = Vec::new();
    spec_encode_avp_with(a, &mut Knobs::canonical(), &mut out);
    out
}

/// Payload octets (what follows the 6-octet header) of the canonical form.
pub fn spec_payload(a: &SpecAvp) -> Vec<u8> {
    payload_octets(a, &mut Knobs::canonical())
}

/// Which non-canonical header choices the receiver's options tolerate.
pub fn spec_encode_with(m: &SpecMessage, k: &mut Knobs, tolerate: Opts) -> Vec<u8> {
    let mut out = Vec::new();
    match m {
        SpecMessage::Control {
            tunnel_id,
            session_id,
            ns,
            nr,
            avps,
            ..
        } => {
            let hk = k.next();
            let hk2 = k.next();
            let frag_knob = k.next();
            let mut w: u16 = FLAG_T | FLAG_L | FLAG_S | (2 << 4);
            if !tolerate.reserved && hk != 0 {
                // spread 7 knob bits over the 7 reserved bits
                let bits = [0u16, 1, 2, 3, 10, 11, 13];
                let mut any = false;
                for (i, b) in bits.iter().enumerate() {
                    if hk & (1 << i) != 0 {
                        w |= 1 << b;
                        any = true;
                    }
                }
                if any {
                    k.fired += 1;
                }
            }
            if !tolerate.unused && hk2 & 0x3 != 0 {
                if hk2 & 1 != 0 {
                    w |= FLAG_P;
                }
                if hk2 & 2 != 0 {
                    w |= FLAG_O;
                }
                k.fired += 1;
            }
            if !tolerate.version && hk2 & 0x4 != 0 {
                w = (w & !FLAG_VERSION) | (((hk2 >> 4) as u16) << 4);
                k.fired += 1;
            }
            out.extend_from_slice(&w.to_be_bytes());
            out.extend_from_slice(&[0, 0]);
            out.extend_from_slice(&tunnel_id.to_be_bytes());
            out.extend_from_slice(&session_id.to_be_bytes());
            out.extend_from_slice(&ns.to_be_bytes());
            out.extend_from_slice(&nr.to_be_bytes());
            for a in avps {
                spec_encode_avp_with(a, k, &mut out);
            }
            if frag_knob & 1 != 0 {
                let n = 1 + ((frag_knob >> 1) as usize % 5);
                for _ in 0..n {
                    let x = k.next();
                    out.push(x);
                }
                k.fired += 1;
            }
            let len = out.len() as u16;
            out[2..4].copy_from_slice(&len.to_be_bytes());
        }
        SpecMessage::Data {
            prio,
            length,
            tunnel_id,
            session_id,
            ns_nr,
            offset,
            data,
        } => {
            let hk = k.next();
            let hk2 = k.next();
            let mut w: u16 = 2 << 4;
            if length.is_some() {
                w |= FLAG_L;
            }
            if ns_nr.is_some() {
                w |= FLAG_S;
            }
            if offset.is_some() {
                w |= FLAG_O;
            }
            if *prio {
                w |= FLAG_P;
            }
            if !tolerate.reserved && hk != 0 {
                let bits = [0u16, 1, 2, 3, 10, 11, 13];
                let mut any = false;
                for (i, b) in bits.iter().enumerate() {
                    if hk & (1 << i) != 0 {
                        w |= 1 << b;
                        any = true;
                    }
                }
                if any {
                    k.fired += 1;
                }
            }
            if !tolerate.version && hk2 & 0x4 != 0 {
                w = (w & !FLAG_VERSION) | (((hk2 >> 4) as u16) << 4);
                k.fired += 1;
            }
            out.extend_from_slice(&w.to_be_bytes());
            if let Some(l) = length {
                out.extend_from_slice(&l.to_be_bytes());
            }
            out.extend_from_slice(&tunnel_id.to_be_bytes());
            out.extend_from_slice(&session_id.to_be_bytes());
            if let Some((ns, nr)) = ns_nr {
                out.extend_from_slice(&ns.to_be_bytes());
                out.extend_from_slice(&nr.to_be_bytes());
            }
            if let Some(o) = offset {
                out.extend_from_slice(&o.to_be_bytes());
            }
            out.extend_from_slice(data);
        }
    }
    out
}

pub fn spec_encode(m: &SpecMessage) -> Vec<u8> {
    spec_encode_with(m, &mut Knobs::canonical(), Opts::STRICT)
}

/// Size of the data header written for this value (flags included).
pub fn data_header_len(length: bool, ns_nr: bool, offset: bool) -> usize {
    6 + 2 * length as usize + 4 * ns_nr as usize + 2 * offset as usize
}

// ---------------------------------------------------------------------------
// Independent length walker (C07 / C08): knows only flag word, Length and
// the 10-bit AVP lengths.
// ---------------------------------------------------------------------------

#[derive(Debug, Clone)]
pub struct Walk {
    pub declared: usize,
    /// (start, len) of each AVP record inside the message
    pub records: Vec<(usize, usize)>,
    /// octets of the body not covered by records
    pub slack: usize,
}

pub fn walk_control(b: &[u8]) -> Result<Walk, String> {
    if b.len() < 12 {
        return Err(format!("control message of {} octets", b.len()));
    }
    let w = u16::from_be_bytes([b[0], b[1]]);
    if w & FLAG_T == 0 {
        return Err("T bit clear".into());
    }
    let declared = u16::from_be_bytes([b[2], b[3]]) as usize;
    if declared < 12 || declared > b.len() {
        return Err(format!(
            "Length field {} outside 12..={}",
            declared,
            b.len()
        ));
    }
    let mut pos = 12;
    let mut records = Vec::new();
    while declared - pos >= 6 {
        let len = (((b[pos] >> 6) as usize) << 8) | b[pos + 1] as usize;
        if len < 6 || pos + len > declared {
            return Err(format!(
                "AVP at offset {} has length {} (body ends at {})",
                pos, len, declared
            ));
        }
        records.push((pos, len));
        pos += len;
    }
    Ok(Walk {
        declared,
        records,
        slack: declared - pos,
    })
}

// ---------------------------------------------------------------------------
// Hiding (RFC 2661 section 4.3)
// ---------------------------------------------------------------------------

#[derive(Clone, Copy, Debug, PartialEq, Eq, Serialize, Deserialize)]
pub enum LenConv {
    /// original-length subfield = |value| (RFC 2661)
    Value,
    /// original-length subfield = 6 + |value| (whole original AVP)
    Whole,
}

impl LenConv {
    pub fn bias(&self) -> usize {
        match self {
            LenConv::Value => 0,
            LenConv::Whole => 6,
        }
    }
}

fn keystream_first(attr: u16, secret: &[u8], rv: &[u8]) -> [u8; 16] {
    let mut buf = Vec::with_capacity(2 + secret.len() + rv.len());
    buf.extend_from_slice(&attr.to_be_bytes());
    buf.extend_from_slice(secret);
    buf.extend_from_slice(rv);
    md5::md5(&buf)
}

fn keystream_next(secret: &[u8], prev_cipher: &[u8]) -> [u8; 16] {
    let mut buf = Vec::with_capacity(secret.len() + 16);
    buf.extend_from_slice(secret);
    buf.extend_from_slice(prev_cipher);
    md5::md5(&buf)
}

/// Rewrite 16 octets of `payload` so that ciphertext block `block` (>= 1,
/// lying wholly inside the payload) of the hidden value comes out as
/// `target` — an all-zero block, an all-ones block, a repeat of the block
/// before it. (Plaintext = keystream XOR target; the keystream of a block is
/// fixed by the blocks before it.) `false` when the payload is too short.
pub fn force_cipher_block(
    attr: u16,
    payload: &mut [u8],
    secret: &[u8],
    rv: &[u8],
    conv: LenConv,
    block: usize,
    target: Option<[u8; 16]>,
) -> bool {
    if block == 0 || payload.len() < 16 * block + 14 {
        return false;
    }
    let l = (payload.len() + conv.bias()) as u16;
    let mut plain = l.to_be_bytes().to_vec();
    plain.extend_from_slice(&payload[..16 * block - 2]);
    // ciphertext of the blocks before
    let mut prev = [0u8; 16];
    let mut key = keystream_first(attr, secret, rv);
    for i in 0..block {
        if i > 0 {
            key = keystream_next(secret, &prev);
        }
        for j in 0..16 {
            prev[j] = plain[16 * i + j] ^ key[j];
        }
    }
    let key = keystream_next(secret, &prev);
    let target = target.unwrap_or(prev);
    for j in 0..16 {
        payload[16 * block - 2 + j] = key[j] ^ target[j];
    }
    true
}

/// The hidden value for (attr, payload). `None` when the plaintext does not
/// fit the construction (alignment padding longer than supplied).
pub fn spec_hide(
    attr: u16,
    payload: &[u8],
    secret: &[u8],
    rv: &[u8],
    lp: &[u8],
    ap: &[u8],
    conv: LenConv,
) -> Option<Vec<u8>> {
    let mut plain = Vec::new();
    let l = (payload.len() + conv.bias()) as u16;
    plain.extend_from_slice(&l.to_be_bytes());
    plain.extend_from_slice(payload);
    plain.extend_from_slice(lp);
    let pad = (16 - plain.len() % 16) % 16;
    if pad > ap.len() {
        return None;
    }
    plain.extend_from_slice(&ap[..pad]);
    let mut cipher = Vec::with_capacity(plain.len());
    let mut key = keystream_first(attr, secret, rv);
    for (i, block) in plain.chunks_exact(16).enumerate() {
        if i > 0 {
            key = keystream_next(secret, &cipher[(i - 1) * 16..i * 16]);
        }
        for j in 0..16 {
            cipher.push(block[j] ^ key[j]);
        }
    }
    Some(cipher)
}

/// Plaintext of a hidden value (no interpretation).
pub fn spec_decrypt(attr: u16, value: &[u8], secret: &[u8], rv: &[u8]) -> Option<Vec<u8>> {
    if value.is_empty() || value.len() % 16 != 0 {
        return None;
    }
    let mut plain = Vec::with_capacity(value.len());
    let mut key = keystream_first(attr, secret, rv);
    for (i, block) in value.chunks_exact(16).enumerate() {
        if i > 0 {
            key = keystream_next(secret, &value[(i - 1) * 16..i * 16]);
        }
        for j in 0..16 {
            plain.push(block[j] ^ key[j]);
        }
    }
    Some(plain)
}

#[derive(Debug, Clone, PartialEq, Eq)]
pub enum Revealed {
    Ok(SpecAvp),
    Err(SpecErr),
    /// The properties do not say (declared original AVP larger than any AVP
    /// can be, yet fitting inside an over-long hidden value).
    Unspecified,
}

pub fn spec_reveal(attr: u16, value: &[u8], secret: &[u8], rv: &[u8], conv: LenConv) -> Revealed {
    if value.is_empty() {
        return Revealed::Err(SpecErr::EmptyHidden);
    }
    if value.len() % 16 != 0 {
        return Revealed::Err(SpecErr::MisalignedHidden);
    }
    let plain = spec_decrypt(attr, value, secret, rv).unwrap();
    let l = u16::from_be_bytes([plain[0], plain[1]]);
    let bias = conv.bias();
    if (l as usize) < bias {
        return Revealed::Err(SpecErr::InvalidOriginalLength(l));
    }
    let vl = l as usize - bias;
    if vl > plain.len() - 2 {
        return Revealed::Err(SpecErr::InvalidOriginalLength(l));
    }
    if vl + 6 > 1023 {
        return Revealed::Unspecified;
    }
    match spec_decode_payload(attr, &plain[2..2 + vl]) {
        Ok(a) => Revealed::Ok(a),
        Err(e) => Revealed::Err(e),
    }
}

/// The declared value length of a hidden value under `conv`, for the
/// directed C13 generator; `None` if the value cannot be decrypted.
pub fn spec_declared_len(
    attr: u16,
    value: &[u8],
    secret: &[u8],
    rv: &[u8],
) -> Option<u16> {
    let p = spec_decrypt(attr, value, secret, rv)?;
    Some(u16::from_be_bytes([p[0], p[1]]))
}

pub fn first_keystream(attr: u16, secret: &[u8], rv: &[u8]) -> [u8; 16] {
    keystream_first(attr, secret, rv)
}

// ---------------------------------------------------------------------------
// Model self-check (part of `selftest` and of every worker start-up)
// ---------------------------------------------------------------------------

pub fn selfcheck() -> Result<(), String> {
    md5::selfcheck()?;
    // utf-8 validator against a few classic cases
    let good: [&[u8]; 5] = [
        b"",
        b"abc",
        "\u{e9}".as_bytes(),
        "\u{20ac}".as_bytes(),
        "\u{1F600}".as_bytes(),
    ];
    for g in good {
        if !utf8_ok(g) {
            return Err(format!("utf8_ok rejects {g:?}"));
        }
    }
    let bad: [&[u8]; 8] = [
        &[0x80],
        &[0xC3],
        &[0xC0, 0x80],
        &[0xE0, 0x80, 0x80],
        &[0xED, 0xA0, 0x80],
        &[0xF4, 0x90, 0x80, 0x80],
        &[0xF8, 0x88, 0x80, 0x80, 0x80],
        &[0x61, 0xE2, 0x82],
    ];
    for b in bad {
        if utf8_ok(b) {
            return Err(format!("utf8_ok accepts {b:?}"));
        }
        if std::str::from_utf8(b).is_ok() {
            return Err(format!("std accepts {b:?}?"));
        }
    }
    // canonical control header
    let m = SpecMessage::Control {
        length: 0,
        tunnel_id: 2,
        session_id: 3,
        ns: 4,
        nr: 5,
        avps: vec![SpecAvp {
            attr: 0,
            val: Val::Code(1),
        }],
    };
    let e = spec_encode(&m);
    let want: Vec<u8> = vec![
        0x13, 0x20, 0x00, 0x14, 0x00, 0x02, 0x00, 0x03, 0x00, 0x04, 0x00, 0x05, 0x00, 0x08, 0x00,
        0x00, 0x00, 0x00, 0x00, 0x01,
    ];
    // The crate's doc example writes the AVP first octet as 0x00 (M clear);
    // the encoder sets M, so only compare modulo that bit.
    let mut e2 = e.clone();
    e2[12] &= !AVP_M;
    if e2 != want {
        return Err(format!("canonical control encoding {}", to_hex(&e)));
    }
    let d = spec_decode(&e, Opts::STRICT);
    match d.result {
        Ok(SpecMessage::Control { length: 20, .. }) => {}
        other => return Err(format!("model round trip: {other:?}")),
    }
    Ok(())
}
