//! RFC 1321 MD5, written from the RFC text for the reference model. Shares
//! nothing with the `md5` crate that rl2tp links (that crate is consulted
//! only by `selftest`, as a second opinion on this file).

const S: [u32; 64] = [
    7, 12, 17, 22, 7, 12, 17, 22, 7, 12, 17, 22, 7, 12, 17, 22, 5, 9, 14, 20, 5, 9, 14, 20, 5, 9,
    14, 20, 5, 9, 14, 20, 4, 11, 16, 23, 4, 11, 16, 23, 4, 11, 16, 23, 4, 11, 16, 23, 6, 10, 15,
    21, 6, 10, 15, 21, 6, 10, 15, 21, 6, 10, 15, 21,
];

fn k_table() -> [u32; 64] {
    // K[i] = floor(2^32 * abs(sin(i + 1))), written out so no float is
    // involved at run time.
    [
        0xd76aa478, 0xe8c7b756, 0x242070db, 0xc1bdceee, 0xf57c0faf, 0x4787c62a, 0xa8304613,
        0xfd469501, 0x698098d8, 0x8b44f7af, 0xffff5bb1, 0x895cd7be, 0x6b901122, 0xfd987193,
        0xa679438e, 0x49b40821, 0xf61e2562, 0xc040b340, 0x265e5a51, 0xe9b6c7aa, 0xd62f105d,
        0x02441453, 0xd8a1e681, 0xe7d3fbc8, 0x21e1cde6, 0xc33707d6, 0xf4d50d87, 0x455a14ed,
        0xa9e3e905, 0xfcefa3f8, 0x676f02d9, 0x8d2a4c8a, 0xfffa3942, 0x8771f681, 0x6d9d6122,
        0xfde5380c, 0xa4beea44, 0x4bdecfa9, 0xf6bb4b60, 0xbebfbc70, 0x289b7ec6, 0xeaa127fa,
        0xd4ef3085, 0x04881d05, 0xd9d4d039, 0xe6db99e5, 0x1fa27cf8, 0xc4ac5665, 0xf4292244,
        0x432aff97, 0xab9423a7, 0xfc93a039, 0x655b59c3, 0x8f0ccc92, 0xffeff47d, 0x85845dd1,
        0x6fa87e4f, 0xfe2ce6e0, 0xa3014314, 0x4e0811a1, 0xf7537e82, 0xbd3af235, 0x2ad7d2bb,
        0xeb86d391,
    ]
}

pub fn md5(input: &[u8]) -> [u8; 16] {
    let k = k_table();
    let mut a0: u32 = 0x67452301;
    let mut b0: u32 = 0xefcdab89;
    let mut c0: u32 = 0x98badcfe;
    let mut d0: u32 = 0x10325476;

    let mut msg = input.to_vec();
    let bit_len = (input.len() as u64).wrapping_mul(8);
    msg.push(0x80);
    while msg.len() % 64 != 56 {
        msg.push(0);
    }
    msg.extend_from_slice(&bit_len.to_le_bytes());

    for chunk in msg.chunks_exact(64) {
        let mut m = [0u32; 16];
        for (i, w) in m.iter_mut().enumerate() {
            *w = u32::from_le_bytes([
                chunk[4 * i],
                chunk[4 * i + 1],
                chunk[4 * i + 2],
                chunk[4 * i + 3],
            ]);
        }
        let (mut a, mut b, mut c, mut d) = (a0, b0, c0, d0);
        for i in 0..64 {
            let (mut f, g);
            if i < 16 {
                f = (b & c) | (!b & d);
                g = i;
            } else if i < 32 {
                f = (d & b) | (!d & c);
                g = (5 * i + 1) % 16;
            } else if i < 48 {
                f = b ^ c ^ d;
                g = (3 * i + 5) % 16;
            } else {
                f = c ^ (b | !d);
                g = (7 * i) % 16;
            }
            f = f.wrapping_add(a).wrapping_add(k[i]).wrapping_add(m[g]);
            a = d;
            d = c;
            c = b;
            b = b.wrapping_add(f.rotate_left(S[i]));
        }
        a0 = a0.wrapping_add(a);
        b0 = b0.wrapping_add(b);
        c0 = c0.wrapping_add(c);
        d0 = d0.wrapping_add(d);
    }
    let mut out = [0u8; 16];
    out[0..4].copy_from_slice(&a0.to_le_bytes());
    out[4..8].copy_from_slice(&b0.to_le_bytes());
    out[8..12].copy_from_slice(&c0.to_le_bytes());
    out[12..16].copy_from_slice(&d0.to_le_bytes());
    out
}

pub fn hex(b: &[u8]) -> String {
    let mut s = String::with_capacity(b.len() * 2);
    for x in b {
        s.push_str(&format!("{:02x}", x));
    }
    s
}

/// The seven test vectors of RFC 1321 appendix A.5.
pub fn rfc1321_vectors() -> Vec<(&'static str, &'static str)> {
    vec![
        ("", "d41d8cd98f00b204e9800998ecf8427e"),
        ("a", "0cc175b9c0f1b6a831c399e269772661"),
        ("abc", "900150983cd24fb0d6963f7d28e17f72"),
        ("message digest", "f96b697d7cb7938d525a2f31aaf161d0"),
        (
            "abcdefghijklmnopqrstuvwxyz",
            "c3fcd3d76192e4007dfb496cca67e13b",
        ),
        (
            "ABCDEFGHIJKLMNOPQRSTUVWXYZabcdefghijklmnopqrstuvwxyz0123456789",
            "d174ab98d277d9f5a5611c2c9f419d9f",
        ),
        (
            "12345678901234567890123456789012345678901234567890123456789012345678901234567890",
            "57edf4a22be3c955ac49da2e2107b67a",
        ),
    ]
}

pub fn selfcheck() -> Result<(), String> {
    for (inp, want) in rfc1321_vectors() {
        let got = hex(&md5(inp.as_bytes()));
        if got != want {
            return Err(format!("model md5({inp:?}) = {got}, RFC 1321 says {want}"));
        }
    }
    Ok(())
}
