//! Swarm-style workload generation: per-run configuration drawn first, then
//! values of the model's types inside the encodable domain.

use crate::model::*;
use crate::rng::Rng;
use serde::{Deserialize, Serialize};

pub const MAX_PAYLOAD: usize = 1017;

#[derive(Clone, Copy, Debug, PartialEq, Eq, Serialize, Deserialize)]
pub enum SizeRegime {
    Tiny,
    Typical,
    Boundary,
    /// uniform over the whole admissible range, and powers of two +-1
    Wide,
}

#[derive(Clone, Copy, Debug, PartialEq, Eq, Serialize, Deserialize)]
pub enum StrRegime {
    Ascii,
    Multi,
    /// NUL, control characters, whitespace at the ends, BOM, U+FFFD,
    /// combining marks: legal UTF-8 that invites "helpful" normalisation
    Awkward,
}

#[derive(Clone, Copy, Debug, PartialEq, Eq, Serialize, Deserialize)]
pub enum ValRegime {
    Uniform,
    Extremes,
}

#[derive(Clone, Debug, Serialize, Deserialize)]
pub struct Swarm {
    pub kinds: Vec<u16>,
    pub size: SizeRegime,
    pub strings: StrRegime,
    pub values: ValRegime,
    /// chance in 16 that a generated AVP is an opaque hidden one
    pub hidden_16: u8,
    pub max_avps: usize,
}

pub const ALL_ATTRS: [u16; 39] = [
    0, 1, 2, 3, 4, 5, 6, 7, 8, 9, 10, 11, 12, 13, 14, 15, 16, 17, 18, 19, 21, 22, 23, 24, 25, 26,
    27, 28, 29, 30, 31, 32, 33, 34, 35, 36, 37, 38, 39,
];

impl Swarm {
    pub fn draw(rng: &mut Rng) -> Swarm {
        let mut kinds: Vec<u16> = if rng.chance(1, 4) {
            ALL_ATTRS.to_vec()
        } else {
            let keep = rng.range(2, 12);
            ALL_ATTRS
                .iter()
                .copied()
                .filter(|_| rng.below(39) < keep * 3)
                .collect()
        };
        if !kinds.contains(&0) {
            kinds.insert(0, 0);
        }
        Swarm {
            kinds,
            size: *rng.pick(&[
                SizeRegime::Tiny,
                SizeRegime::Typical,
                SizeRegime::Typical,
                SizeRegime::Boundary,
                SizeRegime::Wide,
            ]),
            strings: *rng.pick(&[StrRegime::Ascii, StrRegime::Multi, StrRegime::Awkward]),
            values: *rng.pick(&[ValRegime::Uniform, ValRegime::Extremes]),
            hidden_16: *rng.pick(&[0u8, 0, 1, 2, 8]),
            max_avps: if rng.chance(1, 200) {
                // more records than any fixed-size table or counter expects
                *rng.pick(&[255usize, 256, 257, 300, 600])
            } else {
                *rng.pick(&[0usize, 1, 2, 3, 4, 6, 10, 24])
            },
        }
    }
    pub fn full() -> Swarm {
        Swarm {
            kinds: ALL_ATTRS.to_vec(),
            size: SizeRegime::Typical,
            strings: StrRegime::Multi,
            values: ValRegime::Extremes,
            hidden_16: 1,
            max_avps: 6,
        }
    }
}

pub fn var_len(rng: &mut Rng, s: SizeRegime, max: usize) -> usize {
    let n = match s {
        SizeRegime::Tiny => rng.urange(1, 4),
        SizeRegime::Typical => rng.urange(1, 40),
        SizeRegime::Boundary => *rng.pick(&[
            1usize, 2, 3, 15, 16, 17, 248, 249, 250, 251, 255, 256, 257, 511, 512, 1000, 1012,
            1013, 1014, 1015, 1016, 1017,
        ]),
        SizeRegime::Wide => {
            if rng.chance(1, 3) {
                let k = rng.urange(2, 9);
                ((1usize << k) as i64 + *rng.pick(&[-1i64, 0, 1])) as usize
            } else {
                rng.urange(1, max.max(1))
            }
        }
    };
    n.clamp(1, max.max(1))
}

/// Valid UTF-8 of exactly `n` octets.
pub fn utf8_of_len(rng: &mut Rng, n: usize, regime: StrRegime) -> Vec<u8> {
    if regime == StrRegime::Awkward {
        return awkward_utf8(rng, n);
    }
    let mut out = Vec::with_capacity(n);
    while out.len() < n {
        let room = n - out.len();
        let w = match regime {
            StrRegime::Ascii => 1,
            StrRegime::Multi | StrRegime::Awkward => rng.urange(1, 4).min(room),
        };
        let cp: u32 = match w {
            1 => rng.range(0x20, 0x7E) as u32,
            2 => rng.range(0x80, 0x7FF) as u32,
            3 => {
                // skip the surrogate range
                let c = rng.range(0x800, 0xFFFF) as u32;
                if (0xD800..=0xDFFF).contains(&c) {
                    0x20AC
                } else {
                    c
                }
            }
            _ => rng.range(0x10000, 0x10FFFF) as u32,
        };
        let ch = char::from_u32(cp).unwrap_or('?');
        let mut buf = [0u8; 4];
        let s = ch.encode_utf8(&mut buf);
        if s.len() <= room {
            out.extend_from_slice(s.as_bytes());
        } else {
            out.push(b'x');
        }
    }
    out
}

/// Exactly `n` octets of valid UTF-8 built from characters that tempt a
/// codec into trimming or terminating: runs of NUL / space / newline at
/// either end, control characters, DEL, BOM, U+FFFD, combining marks.
pub fn awkward_utf8(rng: &mut Rng, n: usize) -> Vec<u8> {
    const PIECES: [&str; 14] = [
        "\0", " ", "\n", "\r\n", "\t", "\u{7f}", "\u{1}", "\u{feff}", "\u{fffd}", "\u{301}", "a", "Z", "\u{e9}", "\u{a0}",
    ];
    let mut out: Vec<u8> = Vec::with_capacity(n);
    // a run of one trimmable character at the front and at the back
    let lead = *rng.pick(&["\0", " ", "\n", "", ""]);
    let trail = *rng.pick(&["\0", "\0", " ", "\n", "\r\n", ""]);
    let lead_n = if lead.is_empty() { 0 } else { rng.urange(0, 3) };
    let trail_n = if trail.is_empty() { 0 } else { rng.urange(0, 3) };
    let mut tail: Vec<u8> = Vec::new();
    for _ in 0..trail_n {
        tail.extend_from_slice(trail.as_bytes());
    }
    if tail.len() > n {
        tail.truncate(0);
    }
    for _ in 0..lead_n {
        if out.len() + lead.len() + tail.len() <= n {
            out.extend_from_slice(lead.as_bytes());
        }
    }
    while out.len() + tail.len() < n {
        let p = *rng.pick(&PIECES);
        if out.len() + tail.len() + p.len() <= n {
            out.extend_from_slice(p.as_bytes());
        } else {
            out.push(b'x');
        }
    }
    out.extend_from_slice(&tail);
    debug_assert_eq!(out.len(), n);
    out
}

fn num(rng: &mut Rng, bits: u32, v: ValRegime) -> u64 {
    // dictionary mode: the next constant of the code under test
    if let Some(x) = crate::dict::next_int(rng, bits) {
        return x;
    }
    match v {
        ValRegime::Uniform => {
            if bits >= 64 {
                rng.next_u64()
            } else {
                rng.next_u64() & ((1u64 << bits) - 1)
            }
        }
        ValRegime::Extremes => rng.extreme(bits),
    }
}

/// In dictionary mode, half of the time: a string constant of the code under
/// test (non-empty, at most `max` octets).
fn dict_text(rng: &mut Rng, max: usize, text: bool) -> Option<Vec<u8>> {
    if crate::dict::active() && rng.bool() {
        crate::dict::pick_str(rng, max, text).filter(|t| !t.is_empty())
    } else {
        None
    }
}

/// A valid, encodable, non-hidden AVP of attribute type `attr`.
pub fn gen_avp_of(rng: &mut Rng, sw: &Swarm, attr: u16) -> SpecAvp {
    let f = fmt_of(attr).expect("assigned attribute type");
    let v = sw.values;
    let val = match f {
        Fmt::MsgType => Val::Code(*rng.pick(&MESSAGE_TYPES)),
        Fmt::ProxyType => Val::Code(rng.range(0, MAX_PROXY_AUTHEN_TYPE as u64) as u16),
        Fmt::Result => {
            // the assigned result codes (0-11) half of the time
            let code = if rng.bool() { rng.range(0, 12) as u16 } else { num(rng, 16, v) as u16 };
            let error = if rng.chance(2, 3) {
                let et = rng.range(0, MAX_ERROR_TYPE as u64) as u16;
                let msg = if rng.bool() {
                    let n = var_len(rng, sw.size, MAX_PAYLOAD - 4);
                    Some(match dict_text(rng, MAX_PAYLOAD - 4, true) {
                        Some(t) => t,
                        None => utf8_of_len(rng, n, sw.strings),
                    })
                } else {
                    None
                };
                Some(ResErr { et, msg })
            } else {
                None
            };
            Val::Result { code, error }
        }
        Fmt::Pair => Val::Pair(num(rng, 8, v) as u8, num(rng, 8, v) as u8),
        Fmt::Mask => {
            // mostly the two capability bits (constructor path), sometimes
            // a full 32-bit word as received from a peer
            if rng.chance(2, 3) {
                Val::Mask(*rng.pick(&[0u32, 0x40, 0x80, 0xC0]))
            } else {
                Val::Mask(num(rng, 32, v) as u32)
            }
        }
        Fmt::U64 => Val::U64(num(rng, 64, v)),
        Fmt::U16 => Val::U16(num(rng, 16, v) as u16),
        Fmt::U32 => Val::U32(num(rng, 32, v) as u32),
        Fmt::Bytes => {
            let n = var_len(rng, sw.size, MAX_PAYLOAD);
            match dict_text(rng, MAX_PAYLOAD, false) {
                Some(t) => Val::Bytes(t),
                None => Val::Bytes(opaque_bytes(rng, n)),
            }
        }
        Fmt::Str => {
            let n = var_len(rng, sw.size, MAX_PAYLOAD);
            match dict_text(rng, MAX_PAYLOAD, true) {
                Some(t) => Val::Str(t),
                None => Val::Str(utf8_of_len(rng, n, sw.strings)),
            }
        }
        Fmt::Q931 => {
            let advisory = if rng.bool() {
                let n = var_len(rng, sw.size, MAX_PAYLOAD - 3);
                Some(utf8_of_len(rng, n, sw.strings))
            } else {
                None
            };
            Val::Q931 {
                code: num(rng, 16, v) as u16,
                msg: num(rng, 8, v) as u8,
                advisory,
            }
        }
        Fmt::Fix16 => {
            let b = rng.bytes(16);
            let mut a = [0u8; 16];
            a.copy_from_slice(&b);
            Val::Fix16(a)
        }
        Fmt::Fix4 => {
            let b = rng.bytes(4);
            Val::Fix4([b[0], b[1], b[2], b[3]])
        }
        Fmt::ProxyId => Val::ProxyId(num(rng, 8, v) as u8),
        Fmt::CallErrors => {
            let mut a = [0u32; 6];
            for x in a.iter_mut() {
                *x = num(rng, 32, v) as u32;
            }
            Val::CallErrors(a)
        }
        Fmt::Accm => {
            let b = rng.bytes(8);
            Val::Accm([b[0], b[1], b[2], b[3]], [b[4], b[5], b[6], b[7]])
        }
        Fmt::Empty => Val::Empty,
    };
    SpecAvp { attr, val }
}

pub fn gen_hidden(rng: &mut Rng, sw: &Swarm) -> SpecAvp {
    let attr = if rng.chance(2, 3) {
        *rng.pick(&ALL_ATTRS)
    } else {
        rng.extreme(16) as u16
    };
    // a third of the time the value has exactly the plain payload size of the
    // announced type (an H bit on an unencrypted value, as a confused peer or
    // a flipped bit produces), or that size +- 2
    let natural = fmt_of(attr).map(min_payload);
    let n = match sw.size {
        _ if natural.is_some() && rng.chance(1, 3) => {
            (natural.unwrap() as i64 + *rng.pick(&[0i64, 0, 0, 2, -2])).max(0) as usize
        }
        SizeRegime::Boundary => *rng.pick(&[0usize, 1, 16, 32, 1008, 1016, 1017]),
        SizeRegime::Tiny => *rng.pick(&[0usize, 1, 16]),
        SizeRegime::Typical => *rng.pick(&[0usize, 5, 16, 32, 48, 64, 33]),
        SizeRegime::Wide => rng.urange(0, 1017),
    };
    SpecAvp {
        attr,
        val: Val::Hidden(rng.bytes(n)),
    }
}

/// Any AVP of the run's swarm (non-hidden of an enabled kind, or hidden).
pub fn gen_avp(rng: &mut Rng, sw: &Swarm) -> SpecAvp {
    if (rng.below(16) as u8) < sw.hidden_16 {
        gen_hidden(rng, sw)
    } else {
        let attr = *rng.pick(&sw.kinds);
        gen_avp_of(rng, sw, attr)
    }
}

pub fn encoded_len(a: &SpecAvp) -> usize {
    6 + spec_payload(a).len()
}

/// A control message in the encodable domain (first AVP, if any, is a
/// Message Type; total at most `limit` octets).
pub fn gen_control(rng: &mut Rng, sw: &Swarm, limit: usize) -> SpecMessage {
    // one message in fourteen is filled from the constants of the code
    // under test (successive fields from successive constants)
    crate::dict::maybe_dict_mode(rng, 14, |rng| gen_control_inner(rng, sw, limit))
}

fn gen_control_inner(rng: &mut Rng, sw: &Swarm, limit: usize) -> SpecMessage {
    if limit >= 300 && rng.chance(1, 10) {
        let m = gen_realistic(rng);
        if spec_encode(&m).len() <= limit {
            return m;
        }
    }
    let many = sw.max_avps > 100;
    let n = if sw.max_avps == 0 {
        0
    } else if many {
        sw.max_avps
    } else {
        rng.urange(0, sw.max_avps)
    };
    let tiny;
    let sw = if many {
        // keep each record small so that hundreds fit
        let mut t = sw.clone();
        t.size = SizeRegime::Tiny;
        t.hidden_16 = 0;
        tiny = t;
        &tiny
    } else {
        sw
    };
    let mut avps = Vec::with_capacity(n);
    let mut total = 12;
    for i in 0..n {
        let a = if i == 0 {
            gen_avp_of(rng, sw, 0)
        } else {
            gen_avp(rng, sw)
        };
        let l = encoded_len(&a);
        if total + l > limit {
            break;
        }
        total += l;
        avps.push(a);
    }
    // coincidences between fields: two fixed-size AVPs of the same shape
    // carrying the same value (Tx == Rx connect speed, minimum == maximum
    // BPS, assigned ids equal), a header field equal to an AVP's value
    let mut ids: Option<(u16, u16)> = None;
    if !many && avps.len() >= 2 && rng.chance(1, 5) {
        for _ in 0..rng.urange(1, 3) {
            let i = rng.urange(1, avps.len() - 1);
            let donor = avps[i].val.clone();
            let fixed = matches!(donor, Val::U16(_) | Val::U32(_) | Val::U64(_) | Val::Mask(_) | Val::Fix4(_) | Val::Fix16(_));
            if !fixed {
                continue;
            }
            let same: Vec<usize> = (1..avps.len())
                .filter(|&j| j != i && std::mem::discriminant(&avps[j].val) == std::mem::discriminant(&donor))
                .collect();
            if !same.is_empty() {
                let j = *rng.pick(&same);
                avps[j].val = donor.clone();
            }
            if let Val::U16(v) = donor {
                ids = Some((v, if rng.bool() { v } else { rng.u16() }));
            }
        }
    }
    // sibling attributes carrying equal values
    if !many && !avps.is_empty() && rng.chance(1, 6) {
        const SIBLINGS: [(u16, u16); 8] = [(24, 38), (38, 24), (16, 17), (17, 16), (9, 14), (14, 9), (4, 18), (18, 4)];
        let (a, b) = *rng.pick(&SIBLINGS);
        if sw.kinds.contains(&a) && sw.kinds.contains(&b) {
            let donor = match avps.iter().position(|x| x.attr == a && !x.is_hidden()) {
                Some(i) => avps[i].clone(),
                None => gen_avp_of(rng, sw, a),
            };
            if !donor.is_hidden() && total + 2 * encoded_len(&donor) <= limit {
                if !avps.iter().any(|x| x.attr == a) {
                    total += encoded_len(&donor);
                    avps.push(donor.clone());
                }
                let sib = SpecAvp { attr: b, val: donor.val.clone() };
                total += encoded_len(&sib);
                match avps.iter().position(|x| x.attr == b && !x.is_hidden()) {
                    Some(j) => {
                        total -= encoded_len(&avps[j]);
                        avps[j] = sib;
                    }
                    None => avps.push(sib),
                }
            }
        }
    }
    // values that repeat something else about the message: an integer AVP
    // equal to the message's own length, to the number of its AVPs, to the
    // offset or length of a record, to its own attribute type
    if !many && avps.len() >= 2 && rng.chance(1, 12) {
        let i = rng.urange(1, avps.len() - 1);
        let offset: usize = 12 + avps[..i].iter().map(encoded_len).sum::<usize>();
        let v: u64 = match rng.below(6) {
            0 => total as u64,
            1 => avps.len() as u64,
            2 => offset as u64,
            3 => encoded_len(&avps[i]) as u64,
            4 => avps[i].attr as u64,
            _ => (total - 12) as u64,
        };
        match &mut avps[i].val {
            Val::U16(x) => *x = v as u16,
            Val::U32(x) => *x = v as u32,
            Val::U64(x) => *x = v,
            _ => {}
        }
    }
    // the `length` member is ignored by the encoder: stale values of every
    // kind, biased to the ones a shortcut would compare against
    let length = match rng.below(10) {
        0..=3 => 0,
        4 => 12,
        5 => total as u16,
        6 => (total as u16).wrapping_add(*rng.pick(&[1u16, 0xFFFF, 6, 12])),
        7 => rng.extreme(16) as u16,
        _ => rng.u16(),
    };
    let (tunnel_id, session_id) = match ids {
        Some(p) => p,
        None => (num(rng, 16, sw.values) as u16, num(rng, 16, sw.values) as u16),
    };
    let ns = num(rng, 16, sw.values) as u16;
    let nr = match rng.below(12) {
        0 | 1 => ns,
        2 => ns.swap_bytes(),
        3 => ns.wrapping_add(1),
        4 => !ns,
        _ => num(rng, 16, sw.values) as u16,
    };
    SpecMessage::Control {
        length,
        tunnel_id,
        session_id,
        ns,
        nr,
        avps,
    }
}

/// A data message in C04's domain: non-empty payload, `length` absent or
/// the true total, `offset` absent or `n <= |data| - 1`.
pub fn gen_data(rng: &mut Rng, sw: &Swarm) -> SpecMessage {
    crate::dict::maybe_dict_mode(rng, 20, |rng| gen_data_inner(rng, sw))
}

fn gen_data_inner(rng: &mut Rng, sw: &Swarm) -> SpecMessage {
    let has_l = rng.bool();
    let has_s = rng.bool();
    let has_o = rng.bool();
    let prio = rng.bool();
    let dl = match sw.size {
        SizeRegime::Tiny => rng.urange(1, 4),
        SizeRegime::Typical => rng.urange(1, 64),
        SizeRegime::Boundary => *rng.pick(&[1usize, 2, 3, 255, 256, 1500, 4000]),
        SizeRegime::Wide => {
            if rng.chance(1, 3) {
                let k = rng.urange(1, 13);
                ((1usize << k) as i64 + *rng.pick(&[-1i64, 0, 1])).max(1) as usize
            } else {
                rng.urange(1, 9000)
            }
        }
    };
    let data = rng.bytes(dl);
    let offset = if has_o {
        let max = dl - 1;
        let n = match rng.below(4) {
            0 => 0,
            1 => max.min(1),
            2 => max,
            _ => rng.urange(0, max),
        };
        Some(n as u16)
    } else {
        None
    };
    // what tunnels carry: the payload (after the offset padding) is a PPP
    // frame now and then - LCP / IPCP / PAP / CHAP packets with their own
    // code, identifier and length, IPv4, with or without the address and
    // control octets, with a one- or two-octet protocol number
    let mut data = data;
    if rng.chance(1, 5) {
        let pad = offset.map_or(0, |n| n as usize);
        let room = dl - pad;
        let proto: &[u8] = *rng.pick(&[
            &[0xc0u8, 0x21][..],
            &[0xc0, 0x21],
            &[0x80, 0x21],
            &[0xc0, 0x23],
            &[0xc2, 0x23],
            &[0x00, 0x21],
            &[0x21],
            &[0x80, 0xfd],
        ]);
        let mut f: Vec<u8> = Vec::new();
        if rng.chance(3, 4) {
            f.extend_from_slice(&[0xff, 0x03]);
        }
        f.extend_from_slice(proto);
        if proto.last() == Some(&0x21) && proto.first() != Some(&0xc0) && proto.first() != Some(&0x80) {
            // IPv4 header start
            f.extend_from_slice(&[0x45, 0x00]);
            f.extend_from_slice(&(room as u16).to_be_bytes());
        } else {
            // code (1..=12: Configure-Request .. Identification; 9/10 echo), identifier, length
            f.push(*rng.pick(&[1u8, 2, 3, 4, 5, 6, 9, 9, 10, 11, 12]));
            f.push(rng.u8());
            let l = (room.saturating_sub(f.len() - 2)) as u16;
            f.extend_from_slice(&l.to_be_bytes());
            f.extend_from_slice(&rng.bytes(4)); // magic number
        }
        let k = f.len().min(room);
        data[pad..pad + k].copy_from_slice(&f[..k]);
    }
    let total = data_header_len(has_l, has_s, has_o) + dl;
    // header fields that coincide: equal ids, Ns = Nr, an id equal to the length
    let tunnel_id = num(rng, 16, sw.values) as u16;
    let session_id = match rng.below(12) {
        0 => tunnel_id,
        1 => total as u16,
        _ => num(rng, 16, sw.values) as u16,
    };
    let ns = num(rng, 16, sw.values) as u16;
    let nr = match rng.below(8) {
        0 => ns,
        1 => ns.wrapping_add(1),
        _ => num(rng, 16, sw.values) as u16,
    };
    SpecMessage::Data {
        prio,
        length: if has_l { Some(total as u16) } else { None },
        tunnel_id,
        session_id,
        ns_nr: if has_s { Some((ns, nr)) } else { None },
        offset,
        data,
    }
}

/// What the decoder must return for an encoded data message of C04's domain.
pub fn data_expected_after_decode(m: &SpecMessage) -> SpecMessage {
    match m {
        SpecMessage::Data {
            prio,
            length,
            tunnel_id,
            session_id,
            ns_nr,
            offset,
            data,
        } => SpecMessage::Data {
            prio: *prio,
            length: *length,
            tunnel_id: *tunnel_id,
            session_id: *session_id,
            ns_nr: *ns_nr,
            offset: None,
            data: data[offset.unwrap_or(0) as usize..].to_vec(),
        },
        other => other.clone(),
    }
}

/// A knob tape for the foreign (non-canonical) encoder.
pub fn gen_knobs(rng: &mut Rng, len: usize) -> Vec<u8> {
    match rng.below(4) {
        0 => Vec::new(),
        1 => {
            // sparse: mostly canonical with a few odd choices
            let mut v = vec![0u8; len];
            for _ in 0..rng.urange(1, 3) {
                if len > 0 {
                    let i = rng.usize_below(len);
                    v[i] = rng.u8();
                }
            }
            v
        }
        _ => rng.bytes(len),
    }
}

// ---------------------------------------------------------------------------
// Generic shrink helpers
// ---------------------------------------------------------------------------

pub fn shrink_bytes(b: &[u8]) -> Vec<Vec<u8>> {
    let mut out = Vec::new();
    let n = b.len();
    if n == 0 {
        return out;
    }
    out.push(Vec::new());
    out.push(b[..n / 2].to_vec());
    out.push(b[n / 2..].to_vec());
    if n > 1 {
        out.push(b[..n - 1].to_vec());
        out.push(b[1..].to_vec());
    }
    // delete aligned blocks
    for blk in [64usize, 16, 8, 4, 2, 1] {
        if blk < n {
            let mut i = 0;
            let mut k = 0;
            while i + blk <= n && k < 24 {
                let mut v = b[..i].to_vec();
                v.extend_from_slice(&b[i + blk..]);
                out.push(v);
                i += blk;
                k += 1;
            }
        }
    }
    if n <= 64 {
        // shrink octet values too (length fields, codes)
        for i in 0..n {
            if b[i] > 1 {
                let mut v = b.to_vec();
                v[i] /= 2;
                out.push(v);
                let mut v = b.to_vec();
                v[i] -= 1;
                out.push(v);
            }
        }
    }
    if b.iter().any(|&x| x != 0) {
        out.push(vec![0u8; n]);
        // zero single octets (first 32)
        for i in 0..n.min(32) {
            if b[i] != 0 {
                let mut v = b.to_vec();
                v[i] = 0;
                out.push(v);
            }
        }
    }
    out
}

pub fn shrink_avp(a: &SpecAvp) -> Vec<SpecAvp> {
    let mut out = Vec::new();
    let attr = a.attr;
    let mk = |val: Val| SpecAvp { attr, val };
    match &a.val {
        Val::Code(_) | Val::Empty => {}
        Val::Result { code, error } => {
            if error.is_some() {
                out.push(mk(Val::Result {
                    code: *code,
                    error: None,
                }));
            }
            if let Some(ResErr { et, msg: Some(m) }) = error {
                out.push(mk(Val::Result {
                    code: *code,
                    error: Some(ResErr { et: *et, msg: None }),
                }));
                for s in shrink_bytes(m).into_iter().take(6) {
                    if !s.is_empty() && utf8_ok(&s) {
                        out.push(mk(Val::Result {
                            code: *code,
                            error: Some(ResErr { et: *et, msg: Some(s) }),
                        }));
                    }
                }
            }
            if *code != 0 {
                out.push(mk(Val::Result {
                    code: 0,
                    error: error.clone(),
                }));
            }
        }
        Val::Pair(x, y) => {
            if (*x, *y) != (0, 0) {
                out.push(mk(Val::Pair(0, 0)));
            }
        }
        Val::U16(v) => {
            if *v != 0 {
                out.push(mk(Val::U16(0)));
            }
        }
        Val::U32(v) => {
            if *v != 0 {
                out.push(mk(Val::U32(0)));
            }
        }
        Val::Mask(v) => {
            if *v != 0 {
                out.push(mk(Val::Mask(0)));
                out.push(mk(Val::Mask(*v & 0xC0)));
            }
        }
        Val::U64(v) => {
            if *v != 0 {
                out.push(mk(Val::U64(0)));
            }
        }
        Val::Bytes(b) => {
            for s in shrink_bytes(b).into_iter().take(12) {
                if !s.is_empty() {
                    out.push(mk(Val::Bytes(s)));
                }
            }
        }
        Val::Str(b) => {
            for s in shrink_bytes(b).into_iter().take(12) {
                if !s.is_empty() && utf8_ok(&s) {
                    out.push(mk(Val::Str(s)));
                }
            }
            if b.len() > 1 {
                out.push(mk(Val::Str(b"a".to_vec())));
            }
        }
        Val::Q931 {
            code,
            msg,
            advisory,
        } => {
            if advisory.is_some() {
                out.push(mk(Val::Q931 {
                    code: *code,
                    msg: *msg,
                    advisory: None,
                }));
            }
            if *code != 0 || *msg != 0 {
                out.push(mk(Val::Q931 {
                    code: 0,
                    msg: 0,
                    advisory: advisory.clone(),
                }));
            }
        }
        Val::Fix4(v) => {
            if *v != [0; 4] {
                out.push(mk(Val::Fix4([0; 4])));
            }
        }
        Val::Fix16(v) => {
            if *v != [0; 16] {
                out.push(mk(Val::Fix16([0; 16])));
            }
        }
        Val::ProxyId(v) => {
            if *v != 0 {
                out.push(mk(Val::ProxyId(0)));
            }
        }
        Val::CallErrors(v) => {
            if *v != [0; 6] {
                out.push(mk(Val::CallErrors([0; 6])));
            }
        }
        Val::Accm(a1, a2) => {
            if *a1 != [0; 4] || *a2 != [0; 4] {
                out.push(mk(Val::Accm([0; 4], [0; 4])));
            }
        }
        Val::Hidden(b) => {
            for s in shrink_bytes(b).into_iter().take(12) {
                out.push(mk(Val::Hidden(s)));
            }
        }
    }
    out
}

pub fn shrink_msg(m: &SpecMessage) -> Vec<SpecMessage> {
    // stay inside the encodable domain: a control message's first AVP, if
    // any, is a (non-hidden) Message Type
    shrink_msg_raw(m)
        .into_iter()
        .filter(|c| match c {
            SpecMessage::Control { avps, .. } => match avps.first() {
                None => true,
                Some(a) => a.attr == 0 && matches!(a.val, Val::Code(_)),
            },
            _ => true,
        })
        .collect()
}

fn shrink_msg_raw(m: &SpecMessage) -> Vec<SpecMessage> {
    let mut out = Vec::new();
    match m {
        SpecMessage::Control {
            length,
            tunnel_id,
            session_id,
            ns,
            nr,
            avps,
        } => {
            let mk = |avps: Vec<SpecAvp>| SpecMessage::Control {
                length: *length,
                tunnel_id: *tunnel_id,
                session_id: *session_id,
                ns: *ns,
                nr: *nr,
                avps,
            };
            if avps.len() > 1 {
                out.push(mk(avps[..1].to_vec()));
                out.push(mk(avps[..avps.len() / 2].to_vec()));
            }
            for i in (0..avps.len()).rev() {
                let mut v = avps.clone();
                v.remove(i);
                out.push(mk(v));
            }
            for (i, a) in avps.iter().enumerate() {
                for s in shrink_avp(a).into_iter().take(8) {
                    let mut v = avps.clone();
                    v[i] = s;
                    out.push(mk(v));
                }
                if !(a.attr == 6 && a.val == Val::U16(0)) && i > 0 {
                    let mut v = avps.clone();
                    v[i] = SpecAvp {
                        attr: 6,
                        val: Val::U16(0),
                    };
                    out.push(mk(v));
                }
            }
            if (*length, *tunnel_id, *session_id, *ns, *nr) != (0, 0, 0, 0, 0) {
                out.push(SpecMessage::Control {
                    length: 0,
                    tunnel_id: 0,
                    session_id: 0,
                    ns: 0,
                    nr: 0,
                    avps: avps.clone(),
                });
            }
        }
        SpecMessage::Data {
            prio,
            length,
            tunnel_id,
            session_id,
            ns_nr,
            offset,
            data,
        } => {
            let base = |data: Vec<u8>, offset: Option<u16>, ns_nr: Option<(u16, u16)>, prio: bool, has_l: bool| {
                let total = data_header_len(has_l, ns_nr.is_some(), offset.is_some()) + data.len();
                SpecMessage::Data {
                    prio,
                    length: if has_l { Some(total as u16) } else { None },
                    tunnel_id: *tunnel_id,
                    session_id: *session_id,
                    ns_nr,
                    offset,
                    data,
                }
            };
            let true_len = length.map_or(true, |l| {
                l as usize
                    == data_header_len(true, ns_nr.is_some(), offset.is_some()) + data.len()
            });
            if true_len {
                let has_l = length.is_some();
                if offset.is_some() {
                    out.push(base(data.clone(), None, *ns_nr, *prio, has_l));
                    out.push(base(data.clone(), Some(0), *ns_nr, *prio, has_l));
                }
                if ns_nr.is_some() {
                    out.push(base(data.clone(), *offset, None, *prio, has_l));
                }
                if *prio {
                    out.push(base(data.clone(), *offset, *ns_nr, false, has_l));
                }
                if has_l {
                    out.push(base(data.clone(), *offset, *ns_nr, *prio, false));
                }
                let keep = offset.unwrap_or(0) as usize + 1;
                for s in shrink_bytes(data).into_iter().take(10) {
                    if s.len() >= keep {
                        out.push(base(s, *offset, *ns_nr, *prio, has_l));
                    }
                }
            }
            if (*tunnel_id, *session_id) != (0, 0) {
                out.push(SpecMessage::Data {
                    prio: *prio,
                    length: *length,
                    tunnel_id: 0,
                    session_id: 0,
                    ns_nr: *ns_nr,
                    offset: *offset,
                    data: data.clone(),
                });
            }
        }
    }
    out
}

/// Shared-secret lengths: empty, short, around the MD5 block sizes, and the
/// long ones that cross fixed-size scratch buffers.
pub fn secret_len(rng: &mut Rng) -> usize {
    match rng.below(8) {
        0..=4 => *rng.pick(&[0usize, 1, 5, 8, 15, 16, 17, 33, 55, 56, 64]),
        5 => *rng.pick(&[119usize, 120, 127, 128, 239, 240, 241, 245, 250, 251, 255, 256, 257]),
        6 => rng.urange(0, 300),
        _ => *rng.pick(&[300usize, 511, 512, 1000, 4096]),
    }
}

/// Opaque octets as a caller might plausibly supply them: mostly random, but
/// sometimes shaped like a packet of some inner protocol whose own header
/// describes its length (PPP LCP/PAP/CHAP: code, identifier, 16-bit length;
/// TLV lists: type, 8-bit length), or all zero / all 0xFF, or text.
pub fn opaque_bytes(rng: &mut Rng, n: usize) -> Vec<u8> {
    let mut v = rng.bytes(n);
    match rng.below(12) {
        0 if n >= 4 => {
            // inner packet: code, identifier, length = own length (+-0/2/4)
            v[0] = *rng.pick(&[1u8, 2, 3, 4, 0, 9]);
            let l = (n as i64 + *rng.pick(&[0i64, 0, 0, -4, 4, -2])) as u16;
            v[2..4].copy_from_slice(&l.to_be_bytes());
        }
        1 if n >= 2 => {
            // option list: type, length covering the whole value or one option
            v[0] = *rng.pick(&[1u8, 2, 3, 5, 7, 8]);
            v[1] = if rng.bool() { n as u8 } else { *rng.pick(&[2u8, 4, 6]) };
        }
        2 => {
            let x = *rng.pick(&[0u8, 0xFF]);
            v.iter_mut().for_each(|b| *b = x);
        }
        3 => {
            for b in v.iter_mut() {
                *b = b'a' + (*b % 26);
            }
        }
        4 if n >= 2 => {
            // 16-bit big-endian length prefix of itself
            let l = (n as i64 + *rng.pick(&[0i64, -2, 6])) as u16;
            v[0..2].copy_from_slice(&l.to_be_bytes());
        }
        _ => {}
    }
    v
}

/// Control messages shaped like real L2TP traffic (RFC 2661 section 6): the
/// message kinds with the AVP sets, id conventions (tunnel 0 on SCCRQ,
/// session 0 on tunnel-level messages) and value ranges an implementation
/// actually sends. Defects tied to protocol meaning rather than to layout
/// live here.
pub fn gen_realistic(rng: &mut Rng) -> SpecMessage {
    gen_realistic_of(rng, None)
}

pub fn gen_realistic_of(rng: &mut Rng, kind: Option<u16>) -> SpecMessage {
    crate::dict::maybe_dict_mode(rng, 6, |rng| gen_realistic_inner(rng, kind))
}

fn gen_realistic_inner(rng: &mut Rng, kind: Option<u16>) -> SpecMessage {
    let sw = Swarm {
        kinds: ALL_ATTRS.to_vec(),
        size: SizeRegime::Typical,
        strings: StrRegime::Ascii,
        values: ValRegime::Uniform,
        hidden_16: 0,
        max_avps: 12,
    };
    let mt = kind.unwrap_or_else(|| *rng.pick(&MESSAGE_TYPES));
    let mut avps = vec![SpecAvp { attr: 0, val: Val::Code(mt) }];
    let add = |rng: &mut Rng, attr: u16, avps: &mut Vec<SpecAvp>| avps.push(gen_avp_of(rng, &sw, attr));
    let (tunnel_zero, session_zero) = match mt {
        1 => {
            // SCCRQ
            avps.push(SpecAvp { attr: 2, val: Val::Pair(1, 0) });
            for a in [7u16, 3, 9] {
                add(rng, a, &mut avps);
            }
            for a in [4u16, 10, 11, 5, 6, 8] {
                if rng.bool() {
                    add(rng, a, &mut avps);
                }
            }
            (true, true)
        }
        2 => {
            avps.push(SpecAvp { attr: 2, val: Val::Pair(1, 0) });
            for a in [3u16, 7, 9] {
                add(rng, a, &mut avps);
            }
            for a in [4u16, 6, 8, 10, 11, 13] {
                if rng.bool() {
                    add(rng, a, &mut avps);
                }
            }
            (false, true)
        }
        3 => {
            if rng.bool() {
                add(rng, 13, &mut avps);
            }
            (false, true)
        }
        4 => {
            add(rng, 9, &mut avps);
            add(rng, 1, &mut avps);
            (rng.bool(), true)
        }
        6 => (false, true),
        7 => {
            for a in [14u16, 15, 16, 17, 18, 19, 21] {
                add(rng, a, &mut avps);
            }
            if rng.bool() {
                add(rng, 23, &mut avps);
            }
            (false, true)
        }
        8 | 11 => {
            add(rng, 14, &mut avps);
            if rng.bool() {
                add(rng, 25, &mut avps);
            }
            (false, false)
        }
        9 | 12 => {
            for a in [24u16, 19] {
                add(rng, a, &mut avps);
            }
            // symmetric connections are the common case
            if rng.bool() {
                let tx = avps.iter().find(|a| a.attr == 24).map(|a| a.val.clone());
                if let Some(Val::U32(v)) = tx {
                    avps.push(SpecAvp { attr: 38, val: Val::U32(if rng.chance(3, 4) { v } else { rng.u32() }) });
                }
            }
            for a in [26u16, 27, 28, 29, 30, 31, 32, 33, 37, 39] {
                if rng.chance(1, 3) {
                    add(rng, a, &mut avps);
                }
            }
            (false, false)
        }
        10 => {
            for a in [14u16, 15] {
                add(rng, a, &mut avps);
            }
            for a in [18u16, 25, 21, 22, 23] {
                if rng.bool() {
                    add(rng, a, &mut avps);
                }
            }
            (false, true)
        }
        14 => {
            add(rng, 1, &mut avps);
            add(rng, 14, &mut avps);
            if rng.bool() {
                add(rng, 12, &mut avps);
            }
            (false, false)
        }
        15 => {
            add(rng, 34, &mut avps);
            (false, false)
        }
        _ => {
            add(rng, 35, &mut avps);
            (false, false)
        }
    };
    // LCP CONFREQ AVPs carry real-looking option lists or whole packets
    for a in avps.iter_mut() {
        if matches!(a.attr, 26 | 27 | 28) {
            let mut opts: Vec<u8> = vec![1, 4, 0, 0, 5, 6, rng.u8(), rng.u8(), rng.u8(), rng.u8(), 2, 6, 0, 0x0a, 0, 0];
            let mru_is_len = rng.bool();
            let total = opts.len() as u16;
            let mru = if mru_is_len { total } else { 1500 };
            opts[2..4].copy_from_slice(&mru.to_be_bytes());
            if rng.chance(1, 3) {
                // whole packet: code 1, id, length
                let mut p = vec![1u8, rng.u8(), 0, 0];
                p.extend_from_slice(&opts);
                let l = p.len() as u16;
                p[2..4].copy_from_slice(&l.to_be_bytes());
                opts = p;
            }
            a.val = Val::Bytes(opts);
        }
    }
    let ns = rng.range(0, 5) as u16;
    SpecMessage::Control {
        length: 0,
        tunnel_id: if tunnel_zero { 0 } else { rng.range(1, 65535) as u16 },
        session_id: if session_zero { 0 } else { rng.range(1, 65535) as u16 },
        ns,
        nr: if rng.bool() { 0 } else { ns.wrapping_add(1) },
        avps,
    }
}


/// Messages related to `m` the way an encoder-side memo keyed too coarsely
/// (ids, sequence numbers, length, AVP count, first AVP) would confuse them:
/// the same message, one with another Ns/Nr or id, one AVP value changed
/// (same size), one AVP more or less, the AVPs in another order.
pub fn related_messages(rng: &mut Rng, m: &SpecMessage, n: usize) -> Vec<SpecMessage> {
    let mut out = Vec::new();
    for _ in 0..n {
        let mut v = m.clone();
        match &mut v {
            SpecMessage::Control { tunnel_id, session_id, ns, nr, avps, length } => match rng.below(8) {
                0 | 1 => {}
                2 => *ns = ns.wrapping_add(1),
                3 => *nr = nr.wrapping_add(1),
                4 => {
                    if rng.bool() {
                        *tunnel_id ^= 1 << rng.below(16);
                    } else {
                        *session_id ^= 1 << rng.below(16);
                    }
                }
                5 if avps.len() >= 2 => {
                    // another value of the same size in one AVP
                    let i = rng.urange(1, avps.len() - 1);
                    match &mut avps[i].val {
                        Val::U16(x) => *x = x.wrapping_add(1),
                        Val::U32(x) => *x = x.wrapping_add(1),
                        Val::U64(x) => *x = x.wrapping_add(1),
                        Val::Bytes(b) | Val::Str(b) | Val::Hidden(b) if !b.is_empty() => {
                            let k = rng.usize_below(b.len());
                            b[k] = if b[k] == b'a' { b'b' } else { b'a' };
                        }
                        Val::Fix4(b) => b[3] ^= 1,
                        Val::Fix16(b) => b[15] ^= 1,
                        _ => {}
                    }
                }
                6 if avps.len() >= 3 => {
                    let i = rng.urange(1, avps.len() - 1);
                    if rng.bool() {
                        avps.remove(i);
                    } else {
                        let j = rng.urange(1, avps.len() - 1);
                        avps.swap(i, j);
                    }
                }
                _ => {
                    *length = if rng.bool() { 0 } else { rng.u16() };
                }
            },
            SpecMessage::Data { tunnel_id, ns_nr, data, prio, .. } => match rng.below(5) {
                0 | 1 => {}
                2 => *tunnel_id = tunnel_id.wrapping_add(1),
                3 => {
                    if let Some((a, _)) = ns_nr {
                        *a = a.wrapping_add(1);
                    } else {
                        *prio = !*prio;
                    }
                }
                _ => {
                    if let Some(x) = data.last_mut() {
                        *x ^= 1;
                    }
                }
            },
        }
        out.push(v);
    }
    out
}
