//! Execution environments: the circumstances under which a case runs on its
//! thread. The codec is supposed to be a pure function of its arguments, so
//! every property has to hold in each of them; a case carries its
//! environment with it (JSON envelope `{"__env": .., "case": ..}`), so a
//! failure that needs the environment replays and minimises with it.
//!
//! * `After(poison)`: immediately before the case, the same thread performed
//!   an operation that the library refuses — by a panic that the caller
//!   catches (an AVP or message too large for its length field, a writer
//!   that is full) or by an error return (a truncated datagram). What a
//!   refused operation leaves behind must not reach the next one.
//! * `Unwinding`: the case runs inside a destructor while its thread unwinds
//!   from an unrelated panic (`std::thread::panicking()` is true), the
//!   situation of a `Drop` implementation that sends StopCCN / CDN.
//! * `Inside`: the case runs in the middle of another library call on the
//!   same thread — from inside the `at`-th method call that an encode in
//!   progress makes on the caller's `Writer`, or that a decode in progress
//!   makes on the caller's `Reader` (a writer that logs through the library,
//!   a reader that decodes a look-ahead copy). Whatever the outer call holds
//!   at that moment (a lock, a borrowed cell, a lease on a shared buffer)
//!   must not reach the nested one.

use crate::core::{guard, Failure};
use crate::rng::Rng;
use crate::seams::{Monitor, SimSlice, SimWriter, WriterCfg};
use rl2tp::avp::types;
use rl2tp::avp::AVP;
use rl2tp::common::{SliceReader, VecWriter};
use rl2tp::{ControlMessage, DataMessage, Message};
use serde::{Deserialize, Serialize};

#[derive(Clone, Debug, PartialEq, Eq, Serialize, Deserialize)]
pub enum Poison {
    /// `AVP::write` of a Host Name AVP with this many value octets (> 1017)
    OversizeAvp(usize),
    /// `Message::write` of a control message holding such an AVP after
    /// `before` ordinary AVPs
    OversizeAvpInControl { before: usize, len: usize },
    /// `Message::write` of a control message of more than 65535 octets
    OversizeControl,
    /// `AVP::hide` of a Host Name AVP with this many value octets
    OversizeHide(usize),
    /// `Message::write` of an ordinary control message into a writer with
    /// room for `room` octets
    FullWriter { room: usize, avps: usize },
    /// `Message::write` of a data message into a full writer
    FullWriterData { room: usize },
    /// decode of a control message cut after `keep` octets (error return)
    TruncatedDecode { keep: usize },
    /// decode of a control message whose k-th AVP is undecodable
    BadAvpDecode { k: usize },
    /// `AVP::reveal` with the wrong secret (error return or garbage value)
    WrongSecretReveal,
}

/// A cheap operation repeated many times before the case (a process that
/// has been in service for a while): counters that saturate or wrap, "every
/// Nth call" paths, slots that fill up.
#[derive(Clone, Copy, Debug, PartialEq, Eq, Serialize, Deserialize)]
pub enum SoakOp {
    DecodeControl,
    DecodeData,
    Greedy,
    EncodeControl,
    EncodeAvp,
    HideReveal,
    FailedDecode,
}

/// An ordinary, successful operation that leaves a thread "warm" (large
/// buffers grown, caches filled) before it goes idle.
#[derive(Clone, Copy, Debug, PartialEq, Eq, Serialize, Deserialize)]
pub enum Warm {
    /// `AVP::write` of a Host Name of this many octets
    BigAvp(u16),
    /// a control message with this many ordinary AVPs, encoded and decoded
    BigControl(u8),
    /// hide and reveal of a Host Name of this many octets
    BigHide(u16),
    Nothing,
}

/// The library call in progress around an `Inside` case.
#[derive(Clone, Copy, Debug, PartialEq, Eq, Serialize, Deserialize)]
pub enum Outer {
    /// `Message::write` of a control message with three AVPs
    EncodeControl,
    /// `AVP::write` of a Host Name
    EncodeAvp,
    /// `Message::try_read` of that control message
    DecodeControl,
    /// `AVP::try_read_greedy` over its AVPs
    Greedy,
}

#[derive(Clone, Debug, PartialEq, Eq, Serialize, Deserialize)]
pub enum Env {
    /// from inside the `at`-th call that `outer` makes on its writer / reader
    Inside { outer: Outer, at: u8 },
    /// a successful operation, then the thread is idle for `secs` seconds of
    /// SIMULATED time (the process's clock jumps forward), then the case
    AfterIdle { warm: Warm, secs: u32 },
    After(Poison),
    Unwinding,
    AfterThenUnwinding(Poison),
    /// `count` repetitions of `op` on this thread before the case
    AfterMany { op: SoakOp, count: u32 },
}

impl Env {
    pub fn text(&self) -> String {
        match self {
            Env::After(p) => format!("right after a refused operation on the same thread ({p:?})"),
            Env::Unwinding => "inside a destructor while the thread unwinds from an unrelated panic".into(),
            Env::AfterThenUnwinding(p) => format!(
                "inside a destructor while the thread unwinds, right after a refused operation on the same thread ({p:?})"
            ),
            Env::AfterMany { op, count } => format!("after {count} repetitions of {op:?} on the same thread"),
            Env::AfterIdle { warm, secs } => format!("after {warm:?} and then {secs} s without any call (simulated clock jump)"),
            Env::Inside { outer, at } => format!(
                "from inside call #{at} that a {outer:?} in progress on the same thread makes on the caller's {}",
                if matches!(outer, Outer::EncodeControl | Outer::EncodeAvp) { "Writer" } else { "Reader" }
            ),
        }
    }
}

fn host_name(len: usize) -> AVP {
    AVP::HostName(types::HostName::from(vec![b'h'; len]))
}

fn ordinary_avps(n: usize) -> Vec<AVP> {
    let mut v = vec![AVP::MessageType(types::MessageType::StartControlConnectionRequest)];
    for i in 0..n {
        v.push(match i % 4 {
            0 => AVP::AssignedTunnelId(types::AssignedTunnelId { value: 0x1111u16.wrapping_mul(i as u16 + 1) }),
            1 => host_name(9 + i),
            2 => AVP::ReceiveWindowSize(types::ReceiveWindowSize { value: 4 }),
            _ => AVP::VendorName(types::VendorName::from("verif".to_string())),
        });
    }
    v
}

fn control(avps: Vec<AVP>) -> Message<Vec<u8>> {
    Message::Control(ControlMessage {
        length: 0,
        tunnel_id: 7,
        session_id: 0,
        ns: 1,
        nr: 2,
        avps,
    })
}

pub fn draw_poison(rng: &mut Rng) -> Poison {
    match rng.below(16) {
        0 | 1 => Poison::OversizeAvp(*rng.pick(&[1018usize, 1019, 1100, 2048])),
        2..=5 => Poison::OversizeAvpInControl {
            before: rng.urange(0, 4),
            len: *rng.pick(&[1018usize, 1024, 1100, 1500]),
        },
        6 => Poison::OversizeControl,
        7..=9 => Poison::OversizeHide(*rng.pick(&[1018usize, 1100, 1017, 1010])),
        10 | 11 => Poison::FullWriter {
            room: rng.urange(0, 60),
            avps: rng.urange(1, 6),
        },
        12 => Poison::FullWriterData { room: rng.urange(0, 12) },
        13 => Poison::TruncatedDecode { keep: rng.urange(0, 40) },
        14 => Poison::BadAvpDecode { k: rng.urange(0, 3) },
        _ => Poison::WrongSecretReveal,
    }
}

/// Perform the refused operation; whatever it does (panic, error, success)
/// is caught and ignored — only its after-effects are of interest.
pub fn run_poison(p: &Poison) {
    let _ = guard(|| match p {
        Poison::OversizeAvp(len) => {
            let mut w = VecWriter::new();
            host_name(*len).write(&mut w);
        }
        Poison::OversizeAvpInControl { before, len } => {
            let mut avps = ordinary_avps(*before);
            avps.push(host_name(*len));
            avps.push(AVP::ReceiveWindowSize(types::ReceiveWindowSize { value: 8 }));
            let mut w = VecWriter::new();
            control(avps).write(&mut w);
        }
        Poison::OversizeControl => {
            let mut avps = ordinary_avps(0);
            for _ in 0..65 {
                avps.push(host_name(1017));
            }
            let mut w = VecWriter::new();
            control(avps).write(&mut w);
        }
        Poison::OversizeHide(len) => {
            let rv = types::RandomVector::from([1u8, 2, 3, 4]);
            let _ = host_name(*len).hide(b"poison-secret", &rv, &[0u8; 3], &[0u8; 16]);
        }
        Poison::FullWriter { room, avps } => {
            let mut w = SimWriter::new(&WriterCfg::Full(*room), &[]);
            control(ordinary_avps(*avps)).write(&mut w);
        }
        Poison::FullWriterData { room } => {
            let mut w = SimWriter::new(&WriterCfg::Full(*room), &[]);
            Message::Data(DataMessage {
                is_prioritized: false,
                length: Some(0),
                tunnel_id: 1,
                session_id: 2,
                ns_nr: Some((3, 4)),
                offset: None,
                data: vec![0xEEu8; 40],
            })
            .write(&mut w);
        }
        Poison::TruncatedDecode { keep } => {
            let mut w = VecWriter::new();
            control(ordinary_avps(5)).write(&mut w);
            let cut = (*keep).min(w.data.len());
            let mut r = SliceReader::from(&w.data[..cut]);
            let _ = Message::<&[u8]>::try_read(&mut r);
        }
        Poison::BadAvpDecode { k } => {
            let mut w = VecWriter::new();
            control(ordinary_avps(4)).write(&mut w);
            // make the k-th record after the Message Type one a vendor AVP
            let mut off = 12 + 8;
            for _ in 0..*k {
                if off + 6 > w.data.len() {
                    break;
                }
                let l = (((w.data[off] & 3) as usize) << 8) | w.data[off + 1] as usize;
                off += l.max(6);
            }
            if off + 6 <= w.data.len() {
                w.data[off + 2] = 0xAB;
            }
            let mut r = SliceReader::from(&w.data[..]);
            let _ = Message::<&[u8]>::try_read(&mut r);
        }
        Poison::WrongSecretReveal => {
            let rv = types::RandomVector::from([9u8, 8, 7, 6]);
            let h = host_name(40).hide(b"the-right-secret", &rv, &[0u8; 5], &[0u8; 16]);
            let _ = h.reveal(b"the-wrong-secret", &rv);
        }
    });
}

/// Repeat a small operation `count` times (results ignored).
pub fn run_soak(op: SoakOp, count: u32) {
    // (the library may refuse even this, on a tree that is broken)
    let ctl = guard(|| {
        let mut w = VecWriter::new();
        control(ordinary_avps(2)).write(&mut w);
        w.data
    })
    .unwrap_or_else(|_| vec![0x13, 0x20, 0, 20, 0, 7, 0, 0, 0, 1, 0, 2, 1, 8, 0, 0, 0, 0, 0, 1]);
    let data: Vec<u8> = vec![0x00, 0x02, 0x00, 0x01, 0x00, 0x02, 0xde, 0xad];
    let rv = types::RandomVector::from([5u8, 6, 7, 8]);
    let _ = guard(|| {
        for _ in 0..count {
            match op {
                SoakOp::DecodeControl => {
                    let mut r = SliceReader::from(&ctl[..]);
                    let _ = Message::<&[u8]>::try_read(&mut r);
                }
                SoakOp::DecodeData => {
                    let mut r = SliceReader::from(&data[..]);
                    let _ = Message::<&[u8]>::try_read(&mut r);
                }
                SoakOp::Greedy => {
                    let mut r = SliceReader::from(&ctl[12.min(ctl.len())..]);
                    let _ = AVP::try_read_greedy::<&[u8]>(&mut r);
                }
                SoakOp::EncodeControl => {
                    let mut w = VecWriter::new();
                    control(ordinary_avps(1)).write(&mut w);
                }
                SoakOp::EncodeAvp => {
                    let mut w = VecWriter::new();
                    host_name(5).write(&mut w);
                }
                SoakOp::HideReveal => {
                    let h = host_name(20).hide(b"soak", &rv, &[0u8; 4], &[0u8; 16]);
                    let _ = h.reveal(b"soak", &rv);
                }
                SoakOp::FailedDecode => {
                    let mut r = SliceReader::from(&ctl[..ctl.len().saturating_sub(3)]);
                    let _ = Message::<&[u8]>::try_read(&mut r);
                }
            }
        }
    });
}

struct UnrelatedUnwind;

struct RunInDrop<F: FnOnce()>(Option<F>);

impl<F: FnOnce()> Drop for RunInDrop<F> {
    fn drop(&mut self) {
        if let Some(f) = self.0.take() {
            f();
        }
    }
}

/// Run `f` inside a destructor that executes because the thread is unwinding
/// from an unrelated panic. A panic escaping `f` is carried out and resumed
/// afterwards (it must not leave the destructor).
pub fn while_unwinding<R>(f: impl FnOnce() -> R) -> R {
    let mut out: Option<std::thread::Result<R>> = None;
    {
        let slot = &mut out;
        let _ = std::panic::catch_unwind(std::panic::AssertUnwindSafe(move || {
            let _g = RunInDrop(Some(move || {
                *slot = Some(std::panic::catch_unwind(std::panic::AssertUnwindSafe(f)));
            }));
            std::panic::resume_unwind(Box::new(UnrelatedUnwind));
        }));
    }
    match out {
        Some(Ok(r)) => r,
        Some(Err(p)) => std::panic::resume_unwind(p),
        None => unreachable!("the destructor did not run"),
    }
}

/// Execute `f` in the given environment.
pub fn in_env<R>(env: Option<&Env>, f: impl FnOnce() -> R) -> R {
    match env {
        None => f(),
        Some(Env::After(p)) => {
            run_poison(p);
            f()
        }
        Some(Env::Unwinding) => while_unwinding(f),
        Some(Env::AfterThenUnwinding(p)) => {
            run_poison(p);
            while_unwinding(f)
        }
        Some(Env::AfterMany { op, count }) => {
            run_soak(*op, *count);
            f()
        }
        Some(Env::AfterIdle { warm, secs }) => {
            run_warm(*warm);
            clock_jump(*secs as u64 * 1_000_000_000);
            f()
        }
        Some(Env::Inside { outer, at }) => inside(*outer, *at, f),
    }
}

/// Run `f` from inside the `at`-th seam call of an `outer` library call in
/// progress on this thread (after it, when the outer call makes fewer calls
/// or refuses). A panic escaping `f` is carried out of the outer call and
/// resumed afterwards; what the outer call returns is of no interest.
pub fn inside<R>(outer: Outer, at: u8, f: impl FnOnce() -> R) -> R {
    let mut out: Option<std::thread::Result<R>> = None;
    let mut fopt = Some(f);
    {
        let slot = &mut out;
        let fo = &mut fopt;
        let cb: Box<dyn FnMut() + '_> = Box::new(move || {
            if let Some(f) = fo.take() {
                *slot = Some(std::panic::catch_unwind(std::panic::AssertUnwindSafe(f)));
            }
        });
        // SAFETY: the seams want a 'static callback; this one is dropped
        // (with the writer / monitor that holds it) before the block ends,
        // while `out` and `fopt` are still alive.
        let mut cb: Box<dyn FnMut() + 'static> = unsafe { std::mem::transmute(cb) };
        let bytes = guard(|| {
            let mut w = VecWriter::new();
            control(ordinary_avps(3)).write(&mut w);
            w.data
        })
        .unwrap_or_else(|_| vec![0x13, 0x20, 0, 20, 0, 7, 0, 0, 0, 1, 0, 2, 1, 8, 0, 0, 0, 0, 0, 1]);
        match outer {
            Outer::EncodeControl | Outer::EncodeAvp => {
                let mut w = SimWriter::new(&WriterCfg::Vec, &[]);
                w.reentry = Some((at as u64, cb));
                w.begin_value();
                let _ = guard(std::panic::AssertUnwindSafe(|| {
                    if outer == Outer::EncodeControl {
                        control(ordinary_avps(3)).write(&mut w)
                    } else {
                        host_name(12).write(&mut w)
                    }
                }));
                w.reentry = None;
            }
            Outer::DecodeControl | Outer::Greedy => {
                let mon = Monitor::new(0, false);
                mon.borrow_mut().reentry = Some((at as u64, Box::new(move || cb())));
                let m2 = mon.clone();
                let _ = guard(move || {
                    if outer == Outer::DecodeControl {
                        let mut r = SimSlice::new(&bytes, m2);
                        let _ = Message::<&[u8]>::try_read(&mut r);
                    } else {
                        let mut r = SimSlice::new(&bytes[12.min(bytes.len())..], m2);
                        let _ = AVP::try_read_greedy::<&[u8]>(&mut r);
                    }
                });
                mon.borrow_mut().reentry = None;
            }
        }
    }
    LAST_INSIDE_NESTED.with(|c| c.set(out.is_some()));
    match out {
        Some(Ok(r)) => r,
        Some(Err(p)) => std::panic::resume_unwind(p),
        None => match fopt.take() {
            Some(f) => f(),
            None => unreachable!("the callback ran without leaving a result"),
        },
    }
}

thread_local! {
    static LAST_INSIDE_NESTED: std::cell::Cell<bool> = const { std::cell::Cell::new(false) };
}

/// Did the last `inside` on this thread run its case nested (rather than
/// after an outer call that made fewer seam calls)? For the self-test.
pub fn last_inside_was_nested() -> bool {
    LAST_INSIDE_NESTED.with(|c| c.get())
}

pub fn run_warm(w: Warm) {
    let rv = types::RandomVector::from([3u8, 1, 4, 1]);
    let _ = guard(|| match w {
        Warm::BigAvp(n) => {
            let mut wr = VecWriter::new();
            host_name(n as usize).write(&mut wr);
        }
        Warm::BigControl(n) => {
            let mut wr = VecWriter::new();
            control(ordinary_avps(n as usize)).write(&mut wr);
            let mut r = SliceReader::from(&wr.data[..]);
            let _ = Message::<&[u8]>::try_read(&mut r);
        }
        Warm::BigHide(n) => {
            let h = host_name(n as usize).hide(b"warm-secret", &rv, &[0u8; 7], &[0u8; 16]);
            let _ = h.reveal(b"warm-secret", &rv);
        }
        Warm::Nothing => {}
    });
}

// ---------------------------------------------------------------------------
// The clock seam
// ---------------------------------------------------------------------------
//
// rl2tp reads no clock today; a change that makes it read one (an idle
// timeout on a scratch buffer, an expiring memo) must still meet the
// simulator's clock and not the machine's. The executable therefore
// defines `clock_gettime` itself: every reading of CLOCK_MONOTONIC /
// CLOCK_REALTIME / CLOCK_BOOTTIME in the process, std::time included, is the
// kernel's reading plus an offset that only `clock_jump` moves. Jumps happen
// in worker / exec child processes only (the parent's watchdogs keep real
// time; the minimiser never runs a jumping case in-process).

static CLOCK_OFFSET_NS: std::sync::atomic::AtomicU64 = std::sync::atomic::AtomicU64::new(0);

/// # Safety
/// Same contract as the C library's `clock_gettime`.
#[no_mangle]
pub unsafe extern "C" fn clock_gettime(clk: libc::clockid_t, ts: *mut libc::timespec) -> libc::c_int {
    let r = libc::syscall(libc::SYS_clock_gettime, clk as libc::c_long, ts) as libc::c_int;
    if r == 0 && !ts.is_null() && matches!(clk, libc::CLOCK_MONOTONIC | libc::CLOCK_REALTIME | libc::CLOCK_BOOTTIME | libc::CLOCK_MONOTONIC_RAW | libc::CLOCK_MONOTONIC_COARSE | libc::CLOCK_REALTIME_COARSE) {
        let off = CLOCK_OFFSET_NS.load(std::sync::atomic::Ordering::Relaxed);
        if off != 0 {
            let t = &mut *ts;
            let ns = t.tv_nsec as u64 + off % 1_000_000_000;
            t.tv_sec += (off / 1_000_000_000) as libc::time_t + (ns / 1_000_000_000) as libc::time_t;
            t.tv_nsec = (ns % 1_000_000_000) as libc::c_long;
        }
    }
    r
}

/// Move the process's clock forward.
pub fn clock_jump(ns: u64) {
    CLOCK_OFFSET_NS.fetch_add(ns, std::sync::atomic::Ordering::Relaxed);
}

pub fn clock_offset_ns() -> u64 {
    CLOCK_OFFSET_NS.load(std::sync::atomic::Ordering::Relaxed)
}

/// Does this environment move the clock?
pub fn jumps_clock(e: &Env) -> bool {
    matches!(e, Env::AfterIdle { .. })
}

pub fn draw_env(rng: &mut Rng) -> Env {
    if rng.chance(1, 12) {
        let warm = match rng.below(4) {
            0 => Warm::BigAvp(*rng.pick(&[300u16, 600, 1000, 1017])),
            1 => Warm::BigControl(*rng.pick(&[8u8, 40, 120])),
            2 => Warm::BigHide(*rng.pick(&[100u16, 500, 1000])),
            _ => Warm::Nothing,
        };
        // a second, the usual timeouts, a day, a month, 2^32 ms
        let secs = *rng.pick(&[1u32, 5, 6, 30, 60, 61, 300, 3600, 86_400, 2_592_000, 4_294_968]);
        return Env::AfterIdle { warm, secs };
    }
    if rng.chance(1, 6) {
        let outer = *rng.pick(&[Outer::EncodeControl, Outer::EncodeControl, Outer::EncodeAvp, Outer::DecodeControl, Outer::DecodeControl, Outer::Greedy]);
        // low call numbers mostly: headers are written and read first
        let at = if rng.chance(2, 3) { rng.range(1, 8) } else { rng.range(1, 30) } as u8;
        return Env::Inside { outer, at };
    }
    match rng.below(40) {
        0..=23 => Env::After(draw_poison(rng)),
        24..=32 => Env::Unwinding,
        33..=38 => Env::AfterThenUnwinding(draw_poison(rng)),
        _ => {
            // counts around the powers of two
            let k = *rng.pick(&[4u32, 7, 8, 8, 8, 10, 12, 16]);
            let count = ((1u32 << k) as i64 + *rng.pick(&[-1i64, 0, 1, 1])) as u32;
            // the long runs with the cheapest operations only
            let op = if k >= 12 {
                *rng.pick(&[SoakOp::DecodeData, SoakOp::DecodeControl, SoakOp::EncodeAvp, SoakOp::FailedDecode])
            } else {
                *rng.pick(&[
                    SoakOp::DecodeControl,
                    SoakOp::DecodeData,
                    SoakOp::Greedy,
                    SoakOp::EncodeControl,
                    SoakOp::EncodeAvp,
                    SoakOp::HideReveal,
                    SoakOp::FailedDecode,
                ])
            };
            Env::AfterMany { op, count }
        }
    }
}

pub fn annotate(mut f: Failure, env: Option<&Env>) -> Failure {
    if let Some(e) = env {
        f.detail = format!("[environment: {}] {}", e.text(), f.detail);
    }
    f
}

// ---------------------------------------------------------------------------
// Thread teardown
// ---------------------------------------------------------------------------

struct AtThreadExit(Option<Box<dyn FnOnce()>>);

impl Drop for AtThreadExit {
    fn drop(&mut self) {
        if let Some(f) = self.0.take() {
            f();
        }
    }
}

thread_local! {
    static AT_EXIT: std::cell::RefCell<AtThreadExit> = const { std::cell::RefCell::new(AtThreadExit(None)) };
}

/// When, relative to the library's own first use on the thread, the
/// caller's thread-local (whose destructor makes the call) was first touched.
#[derive(Clone, Copy, Debug, PartialEq, Eq, Serialize, Deserialize)]
pub enum Teardown {
    /// before: it is destroyed after whatever the library keeps per thread
    RegisteredFirst,
    /// after: it is destroyed while the library's per-thread state still lives
    RegisteredLast,
    /// the library is not used on the thread before the destructor runs
    Cold,
}

/// Run `f` from the destructor of a thread-local while a thread exits —
/// what an application does that says goodbye (StopCCN, CDN) or decodes a
/// last datagram from a connection object kept in thread-local storage.
/// `warm` is ordinary use of the library during the thread's life.
/// A panic of `f` is caught inside the destructor and returned.
pub fn at_thread_exit<R: Send + 'static>(
    order: Teardown,
    warm: impl FnOnce() + Send + 'static,
    f: impl FnOnce() -> R + Send + 'static,
) -> Option<std::thread::Result<R>> {
    let (tx, rx) = std::sync::mpsc::channel();
    let job: Box<dyn FnOnce() + Send> = Box::new(move || {
        let r = std::panic::catch_unwind(std::panic::AssertUnwindSafe(f));
        let _ = tx.send(r);
    });
    let t = std::thread::Builder::new().spawn(move || {
        let arm = move || AT_EXIT.with(|h| h.borrow_mut().0 = Some(job as Box<dyn FnOnce()>));
        match order {
            Teardown::RegisteredFirst => {
                arm();
                warm();
            }
            Teardown::RegisteredLast => {
                warm();
                arm();
            }
            Teardown::Cold => arm(),
        }
    });
    match t {
        Ok(h) => {
            let _ = h.join();
            rx.try_recv().ok()
        }
        Err(_) => None,
    }
}
