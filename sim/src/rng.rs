//! The only source of variation in the simulator: SplitMix64 seeding a
//! xoshiro256** generator. Hand-written so that no crate upgrade can ever
//! change what a seed means. Never called from logging / evidence code.

#[derive(Clone, Debug)]
pub struct Rng {
    s: [u64; 4],
}

#[inline]
pub fn splitmix64(state: &mut u64) -> u64 {
    *state = state.wrapping_add(0x9E37_79B9_7F4A_7C15);
    let mut z = *state;
    z = (z ^ (z >> 30)).wrapping_mul(0xBF58_476D_1CE4_E5B9);
    z = (z ^ (z >> 27)).wrapping_mul(0x94D0_49BB_1331_11EB);
    z ^ (z >> 31)
}

/// FNV-1a, used to turn property ids and labels into stream selectors and to
/// hash cases / paths for the "distinct" counters (not security relevant).
#[inline]
pub fn fnv1a(bytes: &[u8]) -> u64 {
    let mut h: u64 = 0xcbf2_9ce4_8422_2325;
    for &b in bytes {
        h ^= b as u64;
        h = h.wrapping_mul(0x0000_0100_0000_01B3);
    }
    h
}

#[inline]
pub fn mix2(a: u64, b: u64) -> u64 {
    let mut s = a ^ b.rotate_left(32) ^ 0xA076_1D64_78BD_642F;
    let x = splitmix64(&mut s);
    let y = splitmix64(&mut s);
    x ^ y.rotate_left(17) ^ b
}

/// Stream of run `run` of check `prop` under `VERIF_SEED = seed`.
pub fn run_seed(seed: u64, prop: &str, run: u64) -> u64 {
    mix2(mix2(seed, fnv1a(prop.as_bytes())), run)
}

impl Rng {
    pub fn new(seed: u64) -> Self {
        let mut st = seed;
        let s = [
            splitmix64(&mut st),
            splitmix64(&mut st),
            splitmix64(&mut st),
            splitmix64(&mut st),
        ];
        Rng { s }
    }

    /// Independent sub-stream; drawing from the child never advances the
    /// parent beyond this single call, so shrinking one part of a run does
    /// not re-roll another.
    pub fn fork(&mut self, label: &str) -> Rng {
        let x = self.next_u64();
        Rng::new(mix2(x, fnv1a(label.as_bytes())))
    }

    #[inline]
    pub fn next_u64(&mut self) -> u64 {
        let result = self.s[1].wrapping_mul(5).rotate_left(7).wrapping_mul(9);
        let t = self.s[1] << 17;
        self.s[2] ^= self.s[0];
        self.s[3] ^= self.s[1];
        self.s[1] ^= self.s[2];
        self.s[0] ^= self.s[3];
        self.s[2] ^= t;
        self.s[3] = self.s[3].rotate_left(45);
        result
    }

    #[inline]
    pub fn u8(&mut self) -> u8 {
        (self.next_u64() >> 56) as u8
    }
    #[inline]
    pub fn u16(&mut self) -> u16 {
        (self.next_u64() >> 48) as u16
    }
    #[inline]
    pub fn u32(&mut self) -> u32 {
        (self.next_u64() >> 32) as u32
    }

    /// Uniform in `0..n` (n > 0). Modulo bias is irrelevant here.
    #[inline]
    pub fn below(&mut self, n: u64) -> u64 {
        debug_assert!(n > 0);
        ((self.next_u64() as u128 * n as u128) >> 64) as u64
    }

    #[inline]
    pub fn usize_below(&mut self, n: usize) -> usize {
        self.below(n as u64) as usize
    }

    /// Uniform in `lo..=hi`.
    #[inline]
    pub fn range(&mut self, lo: u64, hi: u64) -> u64 {
        debug_assert!(lo <= hi);
        if lo == 0 && hi == u64::MAX {
            return self.next_u64();
        }
        lo + self.below(hi - lo + 1)
    }

    #[inline]
    pub fn urange(&mut self, lo: usize, hi: usize) -> usize {
        self.range(lo as u64, hi as u64) as usize
    }

    /// True with probability num/den.
    #[inline]
    pub fn chance(&mut self, num: u64, den: u64) -> bool {
        self.below(den) < num
    }

    #[inline]
    pub fn bool(&mut self) -> bool {
        self.next_u64() >> 63 != 0
    }

    pub fn bytes(&mut self, n: usize) -> Vec<u8> {
        let mut v = Vec::with_capacity(n);
        while v.len() + 8 <= n {
            v.extend_from_slice(&self.next_u64().to_le_bytes());
        }
        while v.len() < n {
            v.push(self.u8());
        }
        v
    }

    pub fn pick<'a, T>(&mut self, xs: &'a [T]) -> &'a T {
        &xs[self.usize_below(xs.len())]
    }

    pub fn shuffle<T>(&mut self, xs: &mut [T]) {
        for i in (1..xs.len()).rev() {
            let j = self.usize_below(i + 1);
            xs.swap(i, j);
        }
    }

    /// Value biased to the extremes of a `bits`-wide unsigned integer.
    pub fn extreme(&mut self, bits: u32) -> u64 {
        let max = if bits >= 64 { u64::MAX } else { (1u64 << bits) - 1 };
        match self.below(10) {
            0 => 0,
            1 => 1,
            2 => max,
            3 => max - 1,
            4 => {
                let k = self.below(bits as u64) as u32;
                1u64 << k
            }
            5 => {
                let k = self.below(bits as u64) as u32;
                (1u64 << k).wrapping_sub(1) & max
            }
            _ => self.next_u64() & max,
        }
    }
}

#[cfg(test)]
mod tests {
    use super::*;
    #[test]
    fn deterministic() {
        let mut a = Rng::new(42);
        let mut b = Rng::new(42);
        for _ in 0..100 {
            assert_eq!(a.next_u64(), b.next_u64());
        }
        assert_ne!(run_seed(1, "C01", 0), run_seed(1, "C02", 0));
        assert_ne!(run_seed(1, "C01", 0), run_seed(1, "C01", 1));
    }
}
