//! rl2tp-dst: deterministic simulation with fault injection for rl2tp.
//!
//!   rl2tp-dst check <ID> [--tier quick|thorough] [--seed N] [--workers N] [--only-run I] [--runs N]
//!   rl2tp-dst replay <file>
//!   rl2tp-dst digest <ID> --runs N [--workers N] [--seed N]     (determinism self-test helper)
//!   rl2tp-dst worker ... / exec ...                              (internal)

use rl2tp_dst::core::*;
use rl2tp_dst::{engine, props};
use std::path::PathBuf;

fn arg_val(args: &[String], name: &str) -> Option<String> {
    args.iter()
        .position(|a| a == name)
        .and_then(|i| args.get(i + 1).cloned())
}

fn env_seed() -> u64 {
    std::env::var("VERIF_SEED")
        .ok()
        .and_then(|s| s.trim().parse::<i128>().ok())
        .map(|v| v as u64)
        .unwrap_or(engine::DEFAULT_SEED)
}

fn env_tier() -> Option<Tier> {
    std::env::var("VERIF_TIER").ok().and_then(|s| Tier::parse(s.trim()))
}

fn main() {
    let args: Vec<String> = std::env::args().skip(1).collect();
    let code = real_main(&args);
    std::process::exit(code);
}

fn real_main(args: &[String]) -> i32 {
    let cmd = args.first().map(|s| s.as_str()).unwrap_or("");
    let seed = arg_val(args, "--seed")
        .and_then(|s| s.parse::<i128>().ok())
        .map(|v| v as u64)
        .unwrap_or_else(env_seed);
    let tier = arg_val(args, "--tier")
        .and_then(|s| Tier::parse(&s))
        .or_else(env_tier)
        .unwrap_or(Tier::Quick);
    let workers = arg_val(args, "--workers")
        .and_then(|s| s.parse().ok())
        .unwrap_or_else(|| {
            std::thread::available_parallelism()
                .map(|n| n.get())
                .unwrap_or(4)
                .min(16)
        });
    match cmd {
        "clock-selftest" => {
            // the clock seam: std's clocks must follow the simulated jump
            let (i0, s0) = (std::time::Instant::now(), std::time::SystemTime::now());
            rl2tp_dst::env::clock_jump(7_000_000_000);
            let (di, ds) = (i0.elapsed(), s0.elapsed().unwrap_or_default());
            if di.as_secs() >= 7 && di.as_secs() < 9 && ds.as_secs() >= 7 && ds.as_secs() < 9 {
                println!("clock seam ok: Instant +{:?}, SystemTime +{:?} after a 7 s jump", di, ds);
                0
            } else {
                println!("SELFTEST-FAIL clock seam: Instant +{:?}, SystemTime +{:?} after a 7 s jump", di, ds);
                1
            }
        }
        "gen-keystreams" => {
            rl2tp_dst::collisions::generate_keystreams();
            0
        }
        "gen-collisions" => {
            rl2tp_dst::collisions::generate();
            0
        }
        "check" => {
            let id = match args.get(1) {
                Some(i) => i,
                None => return usage(),
            };
            let sc = match props::find(id) {
                Some(s) => s,
                None => {
                    println!("HARNESS-ERROR unknown property {id}");
                    return 2;
                }
            };
            let o = engine::CheckOpts {
                tier,
                seed,
                workers,
                only_run: arg_val(args, "--only-run").and_then(|s| s.parse().ok()),
                write_evidence: !args.iter().any(|a| a == "--no-evidence"),
                runs_override: arg_val(args, "--runs").and_then(|s| s.parse().ok()),
            };
            engine::check_main(&sc, &o)
        }
        "worker" => {
            let id = match args.get(1) {
                Some(i) => i,
                None => return usage(),
            };
            let sc = match props::find(id) {
                Some(s) => s,
                None => return 2,
            };
            let a = engine::WorkerArgs {
                id: id.clone(),
                tier,
                seed,
                from: arg_val(args, "--from").and_then(|s| s.parse().ok()).unwrap_or(0),
                to: arg_val(args, "--to").and_then(|s| s.parse().ok()).unwrap_or(0),
                announce: args.iter().any(|a| a == "--announce"),
            };
            engine::worker_main(&sc, &a)
        }
        "exec" => {
            let (id, path) = match (args.get(1), args.get(2)) {
                (Some(i), Some(p)) => (i, p),
                _ => return usage(),
            };
            let sc = match props::find(id) {
                Some(s) => s,
                None => return 2,
            };
            let txt = match std::fs::read_to_string(path) {
                Ok(t) => t,
                Err(_) => return 2,
            };
            let v: serde_json::Value = match serde_json::from_str(&txt) {
                Ok(v) => v,
                Err(_) => return 2,
            };
            // accept either a bare case or a whole replay file
            let case = if v.get("case").is_some() && v.get("property").is_some() {
                v["case"].clone()
            } else {
                v
            };
            engine::exec_main(&sc, &case)
        }
        "replay" => {
            let path = match args.get(1) {
                Some(p) => PathBuf::from(p),
                None => return usage(),
            };
            engine::replay_main(&|id| props::find(id), &path)
        }
        "digest" => {
            let id = match args.get(1) {
                Some(i) => i,
                None => return usage(),
            };
            let sc = match props::find(id) {
                Some(s) => s,
                None => return 2,
            };
            let runs = arg_val(args, "--runs").and_then(|s| s.parse().ok()).unwrap_or(32);
            println!("{}", engine::digest_main(&sc, tier, seed, runs, workers));
            0
        }
        "selftest" => rl2tp_dst::selftest::selftest_main(args.iter().any(|a| a == "full")),
        "list" => {
            for s in props::all() {
                println!("{} {} quick_runs={} thorough_runs={}", s.id, s.level, (s.runs)(Tier::Quick), (s.runs)(Tier::Thorough));
            }
            0
        }
        _ => usage(),
    }
}

fn usage() -> i32 {
    println!("usage: rl2tp-dst check <ID> [--tier quick|thorough] [--seed N] [--workers N] [--only-run I] | replay <file> | digest <ID> --runs N | list");
    2
}
