//! Parent / worker orchestration: process isolation with fd 1/2 capture and
//! crash attribution, seeded run ranges, failure collection, minimisation,
//! replay files, known-findings matching and evidence output.

use crate::core::*;
use crate::rng::{run_seed, Rng};
use serde_json::{json, Value};
use std::collections::{BTreeMap, BTreeSet, HashSet};
use std::io::{BufRead, BufReader, Read, Write};
use std::os::unix::io::FromRawFd;
use std::path::{Path, PathBuf};
use std::process::{Command, Stdio};
use std::sync::atomic::{AtomicI32, AtomicU64, Ordering};
use std::time::{Duration, Instant};

pub const DEFAULT_SEED: u64 = 20_260_917;

pub fn verif_root() -> PathBuf {
    PathBuf::from(std::env::var("VERIF_ROOT").unwrap_or_else(|_| "/verif".into()))
}

/// Where replays and evidence go (default: the verif root). Shadow runs
/// against a scratch copy of the repository point this elsewhere.
pub fn out_root() -> PathBuf {
    std::env::var("VERIF_OUT_DIR")
        .map(PathBuf::from)
        .unwrap_or_else(|_| verif_root())
}

/// The repository under test (only used to locate its octet vectors in
/// selftest; the code itself is linked as a path dependency).
pub fn repo_root() -> PathBuf {
    PathBuf::from(std::env::var("VERIF_REPO").unwrap_or_else(|_| "/repo".into()))
}

pub fn bin_for(p: Profile) -> PathBuf {
    let dir = match p {
        Profile::Dev => "debug",
        Profile::Release => "release",
    };
    let target = std::env::var("VERIF_TARGET_DIR")
        .map(PathBuf::from)
        .unwrap_or_else(|_| verif_root().join("sim/target"));
    target.join(dir).join("rl2tp-dst")
}

// ---------------------------------------------------------------------------
// Worker side
// ---------------------------------------------------------------------------

static PROTO_FD: AtomicI32 = AtomicI32::new(-1);
static CURRENT_RUN: AtomicU64 = AtomicU64::new(u64::MAX);
static OUT_FD: AtomicI32 = AtomicI32::new(-1);
static ERR_FD: AtomicI32 = AtomicI32::new(-1);

extern "C" fn crash_handler(sig: libc::c_int) {
    // async-signal-safe only: format "C <run> <sig>\n" by hand
    let fd = PROTO_FD.load(Ordering::Relaxed);
    let run = CURRENT_RUN.load(Ordering::Relaxed);
    let mut buf = [0u8; 48];
    let mut n = 0;
    buf[n] = b'C';
    n += 1;
    buf[n] = b' ';
    n += 1;
    let mut digits = [0u8; 20];
    let mut k = 0;
    let mut v = run;
    if v == 0 {
        digits[0] = b'0';
        k = 1;
    }
    while v > 0 {
        digits[k] = b'0' + (v % 10) as u8;
        v /= 10;
        k += 1;
    }
    while k > 0 {
        k -= 1;
        buf[n] = digits[k];
        n += 1;
    }
    buf[n] = b' ';
    n += 1;
    let s = sig as u32;
    if s >= 10 {
        buf[n] = b'0' + (s / 10) as u8;
        n += 1;
    }
    buf[n] = b'0' + (s % 10) as u8;
    n += 1;
    buf[n] = b'\n';
    n += 1;
    unsafe {
        if fd >= 0 {
            libc::write(fd, buf.as_ptr() as *const libc::c_void, n);
        }
        libc::_exit(128 + sig);
    }
}

fn install_crash_handlers() {
    unsafe {
        // alternate stack so that a stack overflow can still be reported
        let size = 64 * 1024;
        let stack = libc::mmap(
            std::ptr::null_mut(),
            size,
            libc::PROT_READ | libc::PROT_WRITE,
            libc::MAP_PRIVATE | libc::MAP_ANONYMOUS,
            -1,
            0,
        );
        let ss = libc::stack_t {
            ss_sp: stack,
            ss_flags: 0,
            ss_size: size,
        };
        libc::sigaltstack(&ss, std::ptr::null_mut());
        for sig in [
            libc::SIGABRT,
            libc::SIGSEGV,
            libc::SIGBUS,
            libc::SIGILL,
            libc::SIGFPE,
        ] {
            let mut sa: libc::sigaction = std::mem::zeroed();
            sa.sa_sigaction = crash_handler as *const () as usize;
            sa.sa_flags = libc::SA_ONSTACK | libc::SA_NODEFER;
            libc::sigemptyset(&mut sa.sa_mask);
            libc::sigaction(sig, &sa, std::ptr::null_mut());
        }
    }
}

/// Move the protocol channel off fd 1 and point fds 1 and 2 at private
/// anonymous files, so that every octet the library prints is observable
/// and nothing else in the process can print there.
fn isolate_stdio() {
    unsafe {
        let proto = libc::dup(1);
        libc::fcntl(proto, libc::F_SETFD, libc::FD_CLOEXEC);
        PROTO_FD.store(proto, Ordering::SeqCst);
        let name = b"rl2tp-dst-capture\0";
        let o = libc::memfd_create(name.as_ptr() as *const libc::c_char, 0);
        let e = libc::memfd_create(name.as_ptr() as *const libc::c_char, 0);
        libc::dup2(o, 1);
        libc::dup2(e, 2);
        OUT_FD.store(o, Ordering::SeqCst);
        ERR_FD.store(e, Ordering::SeqCst);
    }
}

/// Octets that have reached fd 1 / fd 2 since the last call (Rust's stdout
/// handle is flushed first); the capture files are then truncated.
pub fn drain_captured() -> (Vec<u8>, Vec<u8>) {
    let _ = std::io::stdout().flush();
    let _ = std::io::stderr().flush();
    let mut res = (Vec::new(), Vec::new());
    for (i, fdv) in [&OUT_FD, &ERR_FD].iter().enumerate() {
        let fd = fdv.load(Ordering::Relaxed);
        if fd < 0 {
            continue;
        }
        unsafe {
            let mut st: libc::stat = std::mem::zeroed();
            if libc::fstat(fd, &mut st) != 0 || st.st_size == 0 {
                continue;
            }
            let n = (st.st_size as usize).min(1 << 16);
            let mut buf = vec![0u8; n];
            let got = libc::pread(fd, buf.as_mut_ptr() as *mut libc::c_void, n, 0);
            if got > 0 {
                buf.truncate(got as usize);
            } else {
                buf.clear();
            }
            libc::ftruncate(fd, 0);
            libc::lseek(if i == 0 { 1 } else { 2 }, 0, libc::SEEK_SET);
            if i == 0 {
                res.0 = buf;
            } else {
                res.1 = buf;
            }
        }
    }
    res
}

pub fn capture_active() -> bool {
    OUT_FD.load(Ordering::Relaxed) >= 0
}

fn proto_write(s: &[u8]) {
    let fd = PROTO_FD.load(Ordering::Relaxed);
    let mut off = 0;
    while off < s.len() {
        let n = unsafe {
            libc::write(
                fd,
                s[off..].as_ptr() as *const libc::c_void,
                s.len() - off,
            )
        };
        if n <= 0 {
            break;
        }
        off += n as usize;
    }
}

fn proto_line(tag: &str, v: &Value) {
    let mut s = String::with_capacity(256);
    s.push_str(tag);
    s.push(' ');
    s.push_str(&serde_json::to_string(v).unwrap());
    s.push('\n');
    proto_write(s.as_bytes());
}

fn obs_to_json(o: &Obs) -> Value {
    json!({
        "runs": o.runs,
        "evaluations": o.evaluations,
        "steps": o.steps,
        "reader_calls": o.reader_calls,
        "writer_calls": o.writer_calls,
        "counters": o.counters,
        "samples": o.samples,
        "distinct_capped": o.distinct_capped,
    })
}

fn send_hashes(tag: &str, set: &HashSet<u64>) {
    let mut v: Vec<u64> = set.iter().copied().collect();
    v.sort_unstable();
    let head = format!("{} {}\n", tag, v.len());
    proto_write(head.as_bytes());
    let mut raw = Vec::with_capacity(v.len() * 8);
    for x in v {
        raw.extend_from_slice(&x.to_le_bytes());
    }
    proto_write(&raw);
}

pub struct WorkerArgs {
    pub id: String,
    pub tier: Tier,
    pub seed: u64,
    pub from: u64,
    pub to: u64,
    pub announce: bool,
}

pub fn worker_main(sc: &DynScenario, a: &WorkerArgs) -> i32 {
    isolate_stdio();
    install_crash_handlers();
    install_silent_hook();
    if let Err(e) = crate::model::selfcheck() {
        proto_line("E", &json!({"harness_error": format!("model self-check: {e}")}));
        return 2;
    }
    let mut obs = Obs::default();
    let mut seen = HashSet::new();
    let announce_fn = |v: &Value| proto_line("A", v);
    for run in a.from..a.to {
        CURRENT_RUN.store(run, Ordering::SeqCst);
        let mut rng = Rng::new(run_seed(a.seed, sc.id, run));
        let mut ctx = Ctx {
            obs: &mut obs,
            tier: a.tier,
            run,
            fails: Vec::new(),
            announce: if a.announce { Some(&announce_fn) } else { None },
            seen: &mut seen,
            env_rng: Rng::new(crate::rng::mix2(run_seed(a.seed, sc.id, run), crate::rng::fnv1a(b"environment"))),
        };
        let r = std::panic::catch_unwind(std::panic::AssertUnwindSafe(|| {
            (sc.run)(&mut rng, &mut ctx);
        }));
        let fails = std::mem::take(&mut ctx.fails);
        drop(ctx);
        obs.runs += 1;
        if let Err(_p) = r {
            let why = crate::core::last_panic_text().unwrap_or_default();
            proto_line(
                "E",
                &json!({"harness_error": format!("uncaught panic in run {run}: {why}")}),
            );
            return 2;
        }
        for (case, f) in fails {
            proto_line("F", &json!({"run": run, "case": case, "failure": f}));
        }
        // keep the capture files small when nobody looks at them
        if run % 64 == 0 && sc.id != "C19" {
            let _ = drain_captured();
        }
    }
    CURRENT_RUN.store(u64::MAX, Ordering::SeqCst);
    send_hashes("H", &obs.distinct);
    send_hashes("P", &obs.paths);
    proto_line("D", &obs_to_json(&obs));
    0
}

/// `exec` mode: execute one materialised case in this (fresh) process.
pub fn exec_main(sc: &DynScenario, case: &Value) -> i32 {
    isolate_stdio();
    install_crash_handlers();
    install_silent_hook();
    CURRENT_RUN.store(0, Ordering::SeqCst);
    let mut obs = Obs::default();
    match std::panic::catch_unwind(std::panic::AssertUnwindSafe(|| (sc.exec_json)(case, &mut obs)))
    {
        Ok(Ok(Ok(()))) => {
            proto_line("OK", &json!({}));
            0
        }
        Ok(Ok(Err(f))) => {
            proto_line("F", &json!({"run": 0, "case": case, "failure": f}));
            1
        }
        Ok(Err(e)) => {
            proto_line("E", &json!({"harness_error": e}));
            2
        }
        Err(_) => {
            proto_line("E", &json!({"harness_error": "uncaught panic in exec"}));
            2
        }
    }
}

// ---------------------------------------------------------------------------
// Parent side
// ---------------------------------------------------------------------------

#[derive(Default)]
struct WorkerOut {
    fails: Vec<(u64, Value, Failure)>,
    done: Option<Value>,
    hashes: Vec<u64>,
    paths: Vec<u64>,
    crash: Option<(u64, i32)>,
    harness_error: Option<String>,
    last_announced: Option<Value>,
    exit_signal: Option<i32>,
}

fn read_worker(mut child: std::process::Child) -> WorkerOut {
    let mut out = WorkerOut::default();
    let stdout = child.stdout.take().unwrap();
    let mut rd = BufReader::with_capacity(1 << 16, stdout);
    let mut line = Vec::new();
    loop {
        line.clear();
        match rd.read_until(b'\n', &mut line) {
            Ok(0) => break,
            Ok(_) => {}
            Err(_) => break,
        }
        let s = String::from_utf8_lossy(&line);
        let s = s.trim_end();
        let (tag, rest) = match s.split_once(' ') {
            Some(x) => x,
            None => (s, ""),
        };
        match tag {
            "F" => {
                if let Ok(v) = serde_json::from_str::<Value>(rest) {
                    let run = v["run"].as_u64().unwrap_or(0);
                    if let Ok(f) = serde_json::from_value::<Failure>(v["failure"].clone()) {
                        out.fails.push((run, v["case"].clone(), f));
                    }
                }
            }
            "A" => {
                if let Ok(v) = serde_json::from_str::<Value>(rest) {
                    out.last_announced = Some(v);
                }
            }
            "D" => out.done = serde_json::from_str(rest).ok(),
            "OK" => out.done = Some(json!({})),
            "E" => {
                let v: Value = serde_json::from_str(rest).unwrap_or(json!({}));
                out.harness_error = Some(
                    v["harness_error"]
                        .as_str()
                        .unwrap_or("unknown harness error")
                        .to_string(),
                );
            }
            "C" => {
                let mut it = rest.split(' ');
                let run = it.next().and_then(|x| x.parse().ok()).unwrap_or(u64::MAX);
                let sig = it.next().and_then(|x| x.parse().ok()).unwrap_or(0);
                out.crash = Some((run, sig));
            }
            "H" | "P" => {
                let n: usize = rest.parse().unwrap_or(0);
                let mut raw = vec![0u8; n * 8];
                if rd.read_exact(&mut raw).is_err() {
                    break;
                }
                let v: Vec<u64> = raw
                    .chunks_exact(8)
                    .map(|c| u64::from_le_bytes(c.try_into().unwrap()))
                    .collect();
                if tag == "H" {
                    out.hashes = v;
                } else {
                    out.paths = v;
                }
            }
            _ => {}
        }
    }
    if let Ok(st) = child.wait() {
        use std::os::unix::process::ExitStatusExt;
        out.exit_signal = st.signal();
        if out.done.is_none() && out.crash.is_none() && out.harness_error.is_none() {
            if let Some(sig) = st.signal() {
                out.crash = Some((u64::MAX, sig));
            } else if st.code() != Some(0) && st.code() != Some(1) {
                out.harness_error =
                    Some(format!("worker exited with status {:?} without a report", st.code()));
            }
        }
    }
    out
}

fn spawn_worker(
    profile: Profile,
    id: &str,
    tier: Tier,
    seed: u64,
    from: u64,
    to: u64,
    announce: bool,
) -> std::io::Result<std::process::Child> {
    let mut c = Command::new(bin_for(profile));
    c.arg("worker")
        .arg(id)
        .arg("--tier")
        .arg(tier.name())
        .arg("--seed")
        .arg(seed.to_string())
        .arg("--from")
        .arg(from.to_string())
        .arg("--to")
        .arg(to.to_string());
    if announce {
        c.arg("--announce");
    }
    c.stdin(Stdio::null())
        .stdout(Stdio::piped())
        .stderr(Stdio::null())
        .spawn()
}

/// Execute one case in a fresh process of the given profile.
pub fn exec_in_child(profile: Profile, id: &str, case: &Value, timeout: Duration) -> ExecResult {
    let dir = std::env::temp_dir();
    let path = dir.join(format!(
        "rl2tp-dst-exec-{}-{}.json",
        std::process::id(),
        EXEC_COUNTER.fetch_add(1, Ordering::Relaxed)
    ));
    if std::fs::write(&path, serde_json::to_vec(case).unwrap()).is_err() {
        return ExecResult::HarnessError("cannot write temp case".into());
    }
    let child = Command::new(bin_for(profile))
        .arg("exec")
        .arg(id)
        .arg(&path)
        .stdin(Stdio::null())
        .stdout(Stdio::piped())
        .stderr(Stdio::null())
        .spawn();
    let child = match child {
        Ok(c) => c,
        Err(e) => {
            let _ = std::fs::remove_file(&path);
            return ExecResult::HarnessError(format!("spawn: {e}"));
        }
    };
    let pid = child.id();
    let (tx, rx) = std::sync::mpsc::channel();
    let h = std::thread::spawn(move || {
        let out = read_worker(child);
        let _ = tx.send(());
        out
    });
    let timed_out = rx.recv_timeout(timeout).is_err();
    if timed_out {
        unsafe {
            libc::kill(pid as i32, libc::SIGKILL);
        }
    }
    let out = h.join().unwrap();
    let _ = std::fs::remove_file(&path);
    if timed_out {
        return ExecResult::Fail(Failure::new(
            id,
            "wall-clock-watchdog",
            "hang",
            format!("case did not finish within {:?}", timeout),
        ));
    }
    if let Some(e) = out.harness_error {
        return ExecResult::HarnessError(e);
    }
    if let Some((_, sig)) = out.crash {
        return ExecResult::Fail(crash_failure(id, sig));
    }
    if let Some((_, _, f)) = out.fails.into_iter().next() {
        return ExecResult::Fail(f);
    }
    if out.done.is_some() {
        return ExecResult::Pass;
    }
    ExecResult::HarnessError("child gave no verdict".into())
}

static EXEC_COUNTER: AtomicU64 = AtomicU64::new(0);

#[derive(Debug)]
pub enum ExecResult {
    Pass,
    Fail(Failure),
    HarnessError(String),
}

fn crash_failure(id: &str, sig: i32) -> Failure {
    let name = match sig {
        6 => "SIGABRT (non-unwinding panic / abort)",
        11 => "SIGSEGV",
        7 => "SIGBUS",
        4 => "SIGILL",
        8 => "SIGFPE",
        9 => "SIGKILL",
        _ => "signal",
    };
    Failure::new(
        id,
        "process-abort",
        &format!("signal-{sig}"),
        format!("worker process died with signal {sig} ({name})"),
    )
}

pub struct CheckOpts {
    pub tier: Tier,
    pub seed: u64,
    pub workers: usize,
    pub only_run: Option<u64>,
    pub write_evidence: bool,
    pub runs_override: Option<u64>,
}

struct Collected {
    profile: Profile,
    run: u64,
    case: Value,
    failure: Failure,
    /// first run of the worker process that reported it
    range_from: u64,
}

/// Does the failure (same oracle and class, same run) come back when a fresh
/// process executes runs `from..=run`? For failures that depend on what the
/// process did before the failing case (process-wide state).
fn fails_with_process_history(profile: Profile, id: &str, tier: Tier, seed: u64, from: u64, run: u64, f: &Failure) -> bool {
    if run == u64::MAX || from > run {
        return false;
    }
    match spawn_worker(profile, id, tier, seed, from, run + 1, false) {
        Ok(child) => {
            let out = read_worker(child);
            out.fails.iter().any(|(r, _, g)| *r == run && g.oracle == f.oracle && g.class == f.class)
        }
        Err(_) => false,
    }
}

pub struct Known {
    pub status: String,
    pub property: String,
    pub oracle: String,
    pub class: String,
    pub commit: String,
    pub what: String,
}

pub fn load_known() -> Vec<Known> {
    let p = verif_root().join("known_findings.json");
    let txt = match std::fs::read_to_string(&p) {
        Ok(t) => t,
        Err(_) => return Vec::new(),
    };
    let v: Value = match serde_json::from_str(&txt) {
        Ok(v) => v,
        Err(_) => return Vec::new(),
    };
    let mut out = Vec::new();
    if let Some(a) = v["findings"].as_array() {
        for f in a {
            let g = |k: &str| f[k].as_str().unwrap_or("").to_string();
            out.push(Known {
                status: g("status"),
                property: g("property"),
                oracle: g("oracle"),
                class: g("class"),
                commit: g("commit"),
                what: g("what"),
            });
        }
    }
    out
}

/// Run all seeded runs of a scenario across worker processes (all required
/// profiles), collect, minimise, report. Returns the process exit code.
pub fn check_main(sc: &DynScenario, o: &CheckOpts) -> i32 {
    let t0 = Instant::now();
    let total_runs = o.runs_override.unwrap_or_else(|| (sc.runs)(o.tier));
    let (lo, hi) = match o.only_run {
        Some(r) => (r, r + 1),
        None => (0, total_runs),
    };
    println!(
        "check {} tier={} VERIF_SEED={} runs={}..{} workers={} profiles={:?}",
        sc.id,
        o.tier.name(),
        o.seed,
        lo,
        hi,
        o.workers,
        (sc.profiles)().iter().map(|p| p.name()).collect::<Vec<_>>()
    );

    let mut collected: Vec<Collected> = Vec::new();
    let mut merged = Obs::default();
    let mut harness_errors: Vec<String> = Vec::new();
    let mut crashes = 0u32;
    let mut per_profile_evals: BTreeMap<&'static str, u64> = BTreeMap::new();

    for &profile in (sc.profiles)() {
        if !bin_for(profile).exists() {
            harness_errors.push(format!("missing binary {}", bin_for(profile).display()));
            continue;
        }
        // contiguous ranges: one per worker, cut further when the scenario
        // asks for short-lived processes; executed by a pool of `workers`
        let n = (hi - lo).max(1);
        let w = (o.workers as u64).min(n).max(1);
        let per = ((n + w - 1) / w).min((sc.runs_per_process)(o.tier)).max(1);
        let mut ranges: std::collections::VecDeque<(u64, u64)> = std::collections::VecDeque::new();
        let mut a = lo;
        while a < hi {
            let b = (a + per).min(hi);
            ranges.push_back((a, b));
            a = b;
        }
        let queue = std::sync::Arc::new(std::sync::Mutex::new(ranges));
        let results: std::sync::Arc<std::sync::Mutex<Vec<(u64, u64, WorkerOut)>>> =
            std::sync::Arc::new(std::sync::Mutex::new(Vec::new()));
        let spawn_errors = std::sync::Arc::new(std::sync::Mutex::new(Vec::<String>::new()));
        let crash_budget = std::sync::Arc::new(std::sync::atomic::AtomicU32::new(40));
        let mut pool = Vec::new();
        for _ in 0..w {
            let queue = queue.clone();
            let results = results.clone();
            let spawn_errors = spawn_errors.clone();
            let crash_budget = crash_budget.clone();
            let id = sc.id;
            let (tier, seed) = (o.tier, o.seed);
            pool.push(std::thread::spawn(move || loop {
                let next = queue.lock().unwrap().pop_front();
                let (a, b) = match next {
                    Some(r) => r,
                    None => break,
                };
                match spawn_worker(profile, id, tier, seed, a, b, false) {
                    Ok(child) => {
                        let out = read_worker(child);
                        if out.done.is_none() && out.harness_error.is_none() {
                            if let Some((run, _)) = out.crash {
                                let run = if run == u64::MAX { a } else { run };
                                // carry on after the crashed run in a fresh process
                                if run + 1 < b && crash_budget.fetch_sub(1, Ordering::SeqCst) > 1 {
                                    queue.lock().unwrap().push_back((run + 1, b));
                                }
                            }
                        }
                        results.lock().unwrap().push((a, b, out));
                    }
                    Err(e) => spawn_errors.lock().unwrap().push(format!("spawn worker: {e}")),
                }
            }));
        }
        for t in pool {
            let _ = t.join();
        }
        harness_errors.extend(spawn_errors.lock().unwrap().drain(..));
        let mut outs = std::mem::take(&mut *results.lock().unwrap());
        outs.sort_by_key(|x| x.0);
        for (a, b, out) in outs {
            if let Some(e) = out.harness_error {
                harness_errors.push(e);
                continue;
            }
            for (run, case, f) in out.fails {
                collected.push(Collected {
                    profile,
                    run,
                    case,
                    failure: f,
                    range_from: a,
                });
            }
            if let Some(d) = out.done {
                merge_obs(&mut merged, &d, &out.hashes, &out.paths);
                *per_profile_evals.entry(profile.name()).or_default() +=
                    d["evaluations"].as_u64().unwrap_or(0);
            } else if let Some((run, sig)) = out.crash {
                crashes += 1;
                let run = if run == u64::MAX { a } else { run };
                // attribute: re-run that run alone, announcing each case
                let case = attribute_crash(profile, sc.id, o.tier, o.seed, run);
                collected.push(Collected {
                    profile,
                    run,
                    case: case.unwrap_or(Value::Null),
                    failure: crash_failure(sc.id, sig),
                    range_from: a,
                });
            } else {
                harness_errors.push(format!(
                    "worker for runs {a}..{b} ended without a report (signal {:?})",
                    out.exit_signal
                ));
            }
        }
    }

    // closing passes that are not seeded runs
    if o.only_run.is_none() {
        install_silent_hook();
        let extra = (sc.extra)(o.tier, o.seed, &mut merged);
        for (case, f) in extra {
            collected.push(Collected {
                profile: Profile::current(),
                run: u64::MAX,
                case,
                failure: f,
                range_from: 0,
            });
        }
        let _ = std::panic::take_hook();
    }

    // ---- group by signature, keep the lowest run index of each ----
    collected.sort_by(|a, b| (a.run, a.profile).cmp(&(b.run, b.profile)));
    let mut groups: BTreeMap<String, Collected> = BTreeMap::new();
    let mut counts: BTreeMap<String, u64> = BTreeMap::new();
    for c in collected {
        let sig = c.failure.signature();
        *counts.entry(sig.clone()).or_default() += 1;
        groups.entry(sig).or_insert(c);
    }

    let known = load_known();
    let replay_dir = out_root().join("replays");
    let _ = std::fs::create_dir_all(&replay_dir);
    let mut violations = 0u32;
    let mut known_hits = 0u32;
    let mut report_lines = Vec::new();
    let mut violation_summaries = Vec::new();

    for (i, (sig, c)) in groups.into_iter().enumerate() {
        let is_known = known.iter().find(|k| {
            k.status == "known"
                && k.property == c.failure.property
                && k.oracle == c.failure.oracle
                && k.class == c.failure.class
        });
        if let Some(k) = is_known {
            known_hits += 1;
            report_lines.push(format!(
                "KNOWN-FINDING: property={} {} [{}]",
                c.failure.property, k.what, sig
            ));
            continue;
        }
        violations += 1;
        // minimise the first few signatures only (bounded wall clock)
        let (mut case, mut minimised) = if i < 6 && !c.case.is_null() {
            minimise(sc, c.profile, &c.case, &c.failure, false)
        } else {
            (c.case.clone(), false)
        };
        // final confirmation in a fresh process
        let mut min_detail = None;
        let confirm = |case: &Value, min_detail: &mut Option<String>| -> bool {
            if case.is_null() {
                return false;
            }
            match exec_in_child(c.profile, sc.id, case, Duration::from_secs(180)) {
                ExecResult::Fail(f) if f.oracle == c.failure.oracle => {
                    *min_detail = Some(f.detail);
                    true
                }
                _ => false,
            }
        };
        let mut confirmed = confirm(&case, &mut min_detail);
        if !confirmed && i < 6 && !c.case.is_null() {
            // what was kept depended on the minimiser process's own history
            // (process-wide state left by earlier candidates): minimise
            // again with every candidate in a process of its own
            let (c2, m2) = minimise(sc, c.profile, &c.case, &c.failure, true);
            case = c2;
            minimised = m2;
            confirmed = confirm(&case, &mut min_detail);
            if !confirmed && minimised {
                case = c.case.clone();
                minimised = false;
                confirmed = confirm(&case, &mut min_detail);
            }
        }
        // still not reproducible from the case alone: it may need what the
        // reporting process did before it (process-wide state); re-execute
        // that process's runs up to the failing one in a fresh process
        let mut history: Option<(u64, u64)> = None;
        if !confirmed && i < 6 && c.failure.oracle != "process-abort" {
            if fails_with_process_history(c.profile, sc.id, o.tier, o.seed, c.range_from, c.run, &c.failure) {
                history = Some((c.range_from, c.run + 1));
                confirmed = true;
            }
        }
        let run_txt = if c.run == u64::MAX {
            "extra".to_string()
        } else {
            c.run.to_string()
        };
        let name = format!(
            "{}-{}-{}-{}.json",
            sc.id,
            o.seed,
            run_txt,
            sanitize(&format!("{}-{}", c.failure.oracle, c.failure.class))
        );
        let path = replay_dir.join(name);
        let rf = ReplayFile {
            property: sc.id.to_string(),
            profile: c.profile,
            tier: o.tier,
            verif_seed: o.seed,
            run_index: c.run,
            failure: Failure {
                detail: min_detail.clone().unwrap_or_else(|| c.failure.detail.clone()),
                ..c.failure.clone()
            },
            minimised,
            case: case.clone(),
            original_case: if minimised { Some(c.case.clone()) } else { None },
            process_history: history,
            how_to_replay: match history {
                None => format!(
                    "./check replay {}   (seed-only: ./check {} --tier {} --seed {} --only-run {})",
                    path.display(),
                    sc.id,
                    o.tier.name(),
                    o.seed,
                    run_txt
                ),
                Some((a, b)) => format!(
                    "./check replay {}   (the failure needs what its process did before: the replay executes runs {}..{} of seed {} in one fresh process)",
                    path.display(),
                    a,
                    b,
                    o.seed
                ),
            },
        };
        let _ = std::fs::write(&path, serde_json::to_vec_pretty(&rf).unwrap());
        report_lines.push(format!(
            "VIOLATION property={} replay={}",
            sc.id,
            path.display()
        ));
        report_lines.push(format!(
            "  oracle={} class={} profile={} run={} occurrences={} minimised={} reproduced_in_fresh_process={}{}",
            c.failure.oracle,
            c.failure.class,
            c.profile.name(),
            run_txt,
            counts.get(&sig).copied().unwrap_or(1),
            minimised,
            confirmed,
            match history {
                Some((a, b)) => format!(" (with the process history: runs {a}..{b})"),
                None => String::new(),
            }
        ));
        report_lines.push(format!("  first seen: {}", c.failure.detail));
        if let (true, Some(d)) = (minimised, &min_detail) {
            report_lines.push(format!("  minimised:  {}", d));
        }
        violation_summaries.push(json!({
            "oracle": c.failure.oracle,
            "class": c.failure.class,
            "profile": c.profile.name(),
            "run": run_txt,
            "detail": c.failure.detail,
            "replay": path.display().to_string(),
        }));
    }

    for k in known.iter().filter(|k| k.status == "fixed" && k.property == sc.id) {
        // informational only: a fixed entry suppresses nothing
        let _ = k;
    }

    let wall = t0.elapsed().as_secs_f64();
    if o.write_evidence && o.only_run.is_none() {
        write_evidence(sc, o, &merged, wall, violations, known_hits, &violation_summaries, &per_profile_evals, crashes);
    }

    println!(
        "{}: runs={} evaluations={} distinct_nontrivial={} paths={} wall={:.1}s violations={} known={}",
        sc.id,
        merged.runs,
        merged.evaluations,
        merged.distinct.len(),
        merged.paths.len(),
        wall,
        violations,
        known_hits
    );
    for l in &report_lines {
        println!("{l}");
    }
    if !harness_errors.is_empty() {
        for e in harness_errors.iter().take(5) {
            println!("HARNESS-ERROR {}: {}", sc.id, e);
        }
        return 2;
    }
    if violations > 0 {
        1
    } else {
        0
    }
}

fn sanitize(s: &str) -> String {
    s.chars()
        .map(|c| if c.is_ascii_alphanumeric() || c == '-' { c } else { '_' })
        .take(60)
        .collect()
}

fn merge_obs(m: &mut Obs, d: &Value, hashes: &[u64], paths: &[u64]) {
    m.runs += d["runs"].as_u64().unwrap_or(0);
    m.evaluations += d["evaluations"].as_u64().unwrap_or(0);
    m.steps += d["steps"].as_u64().unwrap_or(0);
    m.reader_calls += d["reader_calls"].as_u64().unwrap_or(0);
    m.writer_calls += d["writer_calls"].as_u64().unwrap_or(0);
    if let Some(c) = d["counters"].as_object() {
        for (k, v) in c {
            m.add(k, v.as_u64().unwrap_or(0));
        }
    }
    if m.samples.len() < 3 {
        if let Some(s) = d["samples"].as_array() {
            for x in s {
                if m.samples.len() < 3 {
                    m.samples.push(x.clone());
                }
            }
        }
    }
    if d["distinct_capped"].as_bool().unwrap_or(false) {
        m.distinct_capped = true;
    }
    for h in hashes {
        m.distinct.insert(*h);
    }
    for h in paths {
        m.paths.insert(*h);
    }
}

fn attribute_crash(profile: Profile, id: &str, tier: Tier, seed: u64, run: u64) -> Option<Value> {
    let child = spawn_worker(profile, id, tier, seed, run, run + 1, true).ok()?;
    let out = read_worker(child);
    out.last_announced
}

/// Greedy deterministic minimisation: keep a candidate only if the same
/// oracle and class of the same property still fail.
fn minimise(sc: &DynScenario, profile: Profile, case: &Value, f: &Failure, force_child: bool) -> (Value, bool) {
    let t0 = Instant::now();
    // a case whose environment moves the clock never runs in this process
    let jumps = crate::core::split_env(case).0.map_or(false, |e| crate::env::jumps_clock(&e));
    let in_process = !force_child
        && !jumps
        && profile == Profile::current()
        && f.oracle != "process-abort"
        && f.oracle != "wall-clock-watchdog"
        && sc.id != "C19"; // fd capture exists only in isolated workers
    if in_process {
        install_silent_hook();
    }
    let mut obs = Obs::default();
    let mut still_fails = |v: &Value| -> bool {
        if in_process {
            // every candidate on a thread of its own: nothing a previous
            // candidate left in thread-local storage is seen by the next
            let obs = &mut obs;
            let r = std::thread::scope(|s| {
                s.spawn(move || {
                    std::panic::catch_unwind(std::panic::AssertUnwindSafe(|| (sc.exec_json)(v, obs)))
                })
                .join()
            });
            match r {
                Ok(Ok(Ok(Err(g)))) => g.oracle == f.oracle && g.class == f.class,
                _ => false,
            }
        } else {
            match exec_in_child(profile, sc.id, v, Duration::from_secs(10)) {
                ExecResult::Fail(g) => g.oracle == f.oracle && g.class == f.class,
                _ => false,
            }
        }
    };
    // the original must fail in this setting, otherwise leave it alone
    if !still_fails(case) {
        if in_process {
            let _ = std::panic::take_hook();
        }
        return (case.clone(), false);
    }
    let mut cur = case.clone();
    let mut execs = 0u32;
    let budget_execs = if in_process { 20_000 } else { 1_500 };
    'outer: loop {
        let cands = (sc.shrink_json)(&cur);
        for cand in cands {
            if execs >= budget_execs || t0.elapsed() > Duration::from_secs(25) {
                break 'outer;
            }
            if cand == cur {
                continue;
            }
            execs += 1;
            if still_fails(&cand) {
                cur = cand;
                continue 'outer;
            }
        }
        break;
    }
    if in_process {
        let _ = std::panic::take_hook();
    }
    (cur, true)
}

#[allow(clippy::too_many_arguments)]
fn write_evidence(
    sc: &DynScenario,
    o: &CheckOpts,
    m: &Obs,
    wall: f64,
    violations: u32,
    known_hits: u32,
    vs: &[Value],
    per_profile: &BTreeMap<&'static str, u64>,
    crashes: u32,
) {
    let meta = (sc.meta)();
    let mut faults = BTreeMap::new();
    let mut probes = BTreeMap::new();
    let mut other = BTreeMap::new();
    for (k, v) in &m.counters {
        if let Some(r) = k.strip_prefix("fault:") {
            faults.insert(r.to_string(), *v);
        } else if let Some(r) = k.strip_prefix("probe:") {
            probes.insert(r.to_string(), *v);
        } else {
            other.insert(k.clone(), *v);
        }
    }
    let runs_per_hour = if wall > 0.0 {
        (m.runs as f64 / wall * 3600.0) as u64
    } else {
        0
    };
    let mut samples = m.samples.clone();
    if samples.is_empty() {
        samples.push(json!("no sample recorded"));
    }
    let ev = json!({
        "property_id": sc.id,
        "tier": o.tier.name(),
        "seed": o.seed,
        "level": sc.level,
        "coverage": {
            "evaluations": m.evaluations,
            "distinct_nontrivial": m.distinct.len(),
            "rule": format!("{}{}", meta.rule, if m.distinct_capped { " [distinct counter hit its per-worker cap: reported value is a lower bound]" } else { "" }),
            "samples": samples,
            "exhaustive": false,
            "simulated_runs": m.runs,
            "runs_per_hour": runs_per_hour,
            "simulated_steps": m.steps,
            "simulated_time": "not applicable: rl2tp reads no clock and owns no timer; the step counter (deliveries) and the reader-call counter are the only time in the simulation",
            "reader_calls_monitored": m.reader_calls,
            "writer_calls_monitored": m.writer_calls,
            "distinct_decode_paths": m.paths.len(),
            "simulated_time_covered_s": m.counters.get("simulated-seconds-jumped").copied().unwrap_or(0),
            "simulated_time_note": "rl2tp has no timers; simulated time only passes in the AfterIdle environment (clock jumps between a warm-up operation and the case, via the simulator's own clock_gettime)",
            "faults_fired": faults,
            "fault_kinds_not_applicable": meta.faults_not_applicable,
            "probes_hit": probes,
            "counters": other,
            "evaluations_per_profile": per_profile,
            "worker_processes": o.workers,
            "worker_crashes": crashes,
            "components_real": meta.real,
            "components_stub": meta.stub,
            "violation_details": vs,
            "known_findings_reobserved": known_hits,
        },
        "assumptions": meta.assumptions,
        "wall_s": (wall * 100.0).round() / 100.0,
        "violations": violations,
    });
    let dir = out_root().join("evidence");
    let _ = std::fs::create_dir_all(&dir);
    let p = dir.join(format!("{}.json", sc.id));
    let _ = std::fs::write(p, serde_json::to_vec_pretty(&ev).unwrap());
}

/// `replay <file>`: re-execute the materialised case in a fresh process of
/// the recorded profile. Exit 1 when the recorded failure reproduces.
pub fn replay_main(find: &dyn Fn(&str) -> Option<DynScenario>, path: &Path) -> i32 {
    let txt = match std::fs::read_to_string(path) {
        Ok(t) => t,
        Err(e) => {
            println!("HARNESS-ERROR cannot read {}: {e}", path.display());
            return 2;
        }
    };
    let rf: ReplayFile = match serde_json::from_str(&txt) {
        Ok(r) => r,
        Err(e) => {
            println!("HARNESS-ERROR cannot parse {}: {e}", path.display());
            return 2;
        }
    };
    let sc = match find(&rf.property) {
        Some(s) => s,
        None => {
            println!("HARNESS-ERROR unknown property {}", rf.property);
            return 2;
        }
    };
    if let Some((a, b)) = rf.process_history {
        let hit = fails_with_process_history(rf.profile, sc.id, rf.tier, rf.verif_seed, a, b.saturating_sub(1), &rf.failure);
        if hit {
            println!("VIOLATION property={} replay={}", rf.property, path.display());
            println!(
                "  oracle={} class={} profile={} reproduced by executing runs {}..{} of seed {} in one fresh process",
                rf.failure.oracle,
                rf.failure.class,
                rf.profile.name(),
                a,
                b,
                rf.verif_seed
            );
            println!("  {}", rf.failure.detail);
            return 1;
        }
        println!(
            "replay {}: runs {}..{} pass on the current tree (recorded failure: {} / {})",
            path.display(),
            a,
            b,
            rf.failure.oracle,
            rf.failure.class
        );
        return 0;
    }
    if rf.case.is_null() {
        println!(
            "replay file holds no materialised case; use the seed: ./check {} --tier {} --seed {} --only-run {}",
            rf.property,
            rf.tier.name(),
            rf.verif_seed,
            rf.run_index
        );
        return 2;
    }
    match exec_in_child(rf.profile, sc.id, &rf.case, Duration::from_secs(60)) {
        ExecResult::Pass => {
            println!(
                "replay {}: case passes on the current tree (recorded failure: {} / {})",
                path.display(),
                rf.failure.oracle,
                rf.failure.class
            );
            0
        }
        ExecResult::Fail(f) => {
            println!("VIOLATION property={} replay={}", rf.property, path.display());
            println!(
                "  oracle={} class={} profile={} (recorded: {} / {}) same_oracle={}",
                f.oracle,
                f.class,
                rf.profile.name(),
                rf.failure.oracle,
                rf.failure.class,
                f.oracle == rf.failure.oracle
            );
            println!("  {}", f.detail);
            1
        }
        ExecResult::HarnessError(e) => {
            println!("HARNESS-ERROR replay: {e}");
            2
        }
    }
}

/// Determinism self-test: digest of (failures, counters, hashes) of a batch.
pub fn digest_main(sc: &DynScenario, tier: Tier, seed: u64, runs: u64, workers: usize) -> String {
    let mut merged = Obs::default();
    let mut fails = BTreeSet::new();
    for &profile in (sc.profiles)() {
        let w = (workers as u64).min(runs).max(1);
        let mut handles = Vec::new();
        for i in 0..w {
            let (a, b) = (runs * i / w, runs * (i + 1) / w);
            if a >= b {
                continue;
            }
            if let Ok(child) = spawn_worker(profile, sc.id, tier, seed, a, b, false) {
                handles.push(std::thread::spawn(move || read_worker(child)));
            }
        }
        for h in handles {
            let out = h.join().unwrap();
            if let Some(d) = out.done {
                merge_obs(&mut merged, &d, &out.hashes, &out.paths);
            }
            for (run, _case, f) in out.fails {
                fails.insert(format!("{}:{}:{}", profile.name(), run, f.signature()));
            }
            if let Some((run, sig)) = out.crash {
                fails.insert(format!("{}:{}:crash-{}", profile.name(), run, sig));
            }
        }
    }
    let mut h: Vec<u64> = merged.distinct.iter().copied().collect();
    h.sort_unstable();
    let mut p: Vec<u64> = merged.paths.iter().copied().collect();
    p.sort_unstable();
    let mut acc = crate::rng::fnv1a(format!("{:?}", merged.counters).as_bytes());
    for x in h.iter().chain(p.iter()) {
        acc = crate::rng::mix2(acc, *x);
    }
    // failures found by more than one worker are deduplicated per worker, so
    // only the set of signatures (not run indices) is partition independent
    let sigs: BTreeSet<String> = fails
        .iter()
        .map(|s| s.splitn(3, ':').nth(2).unwrap_or("").to_string())
        .collect();
    acc = crate::rng::mix2(acc, crate::rng::fnv1a(format!("{:?}", sigs).as_bytes()));
    format!(
        "{:016x} runs={} evals={} steps={} rcalls={} distinct={} paths={} sigs={}",
        acc,
        merged.runs,
        merged.evaluations,
        merged.steps,
        merged.reader_calls,
        h.len(),
        p.len(),
        sigs.len()
    )
}

pub fn read_stdin_all() -> String {
    let mut s = String::new();
    let _ = std::io::stdin().read_to_string(&mut s);
    s
}

#[allow(dead_code)]
pub fn proto_from_raw() -> std::fs::File {
    unsafe { std::fs::File::from_raw_fd(PROTO_FD.load(Ordering::Relaxed)) }
}
