//! Std-only scenarios run under `cargo +nightly miri run`:
//!
//!   threads <n>      C19 part 4: 4 std threads x 6 codec calls over shared
//!                    read-only inputs; every result must equal the
//!                    sequential one. Each -Zmiri-seed is one exactly
//!                    repeatable interleaving with preemption inside calls;
//!                    Miri's data-race detector reports unsynchronised
//!                    shared state.
//!   sample <file>    C02/C13: replay a seeded sample of faulted inputs
//!                    through the crate's own SliceReader under Miri (a
//!                    stricter memory monitor for the same simulated runs,
//!                    not a search engine). Lines:
//!                      M <opts 0-7> <hex>   try_read_validate
//!                      G <hex>              try_read_greedy
//!                      R <attr> <value hex> <secret hex> <rv hex>  reveal

use rl2tp::avp::types::{self as t, Hidden, RandomVector};
use rl2tp::avp::AVP;
use rl2tp::common::{Reader, SliceReader, VecWriter};
use rl2tp::{
    ControlMessage, DataMessage, Message, ValidateReserved, ValidateUnused, ValidateVersion,
    ValidationOptions,
};
use std::sync::Arc;

fn opts(i: u8) -> ValidationOptions {
    ValidationOptions {
        reserved: if i & 1 != 0 { ValidateReserved::Yes } else { ValidateReserved::No },
        version: if i & 2 != 0 { ValidateVersion::Yes } else { ValidateVersion::No },
        unused: if i & 4 != 0 { ValidateUnused::Yes } else { ValidateUnused::No },
    }
}

fn unhex(s: &str) -> Vec<u8> {
    let b = s.as_bytes();
    let n = |c: u8| match c {
        b'0'..=b'9' => c - b'0',
        b'a'..=b'f' => c - b'a' + 10,
        b'A'..=b'F' => c - b'A' + 10,
        _ => 0,
    };
    b.chunks_exact(2).map(|p| (n(p[0]) << 4) | n(p[1])).collect()
}

#[derive(Clone)]
enum Call {
    Decode(Vec<u8>, u8),
    Greedy(Vec<u8>),
    Encode(usize),
    Hide(usize, Vec<u8>),
    Reveal(u16, Vec<u8>, Vec<u8>),
    Display(usize),
}

struct Shared {
    msgs: Vec<Message<Vec<u8>>>,
    avps: Vec<AVP>,
}

fn perform(c: &Call, sh: &Shared) -> String {
    let r = std::panic::catch_unwind(std::panic::AssertUnwindSafe(|| match c {
        Call::Decode(b, o) => {
            let mut r = SliceReader::from(&b[..]);
            let m = Message::<&[u8]>::try_read_validate(&mut r, opts(*o));
            format!("{m:?} rem={}", r.len())
        }
        Call::Greedy(b) => {
            let mut r = SliceReader::from(&b[..]);
            let v = AVP::try_read_greedy::<&[u8]>(&mut r);
            format!("{v:?}")
        }
        Call::Encode(i) => {
            let mut w = VecWriter::new();
            sh.msgs[*i % sh.msgs.len()].write(&mut w);
            format!("{:?}", w.data)
        }
        Call::Hide(i, secret) => {
            let a = sh.avps[*i % sh.avps.len()].clone();
            let h = a.hide(secret, &RandomVector::from([1, 2, 3, 4]), &[9, 9, 9], &[7u8; 16]);
            format!("{h:?}")
        }
        Call::Reveal(attr, value, secret) => {
            let h = AVP::Hidden(Hidden {
                attribute_type: *attr,
                value: value.clone(),
            });
            format!("{:?}", h.reveal(secret, &RandomVector::from([1, 2, 3, 4])))
        }
        Call::Display(i) => {
            let e = [
                rl2tp::common::DecodeError::IncompleteAVP(*i as u16),
                rl2tp::common::DecodeError::UnknownAvp(*i as u16),
                rl2tp::common::DecodeError::InvalidUtf8(*i as u16),
            ];
            e[*i % 3].to_string()
        }
    }));
    r.unwrap_or_else(|_| "PANIC".to_string())
}

fn shared() -> Shared {
    let avps = vec![
        AVP::MessageType(t::MessageType::Hello),
        AVP::HostName(t::HostName::from(vec![1, 2, 3, 4, 5])),
        AVP::VendorName(t::VendorName::from("v\u{e9}ndor".to_string())),
        AVP::TieBreaker(t::TieBreaker::from(0x0102030405060708u64)),
        AVP::BearerCapabilities(t::BearerCapabilities::new(true, false)),
        AVP::Challenge(t::Challenge::from(vec![0xAA; 20])),
    ];
    let msgs = vec![
        Message::Control(ControlMessage {
            length: 0,
            tunnel_id: 1,
            session_id: 2,
            ns: 3,
            nr: 4,
            avps: avps.clone(),
        }),
        Message::Control(ControlMessage {
            length: 0,
            tunnel_id: 9,
            session_id: 0,
            ns: 0,
            nr: 0,
            avps: vec![],
        }),
        Message::Data(DataMessage {
            is_prioritized: true,
            length: Some(6 + 2 + 4 + 5),
            tunnel_id: 5,
            session_id: 6,
            ns_nr: Some((7, 8)),
            offset: None,
            data: vec![1, 2, 3, 4, 5],
        }),
    ];
    Shared { msgs, avps }
}

fn calls(sh: &Shared, seed: u64) -> Vec<Call> {
    let mut enc = Vec::new();
    for m in &sh.msgs {
        let mut w = VecWriter::new();
        m.write(&mut w);
        enc.push(w.data);
    }
    let mut s = seed.wrapping_mul(0x9E3779B97F4A7C15) | 1;
    let mut next = || {
        s ^= s << 13;
        s ^= s >> 7;
        s ^= s << 17;
        s
    };
    // a foreign, non-canonical variant of the first message: M bit clear and
    // reserved AVP flag bits set on every record (legal for a lax receiver)
    let mut foreign = enc[0].clone();
    {
        let mut pos = 12;
        while pos + 6 <= foreign.len() {
            let len = (((foreign[pos] >> 6) as usize) << 8) | foreign[pos + 1] as usize;
            if len < 6 {
                break;
            }
            foreign[pos] = (foreign[pos] & !0x01) | 0x24;
            pos += len;
        }
    }
    let mut out = Vec::new();
    // the same foreign message under a strict and a lax option set, so that
    // threads with different configurations overlap inside one decode
    out.push(Call::Decode(foreign.clone(), 0));
    out.push(Call::Decode(foreign.clone(), 7));
    out.push(Call::Greedy(foreign[12..].to_vec()));
    for i in 0..21usize {
        let pick = (next() % 7) as usize;
        out.push(match pick {
            0 => Call::Decode(enc[i % enc.len()].clone(), (next() % 8) as u8),
            1 => {
                let mut b = enc[0].clone();
                let k = (next() as usize) % b.len();
                b[k] ^= 1 << (next() % 8);
                Call::Decode(b, 0)
            }
            2 => Call::Greedy(enc[0][12..].to_vec()),
            3 => Call::Encode(i),
            4 => Call::Hide(i, if next() % 2 == 0 { Vec::new() } else { vec![1, 2, 3] }),
            5 => {
                let a = sh.avps[i % sh.avps.len()].clone();
                match a.hide(b"secret", &RandomVector::from([1, 2, 3, 4]), &[], &[0u8; 16]) {
                    AVP::Hidden(h) => Call::Reveal(h.attribute_type, h.value, if next() % 3 == 0 { b"wrong".to_vec() } else { b"secret".to_vec() }),
                    _ => Call::Display(i),
                }
            }
            _ => Call::Display(i),
        });
    }
    out
}

fn threads_scenario(seed: u64) -> i32 {
    std::panic::set_hook(Box::new(|_| {}));
    let sh = Arc::new(shared());
    let cs = Arc::new(calls(&sh, seed));
    let mut expected: Vec<String> = cs.iter().map(|c| perform(c, &sh)).collect();
    // every thread also hides and reveals a multi-chunk value under a long
    // secret of its own (more than 240 octets, different per thread), all at
    // about the same time: a buffer shared between long-secret calls, locked
    // per step instead of per call, shows up here
    let long: Vec<Call> = (0..4usize).map(|t| Call::Hide(5, vec![t as u8 + 1; 250 + 7 * t])).collect();
    let long_base = expected.len();
    for c in &long {
        expected.push(perform(c, &sh));
    }
    let long = Arc::new(long);
    let mut hs = Vec::new();
    for t in 0..4usize {
        let sh = sh.clone();
        let cs = cs.clone();
        let long = long.clone();
        hs.push(std::thread::spawn(move || {
            let mut out = Vec::new();
            for k in 0..6 {
                let i = (t * 6 + k) % cs.len();
                out.push((i, perform(&cs[i], &sh)));
                // and one call that every thread performs at the same time
                if k == 2 {
                    out.push((0, perform(&cs[0], &sh)));
                }
                if k == 1 || k == 4 {
                    out.push((long_base + t, perform(&long[t], &sh)));
                }
            }
            out
        }));
    }
    let mut bad = 0;
    for h in hs {
        for (i, r) in h.join().unwrap() {
            if r != expected[i] {
                println!("C19-MIRI call #{i} differs across threads: {r} vs {}", expected[i]);
                bad += 1;
            }
        }
    }
    if bad > 0 {
        1
    } else {
        println!("threads scenario ok");
        0
    }
}

fn sample(path: &str) -> i32 {
    std::panic::set_hook(Box::new(|_| {}));
    let txt = std::fs::read_to_string(path).expect("sample file");
    let mut n = 0;
    let mut panics = 0;
    for line in txt.lines() {
        let f: Vec<&str> = line.split_whitespace().collect();
        let r = std::panic::catch_unwind(|| match f.as_slice() {
            ["M", o, hex] => {
                let b = unhex(hex);
                let mut r = SliceReader::from(&b[..]);
                let _ = Message::<&[u8]>::try_read_validate(&mut r, opts(o.parse().unwrap_or(0)));
            }
            ["G", hex] => {
                let b = unhex(hex);
                let mut r = SliceReader::from(&b[..]);
                let _ = AVP::try_read_greedy::<&[u8]>(&mut r);
            }
            ["G"] => {
                let mut r = SliceReader::from(&[][..]);
                let _ = AVP::try_read_greedy::<&[u8]>(&mut r);
            }
            ["R", attr, rest @ ..] => {
                let g = |i: usize| rest.get(i).map(|s| unhex(s)).unwrap_or_default();
                let rv = g(2);
                let mut rva = [0u8; 4];
                for (i, b) in rv.iter().take(4).enumerate() {
                    rva[i] = *b;
                }
                let h = AVP::Hidden(Hidden {
                    attribute_type: attr.parse().unwrap_or(0),
                    value: g(0),
                });
                let _ = h.reveal(&g(1), &RandomVector::from(rva));
            }
            _ => {}
        });
        if r.is_err() {
            panics += 1;
        }
        n += 1;
    }
    println!("sample ok: {n} inputs replayed under the memory monitor, {panics} unwinding panics");
    0
}

fn main() {
    let args: Vec<String> = std::env::args().skip(1).collect();
    let code = match args.first().map(|s| s.as_str()) {
        Some("threads") => threads_scenario(args.get(1).and_then(|s| s.parse().ok()).unwrap_or(1)),
        Some("sample") => sample(args.get(1).expect("file")),
        _ => {
            eprintln!("usage: threads <n> | sample <file>");
            2
        }
    };
    std::process::exit(code);
}
