#!/bin/bash
# Refresh everything that is committed from a run of /verif against /repo:
# build, selftest, every quick check (evidence files), schema validation,
# manifest and result tables.
cd "$(dirname "$0")/.."
set -u
./check build | tail -1
./check selftest 2>&1 | grep -E "selftest: all ok|SELFTEST-FAIL" 
rc_all=0
for c in C01 C02 C03 C04 C05 C06 C07 C08 C09 C10 C11 C12 C13 C14 C15 C18 C19 C20; do
  ./check $c --tier quick > /tmp/final_$c.txt 2>&1; rc=$?
  grep -E "^$c:|VIOLATION|HARNESS|KNOWN" /tmp/final_$c.txt | cut -c1-200
  [ $rc -eq 0 ] || rc_all=1
done
python3 tools/gen_manifest.py
python3 tools/gen_results_md.py
python3-vt - <<'PY'
import json, jsonschema, glob
ms = json.load(open('/root/.vp/MANIFEST.schema.json')); jsonschema.validate(json.load(open('/verif/MANIFEST.json')), ms)
es = json.load(open('/root/.vp/EVIDENCE.schema.json'))
for f in sorted(glob.glob('/verif/evidence/*.json')):
    jsonschema.validate(json.load(open(f)), es)
print("manifest and", len(glob.glob('/verif/evidence/*.json')), "evidence files validate")
PY
rm -f /tmp/final_C*.txt
echo "overall rc=$rc_all"
