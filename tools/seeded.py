#!/usr/bin/env python3
"""Confirm and archive a seeded breaking change produced by an independent
sub-agent in a scratch worktree, then run the checks against it.

  tools/seeded.py eval <name> <property> <worktree> [--checks C01,C05,...]

Steps (all in a fresh verification worktree of /repo's HEAD under
/tmp/seedverify, never in /repo):
  1. original tree: 98 baseline tests pass, the demo test passes;
  2. patched tree : 98 baseline tests pass, the demo test FAILS;
  3. every check (or the listed ones) at quick tier via VERIF_REPO=<patched>.
Writes /verif/seeded/<name>/{patch.diff, seeded_demo.rs, NOTES.md, meta.json}.
"""
import json, os, re, shutil, subprocess, sys, time

VERIF = os.path.dirname(os.path.dirname(os.path.abspath(__file__)))
ALL = ["C01","C02","C03","C04","C05","C06","C07","C08","C09","C10","C11","C12","C13","C14","C15","C18","C19","C20"]

def sh(cmd, cwd=None, env=None, timeout=3600):
    e = dict(os.environ); e.update(env or {})
    p = subprocess.run(cmd, cwd=cwd, env=e, shell=isinstance(cmd, str), stdout=subprocess.PIPE, stderr=subprocess.STDOUT, timeout=timeout)
    return p.returncode, p.stdout.decode(errors="replace")

def tests(wt, tgt):
    """Baseline suite (lib + doc) and the demo, run separately so that a demo
    that aborts its own test binary cannot hide the other results."""
    env = {"CARGO_TARGET_DIR": tgt}
    rc_l, out_l = sh("cargo test --offline --lib 2>&1", cwd=wt, env=env)
    rc_d, out_d = sh("cargo test --offline --doc 2>&1", cwd=wt, env=env)
    rc_x, out_x = sh("cargo test --offline --test seeded_demo 2>&1", cwd=wt, env=env)
    lines = re.findall(r"test result: \w+\. \d+ passed; \d+ failed", out_l + out_d + out_x)
    base_ok = ("98 passed; 0 failed" in out_l) and rc_l == 0 and rc_d == 0 and ("3 passed; 0 failed" in out_d)
    return {"baseline_ok": base_ok, "demo_exit": rc_x, "lines": lines, "demo_out": out_x}

def main():
    if len(sys.argv) < 5 or sys.argv[1] != "eval":
        print(__doc__); sys.exit(2)
    name, prop, src = sys.argv[2], sys.argv[3], sys.argv[4]
    checks = ALL
    if "--checks" in sys.argv:
        checks = sys.argv[sys.argv.index("--checks") + 1].split(",")
    outdir = os.path.join(VERIF, "seeded", name)
    os.makedirs(outdir, exist_ok=True)
    rc, diff = sh("git diff -- src", cwd=src)
    if not diff.strip():
        print("no source change in", src); sys.exit(2)
    open(os.path.join(outdir, "patch.diff"), "w").write(diff)
    demo = os.path.join(src, "tests", "seeded_demo.rs")
    shutil.copy(demo, os.path.join(outdir, "seeded_demo.rs"))
    if os.path.exists(os.path.join(src, "NOTES.md")):
        shutil.copy(os.path.join(src, "NOTES.md"), os.path.join(outdir, "NOTES.md"))
    base = "/tmp/seedverify"
    wt = os.path.join(base, name)
    tgt = os.path.join(base, "target-" + name)
    os.makedirs(base, exist_ok=True)
    sh(["git", "-C", "/repo", "worktree", "remove", "--force", wt])
    rc, out = sh(["git", "-C", "/repo", "worktree", "add", "--detach", "-f", wt, "HEAD"])
    if rc != 0:
        print(out); sys.exit(2)
    os.makedirs(os.path.join(wt, "tests"), exist_ok=True)
    shutil.copy(demo, os.path.join(wt, "tests", "seeded_demo.rs"))
    meta = {"name": name, "property": prop, "repo_head": subprocess.check_output(["git", "-C", "/repo", "rev-parse", "--short", "HEAD"]).decode().strip(),
            "ran": []}
    # 1. original
    t1 = tests(wt, tgt)
    meta["original_tree"] = {"test_results": t1["lines"], "baseline_98_plus_3_pass": t1["baseline_ok"], "demo_exit_code": t1["demo_exit"]}
    orig_ok = t1["baseline_ok"] and t1["demo_exit"] == 0
    meta["ran"].append("cargo test --offline --lib / --doc / --test seeded_demo   (original tree + tests/seeded_demo.rs: all must pass)")
    # 2. patched
    rc, o = sh(["git", "apply", os.path.join(outdir, "patch.diff")], cwd=wt)
    if rc != 0:
        print("patch does not apply:", o); sys.exit(2)
    t2 = tests(wt, tgt)
    meta["patched_tree"] = {"test_results": t2["lines"], "baseline_98_plus_3_pass": t2["baseline_ok"], "demo_exit_code": t2["demo_exit"]}
    out = t2["demo_out"]
    m = re.search(r"---- (\S+) stdout ----\n(.*?)\n\n", out, re.S)
    meta["patched_tree"]["demo_failure_excerpt"] = (m.group(0)[:600] if m else out[-400:])
    meta["confirmed"] = bool(orig_ok and t2["baseline_ok"] and t2["demo_exit"] != 0)
    meta["ran"].append("git apply patch.diff; cargo test --offline --lib / --doc / --test seeded_demo   (98 + 3 baseline tests must pass, the demo must fail)")
    # remove the demo before running the checks (they only need src/)
    os.remove(os.path.join(wt, "tests", "seeded_demo.rs"))
    # 3. checks
    env = {"VERIF_REPO": wt, "VERIF_SHADOW": os.path.join(base, "shadow-" + name)}
    alarms, clean, herr = [], [], []
    order = [prop] + [c for c in checks if c != prop]
    for c in order:
        t0 = time.time()
        rc, out = sh([os.path.join(VERIF, "check"), c, "--tier", "quick", "--no-evidence"], cwd=VERIF, env=env)
        if rc == 1:
            sigs = re.findall(r"oracle=(\S+) class=(\S+)", out)
            mins = re.findall(r"minimised:\s+(.*)", out)
            alarms.append({"check": c, "signatures": [f"{a}/{b}" for a, b in sigs][:5], "minimised_example": (mins[0][:400] if mins else ""), "seconds": round(time.time() - t0, 1)})
        elif rc == 0:
            clean.append(c)
        else:
            herr.append({"check": c, "tail": out[-300:]})
    meta["ran"].append("VERIF_REPO=<patched worktree> ./check <ID> --tier quick --no-evidence   for " + ",".join(order))
    meta["alarms"] = alarms
    meta["clean"] = clean
    meta["harness_errors"] = herr
    meta["caught_by_target_property_check"] = any(a["check"] == prop for a in alarms)
    meta["caught_by_any_check"] = bool(alarms)
    json.dump(meta, open(os.path.join(outdir, "meta.json"), "w"), indent=1)
    print(json.dumps({k: meta[k] for k in ("name", "property", "confirmed", "caught_by_target_property_check", "caught_by_any_check")}))
    print("alarms:", [(a["check"], a["signatures"][:2]) for a in alarms])
    if herr:
        print("harness errors:", herr)
    # clean up scratch
    sh(["git", "-C", "/repo", "worktree", "remove", "--force", wt])
    shutil.rmtree(tgt, ignore_errors=True)
    shutil.rmtree(os.path.join(base, "shadow-" + name), ignore_errors=True)

if __name__ == "__main__":
    main()
