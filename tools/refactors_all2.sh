#!/bin/bash
# second batch of behaviour-preserving refactorings (worktrees under /tmp/refac2)
cd "$(dirname "$0")/.."
for spec in R7-per-thread-scratch-buffers-done-right R8-retransmission-memo-comparing-octets R9-slice-reader-cursor-and-vec-writer-rewrite R10-single-pass-control-decode-and-error-plumbing R11-hide-reveal-streaming-md5-context R12-encoders-without-back-patching; do
  r="${spec%%-*}"
  echo "=== $spec"
  python3 tools/refactors.py eval "$spec" /tmp/refac2/$r 2>&1 | grep -v WARNING | tail -8 | cut -c1-900
done
echo ALLDONE
