#!/usr/bin/env python3
"""Writes /verif/MANIFEST.json from the table below (kept in one place so the
manifest cannot drift from the checks)."""
import json, os

ROOT = os.path.dirname(os.path.dirname(os.path.abspath(__file__)))

BASELINE = ("NO TRANSPORT FAULT applies to this property (its quantifier has none: it speaks of values handed to the "
            "encoder, not of traffic); injected are execution environments and Reader/Writer seam behaviours only. ")

ENV = (" Execution environments (every check, one case in ten): the case runs right after an operation the library "
       "refused on the same thread (caught panic of an oversize AVP / message / hide, a writer that is full, a rejected "
       "decode) and/or inside a destructor while the thread unwinds from an unrelated panic, after hundreds to tens of "
       "thousands of repetitions of one operation, after a warm-up and a jump of the simulated clock, or from inside a "
       "seam call (Reader / Writer method) of another encode or decode in progress on the same thread; the environment "
       "is part of the replay case. Seams: re-entrant readers and writers (the seam uses the library itself in the middle of a "
       "request), writers that report positions beyond 2^32, messages followed by 64 KiB or more, sparse readers of "
       "astronomical length, read faults (declined bytes() requests) under a narrow relaxed oracle.")

P = {
 "C01": ("fault_enumeration", "5/C01",
   "seeded simulation; per in-flight message the complete single-fault neighbourhood (EOF at every octet, every header bit, every length field at guard+-1) plus PRNG fault pairs, delivered to 8 option sets + try_read + try_read_greedy, dev and release worker processes with crash capture and a step-clock watchdog",
   "Decides totality on everything delivered: a violation is an unwinding panic, a process death (abort/signal), an empty error list or a blown step budget. Sampled base messages, complete fault neighbourhood per message; a clean batch is evidence, not proof.",
   "model used only for field offsets; unwinding panics caught in-process, aborts/signals as worker deaths; termination judged by reader-call budget 64+8*len plus wall-clock watchdog"),
 "C02": ("exploration", "5/C02",
   "seeded simulation with a contract-monitoring Reader seam (three harness back-ends + SliceReader baseline), same fault enumeration as C01; dev-profile std precondition checks as abort monitor",
   "Every call the decoder issues to a conforming reader is checked against the reader's own cursor, and results must agree across back-ends (T=&[u8] and T=Vec<u8>). Quantifies over programs by sampling three reader implementations.",
   "reader back-ends are conforming; reveal() cannot take a monitored reader (covered in C13 + Miri sample)"),
 "C03": ("exploration", "5/C03",
   "seeded swarm workload without transport faults: real encoder -> simulator-owned writer -> unaltered delivery -> strict real decoder through a PRNG reader back-end; oracle decode(encode(m)) = m",
   BASELINE + "Seeded generator over all 39 AVP kinds + hidden, value extremes, boundary sizes (249-257, 1012-1017 octet payloads, messages up to 65535), varied reader/writer back-ends and prefixes.",
   "field-by-field comparison through public fields; bitmask word observed through AVP::write"),
 "C04": ("exploration", "5/C04",
   "seeded workload without transport faults: complete L/S/O/P x offset x size lattice in every run plus PRNG data messages; oracle decode(encode(d)) = d'",
   BASELINE + "All 16 flag combinations x boundary offsets at rotating boundary payload sizes in every run, PRNG ids/payloads, 65535-octet totals.",
   "length, when present, counts from the first flag octet (property text)"),
 "C05": ("exploration", "5/C05",
   "seeded simulation: real receiver vs reference receiver (independent executable model) on the same faulted deliveries from a canonical/foreign reference sender, all 8 option sets, plus re-randomisation of unnamed bits",
   "Differential check against an independent reference decoder on canonical, non-canonical and faulted traffic (about half accepted): accept iff spec accepts, values equal, unnamed bits irrelevant.",
   "trusted base: the reference model in sim/src/model (RFC 2661 + the crate's bit numbering); error identity not compared here"),
 "C06": ("exploration", "5/C06",
   "seeded swarm workload without transport faults: real encoder output compared byte for byte with the reference encoder; bitmask constructors for all argument pairs",
   BASELINE + "Byte-exact comparison with an independent reference encoder over the swarm workload, incl. stale data lengths and the bitmask constructors.",
   "trusted base: reference encoder; capability-bit assignment calibrated from the public accessors"),
 "C07": ("exploration", "5/C07",
   "seeded workload forced to at-limit / over-limit sizes, Writer-seam monitor, independent length walker; dev and release",
   BASELINE + "At-limit and over-limit AVPs (1016-2000 octet payloads), messages of 65534-65537 octets, hide() at its limits; whenever the encoder returns every length field must be exact, and refusal is accepted only for oversize values.",
   "'fails loudly' = unwinds (caught under a silent hook)"),
 "C08": ("exploration", "5/C08",
   "seeded simulation of histories over ONE reader: coalesced packs of 1-6 messages with trailing-octet faults, k successive decodes, position and touched-octet monitor; AVP record tiling",
   "History oracles: results equal per-message decodes, reader position = sum of declared lengths, the monitored reader is never asked for an octet beyond the declared end; record concatenation law.",
   "self-relative (each message's own exact-fit decode is the reference)"),
 "C09": ("exploration", "5/C09",
   "seeded simulation of write histories into one simulator-owned writer (real / flat / paged) holding a PRNG or adversarial prefix; seam invariant on every positional overwrite plus concatenation law",
   "Every write_bytes_at must lie inside the value being encoded; final content = prefix ++ encode(v1) ++ .. ++ encode(vk).",
   "self-relative (fresh-writer encoding is the reference)"),
 "C10": ("exploration", "5/C10",
   "seeded simulation of a relay node fed by the foreign peer's non-canonical encodings and by faulted-but-acceptable traffic under PRNG option sets; decode -> encode -> strict decode -> encode chain",
   "For every accepted delivery the re-encoding must decode strictly to the same value and re-encode to the same octets.",
   "self-relative; model only produces inputs"),
 "C11": ("exploration", "5/C11",
   "seeded two-party workload without transport faults: hide -> (optionally wire) -> reveal with shared secret and random vector; block-count / residue lattice",
   BASELINE + "All 39 kinds, secret lengths 0-64, block counts 1,2,3,4,63, residues 0/1/15, direct and via encode/decode.",
   "self-relative"),
 "C12": ("exploration", "5/C12",
   "seeded two-party workload without transport faults: real hide vs reference hide (own MD5) octet for octet, reference hide -> real reveal, reveal vs reference reveal",
   BASELINE + "Interoperability with an independent implementation of RFC 2661 s4.3 over the same lattice as C11.",
   "trusted base: model MD5 (RFC 1321 vectors checked at start-up) and s4.3 construction; either original-length convention accepted if consistent"),
 "C13": ("exploration", "5/C13",
   "seeded two-party simulation with key-skew and ciphertext faults (secret/rv skew, cipher flip/truncate/extend, type swap, solved declared lengths); dev and release worker processes with crash capture",
   "Reveal under wrong keys and tampered ciphertext: no panic/abort, Ok only with the announced type, mandated rejections, equals the reference reveal.",
   "reveal() builds its own SliceReader: out-of-range reads observed via dev-profile aborts and the Miri sample"),
 "C14": ("fault_enumeration", "5/C14",
   "nine differently configured receivers on identical deliveries; flag-word fault enumeration (quick: Hamming distance <= 2 around 4 canonical words + PRNG; thorough: all 65536 words) in front of 14 body kinds; cross-node invariants",
   "Monotonicity over all ordered option pairs, exactness and transparency of each gate, independence of owned bits, default = version only. The thorough tier sweeps the whole flag-word space; bodies are sampled.",
   "when version and reserved are both bad only rejection is required"),
 "C15": ("fault_enumeration", "5/C15",
   "record-level fault placement: every subset of positions (k<=5) / PRNG subsets (k<=10) of independently generated good records replaced by bad records of 9 badness kinds; strict receiver; error list compared with the expected one in order",
   "Ok iff no bad record and first-AVP rule holds; otherwise one attributable error per bad record in wire order; terminal records hide later ones.",
   "trusted base: the model's classification of generated records"),
 "C18": ("exploration", "5/C18",
   "seeded operation histories against reference cursor / Vec models, checked operation by operation; dev and release worker processes",
   "Boundary-biased histories (0, remaining-1, remaining, remaining+1, usize::MAX; overwrites touching the last octet and out of range) on SliceReader and VecWriter.",
   "out-of-range overwrite counts as refused when it unwinds or leaves the buffer unchanged"),
 "C19": ("exploration", "5/C19",
   "fd 1/2 capture in isolated worker processes; permuted/repeated call histories; shuttle seeded random + PCT thread schedules; Miri many-seeds preemption with data-race detection",
   "Silence observed on the real file descriptors per call; statelessness over recorded histories; thread-independence under controlled schedulers (call granularity with shuttle, mid-call with Miri).",
   "shuttle has no scheduling point inside a codec call; Miri scenario is small"),
 "C20": ("fault_enumeration", "5/C20",
   "single-fault injection per (fault kind x AVP kind) on valid reference-sender traffic, exact expected error; every error rendered; closing sweep of all 65536 attribute numbers for the three variants that carry one",
   "Exact variant and offending value for each single fault; Display terminates, is non-empty and names the kind the decoder actually dispatches to (whole-token match).",
   "first-position unknown message type, InvalidAVPLength payload and bad proxy-authen variant deliberately not asserted"),
}

checks = []
for pid in sorted(P):
    cat, ref, tech, text, note = P[pid]
    checks.append({
        "property_id": pid,
        "quick_cmd": f"./check {pid} --tier quick",
        "thorough_cmd": f"./check {pid} --tier thorough",
        "evidence_file": f"/verif/evidence/{pid}.json",
        "replay_cmd_template": "./check replay {path}",
        "engine": "rl2tp-dst",
        "level_claimed": {"category": cat, "text": text, "design_ref": f"DESIGN.md section {ref}"},
        "level_note": note,
        "technique": "deterministic simulation with fault injection: " + tech + ENV,
    })

manifest = {
    "version": 1,
    "setup_cmd": "./check build",
    "hooks": {
        "guard": "rl2tp_verif",
        "enable": "none needed: every observation point is reachable through the public API and the public Reader/Writer traits; checks build /repo as a plain path dependency (RUSTFLAGS unchanged)",
        "baseline_off_cmd": "cd /repo && cargo test --workspace --no-fail-fast --offline",
        "source_commits": [],
        "add_only": True,
    },
    "engines": [{
        "name": "rl2tp-dst",
        "path": "/verif/sim",
        "serves_properties": sorted(P),
        "kind_free_text": "hand-written deterministic simulator: one PRNG (VERIF_SEED), Reader/Writer seams, seeded channel with fault catalogue, reference model as foreign peer and oracle, process-isolated workers (fd capture, signal capture) in dev and release profile, minimiser, replay files; side crates sim/threads (shuttle) and sim/miri for C19",
    }],
    "checks": checks,
    "not_applicable": [
        {"property_id": "C16", "reason": "Six finite lookup tables and two pure accessors: no stream, peer, fault, history, schedule or configuration; the property text itself says it is decided completely by enumerating 6 x 65536 values, which is exhaustive testing, a different technique. Wire-visible half exercised incidentally by C05/C06/C20, not claimed."},
        {"property_id": "C17", "reason": "Pure functions on a 4-element domain per kind (constructor/accessor naming never touches a stream) plus 32-bit preservation that is already an instance of C03/C05/C06/C10; decided completely only by enumeration, a different technique. Its pinned-tree defect (Bearer Capabilities) surfaced under C06 and is repaired."},
    ],
    "notes": "All checks honour VERIF_SEED and VERIF_TIER; exit 0 clean, 1 violation (VIOLATION line + replay file under /verif/replays), 2 harness error. C03, C04, C06, C07, C11, C12 have no transport-fault dimension (level_claimed.text says so); their injected dimensions are execution environments and seam behaviours.",
}
with open(os.path.join(ROOT, "MANIFEST.json"), "w") as f:
    json.dump(manifest, f, indent=1)
    f.write("\n")
print("wrote MANIFEST.json with", len(checks), "checks")
