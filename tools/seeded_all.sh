#!/bin/bash
# Evaluate every sub-agent worktree under /tmp/seed (see tools/seeded.py).
# ONLY="C03 C07" restricts to those properties.
cd "$(dirname "$0")/.."
for spec in "C01-offset-guard-lenient C01" "C02-vendor-skip-count C02" "C03-repeated-message-type C03" "C04-offset-u16-trunc C04" "C05-reserved-inside-version C05" "C06-zero-offset-flag C06" "C07-avp-length-u16-cast C07" "C08-offset-pad-extent-clamp C08" "C09-length-position-u16 C09" "C10-result-msg-strip-nul C10" "C11-align-pad-extra-block C11" "C12-align-pad-extra-block C12" "C13-reveal-len-off-by-one-clamped C13" "C14-control-guard-offset-bit C14" "C15-hidden-vendor-accepted C15" "C18-bytes-refusal-drains C18" "C19-threadlocal-scratch-leftover C19" "C20-hidden-vendor-not-named C20"; do
  set -- $spec
  if [ -n "${ONLY:-}" ] && [[ " $ONLY " != *" $2 "* ]]; then continue; fi
  echo "=== $1"
  python3 tools/seeded.py eval $1 $2 /tmp/seed/$2 2>&1 | grep -v WARNING | tail -4 | cut -c1-900
done
echo ALLDONE
