#!/bin/bash
# Evaluate sub-agent worktrees (see tools/seeded.py).
#   tools/seeded_all.sh 1|2        round 1 (/tmp/seed) or round 2 (/tmp/seed2)
#   ONLY="C03 C07" restricts to those properties; SEEDED_CHECKS=C02,C09 restricts the
#   checks that are run against each change (its own property's check always runs).
cd "$(dirname "$0")/.."
ROUND="${1:-1}"
if [ "$ROUND" = "1" ]; then
  ROOT=/tmp/seed
  SPECS="C01-offset-guard-lenient:C01 C02-vendor-skip-count:C02 C03-repeated-message-type:C03 C04-offset-u16-trunc:C04 C05-reserved-inside-version:C05 C06-zero-offset-flag:C06 C07-avp-length-u16-cast:C07 C08-offset-pad-extent-clamp:C08 C09-length-position-u16:C09 C10-result-msg-strip-nul:C10 C11-align-pad-extra-block:C11 C12-align-pad-extra-block:C12 C13-reveal-len-off-by-one-clamped:C13 C14-control-guard-offset-bit:C14 C15-hidden-vendor-accepted:C15 C18-bytes-refusal-drains:C18 C19-threadlocal-scratch-leftover:C19 C20-hidden-vendor-not-named:C20"
elif [ "$ROUND" = "3" ]; then
  ROOT=/tmp/seed3
  SPECS="C01-control-length-u16-add-overflow:C01 C02-reveal-chunk-granular-bound:C02 C03-resultcode-msg-fffd-rejected:C03 C04-data-length-patched-at-absolute-2:C04 C05-data-header-length-u16-wrap:C05 C06-length-member-12-drops-avps:C06 C07-writer-default-method-native-endian:C07 C08-control-guard-len-as-u16:C08 C09-backpatch-skipped-when-length-equals-end:C09 C10-encoder-refuses-exactly-65535:C10 C11-scratch-buffer-241-250-secret-panics:C11 C12-scratch-buffer-241-250-secret-truncates:C12 C13-resultcode-all-nul-message-panics:C13 C14-try-read-skips-optional-vendor-avps:C14 C15-greedy-stops-after-256-records:C15 C18-bytes-position-plus-length-overflow:C18 C19-secret-prefix-memo-keyed-by-address:C19 C20-q931-dangling-lead-octet-accepted:C20"
elif [ "$ROUND" = "13" ]; then
  ROOT=/tmp/seed13
  SPECS="${SPECS13:?set SPECS13}"
elif [ "$ROUND" = "12" ]; then
  ROOT=/tmp/seed12
  SPECS="C01-proxy-authen-id-guard-dropped-skip-before-helper:C01 C02-proxy-authen-id-guard-dropped-skip-before-helper-2:C02 C03-message-type-discriminants-off-by-one-after-13:C03 C04-data-header-buffer-holds-six-fields:C04 C05-message-type-list-omits-outgoing-call-reply:C05 C06-length-msb-mask-operator-precedence:C06 C07-avp-length-assert-bounds-payload-not-total:C07 C08-data-header-length-counter-misses-ns-nr:C08 C09-size-assert-on-absolute-writer-fill:C09 C10-encoder-flags-from-masks-length-msbs:C10 C11-hide-chunk-loop-accumulates-buffer:C11 C12-hide-keyed-context-accumulates-ciphertext:C12 C13-proxy-authen-id-guard-dropped-skip-before-helper-3:C13 C14-offset-arm-ignores-unused-option:C14 C15-length-overrun-guard-six-octets-lenient:C15 C18-refused-bytes-moves-cursor-to-end:C18 C19-reveal-md5-input-scratch-not-cleared:C19 C20-avp-name-table-swaps-12-and-13:C20"
elif [ "$ROUND" = "11" ]; then
  ROOT=/tmp/seed11
  SPECS="C01-avp-count-mean-window-reset-divides-by-zero:C01 C02-error-budget-lean-loop-without-length-guard:C02 C03-avp-count-stats-window-reset-divides-by-zero:C03 C04-session-stats-table-stale-insert-index:C04 C05-text-cache-recycled-slot-half-updated:C05 C06-retransmission-cache-keyed-by-ids-and-ns:C06 C07-staged-path-after-32-writes-wraps-length:C07 C08-result-slots-shared-round-robin-of-64:C08 C09-staged-path-after-32-writes-absolute-length:C09 C10-staging-review-truncates-live-payload:C10 C11-secret-state-table-recycles-stale-prefix:C11 C12-secret-state-table-recycled-entry-not-reset:C12 C13-buffer-pool-of-8-overflows:C13 C14-unused-option-parked-in-process-wide-atomic:C14 C15-undecodable-count-saturates-at-u16-max:C15 C18-vecwriter-presize-hint-truncates-first-append:C18 C19-vendor-report-limit-process-wide-counter:C19 C20-unassigned-name-table-recycled-slot-keeps-name:C20"
elif [ "$ROUND" = "10" ]; then
  ROOT=/tmp/seed10
  SPECS="C01-greedy-prealloc-from-reader-len-2:C01 C02-decode-stats-refcell-held-across-reader-calls:C02 C03-staging-lease-released-by-non-owner:C03 C04-data-header-fields-patched-at-absolute-positions:C04 C05-payload-via-bytes-refusal-not-skipped:C05 C06-control-length-patched-at-absolute-2:C06 C07-length-guard-in-drop-skipped-while-panicking:C07 C08-avp-area-via-bytes-refusal-loses-position:C08 C09-header-layout-memo-absolute-position:C09 C10-contended-scratch-fallback-length-two-short:C10 C11-first-digest-memo-stores-last-block:C11 C12-secret-prefix-md5-state-never-rekeyed:C12 C13-decode-stats-refcell-reveal-reentrant:C13 C14-validation-scope-cleared-by-nested-decode:C14 C15-payload-via-bytes-refusal-ends-list:C15 C18-overwrite-partial-before-refusal:C18 C19-accepted-flags-memo-ignores-options:C19 C20-decode-depth-counter-leaks-on-header-errors:C20"
elif [ "$ROUND" = "9" ]; then
  ROOT=/tmp/seed9
  SPECS="C01-accm-guard-after-reserved-skip:C01 C02-accm-guard-removed:C02 C03-q931-one-octet-advisory-dropped:C03 C04-zero-offset-field-omitted:C04 C05-reserved-mask-misses-bit-13:C05 C06-proxy-authen-type-pap-chap-swapped:C06 C07-avp-length-guard-after-u8-cast:C07 C08-hidden-avp-takes-rest-of-list:C08 C09-avp-positions-as-u16:C09 C10-number-avps-trim-trailing-nul:C10 C11-reveal-chunks-forward-order:C11 C12-align-pad-extra-block-3:C12 C13-call-errors-guard-forgets-reserved:C13 C14-reserved-mask-misses-bit-3-half-open-range:C14 C15-q931-bad-utf8-advisory-dropped:C15 C18-overwrite-zip-truncates-2:C18 C19-reveal-scratch-not-cleared:C19 C20-q931-unfinished-utf8-tail-accepted:C20"
elif [ "$ROUND" = "8" ]; then
  ROOT=/tmp/seed8
  SPECS="C01-resultcode-error-guard-is-empty:C01 C02-resultcode-error-guard-is-empty-2:C02 C03-resultcode-bare-error-code-rejected:C03 C04-data-header-length-ignores-offset-pad:C04 C05-resultcode-bare-error-code-dropped:C05 C06-data-flags-priority-offset-swapped:C06 C07-control-length-from-writer-end:C07 C08-data-header-length-ignores-offset-pad-2:C08 C09-size-guard-on-absolute-end-position:C09 C10-bearer-type-encoder-masks-reserved-bits:C10 C11-reveal-merged-guard-total-length:C11 C12-align-pad-extra-block-2:C12 C13-reveal-upper-bound-two-octets-generous:C13 C14-reserved-mask-misses-bit-3:C14 C15-hidden-vendor-accepted-3:C15 C18-overwrite-zip-truncates:C18 C19-digest-scratch-not-cleared-on-reveal-error:C19 C20-hidden-vendor-not-named-2:C20"
elif [ "$ROUND" = "7" ]; then
  ROOT=/tmp/seed7
  SPECS="C01-optional-bbf-vendor-avp-skipped-in-header-reader:C01 C02-first-avp-fast-path-bound-from-list-length:C02 C03-link-probe-ids-return-bare-header:C03 C04-header-length-u16-sum-overflow-without-length:C04 C05-access-line-rate-vendor-avp-silently-skipped:C05 C06-repeated-random-vector-omitted:C06 C07-private-group-id-get-length-capacity:C07 C08-tolerated-microsoft-vendor-avp-not-skipped:C08 C09-next-avp-start-left-by-zlb:C09 C10-vendor-name-null-placeholder-emptied:C10 C11-xor-chunk-skips-zero-key-words:C11 C12-hide-reversibility-assert-on-empty-optional-text:C12 C13-hex-secret-notation-odd-digits:C13 C14-priority-quirk-table-speedstream:C14 C15-hello-fast-path-reversed-constant:C15 C18-subreader-bytes-checked-against-parent-slice:C18 C19-spill-buffer-lock-per-digest:C19 C20-reveal-remaps-incomplete-avp:C20"
elif [ "$ROUND" = "6" ]; then
  ROOT=/tmp/seed6
  SPECS="C01-avp-outcome-position-u16:C01 C02-greedy-consumed-count-u32:C02 C03-last-avp-block-memo-fnv32:C03 C04-lcp-echo-request-forced-priority:C04 C05-last-payload-memo-fnv32:C05 C06-retransmission-block-keyed-by-vec-address:C06 C07-avp-scratch-not-cleared-after-idle-shrink:C07 C08-retransmission-memo-fnv32-same-ids:C08 C09-open-frame-ring-of-four:C09 C10-recent-payloads-table-fnv32:C10 C11-zero-ciphertext-chunk-taken-for-first:C11 C12-reveal-used-chunks-clamped-to-u16:C12 C13-counters-mutex-poisoned-by-writer-panic:C13 C14-hot-header-credit-counter-carry:C14 C15-trailing-text-fffd-via-lossy:C15 C18-empty-overwrite-beyond-end-accepted:C18 C19-last-revealed-memo-stores-cleartext:C19 C20-unassigned-name-memo-out-of-step:C20"
elif [ "$ROUND" = "5" ]; then
  ROOT=/tmp/seed5
  SPECS="C01-greedy-prealloc-from-reader-len:C01 C02-threadlocal-payload-measured-flag-reentrant:C02 C03-writer-position-u32:C03 C04-offset-pad-via-fallible-bytes:C04 C05-trailing-text-bytes0-on-exhausted-reader:C05 C06-deferred-field-position-u32:C06 C07-header-patch-skipped-while-panicking:C07 C08-fastpath-fallback-subreader-two-octets-long:C08 C09-payload-scratch-not-cleared-after-unwind:C09 C10-payload-staging-leftover-after-refused-encode:C10 C11-keyed-md5-cache-fnv32-fingerprint:C11 C12-hide-scratch-leftover-after-refused-hide:C12 C13-digest-scratch-tls-destroyed-at-thread-exit:C13 C14-unused-option-via-threadlocal-reentrant-reader:C14 C15-remaining-octets-as-u16:C15 C18-slicereader-take-u32:C18 C19-hidden-uninit-after-declined-bytes:C19 C20-header-guard-remaining-as-u16:C20"
elif [ "$ROUND" = "4" ]; then
  ROOT=/tmp/seed4
  SPECS="C01-q931-strip-terminator-char-boundary:C01 C02-data-header-mask-admits-reserved-bit:C02 C03-hidden-type36-len4-decoded-as-random-vector:C03 C04-data-encoder-refuses-exactly-65535:C04 C05-resultcode-msg-fffd-rejected-2:C05 C06-lcp-confreq-header-stripped:C06 C07-resultcode-general-error-default-error-code:C07 C08-zlb-fast-path-leaves-pad:C08 C09-last-header-atomic-race:C09 C10-rx-speed-dropped-when-equal-to-tx:C10 C11-hide-length-from-get-length-chars:C11 C12-secret-prefix-cache-prefix-compare:C12 C13-reveal-inline-buffer-239-240:C13 C14-version-exemption-for-opening-sccrq:C14 C15-zero-header-ends-list-silently:C15 C18-overwrite-refusal-not-atomic:C18 C19-error-report-hashset-order:C19 C20-nonmandatory-avp-errors-swallowed:C20"
else
  ROOT=/tmp/seed2
  SPECS="C01-resultcode-error-guard-weakened:C01 C02-stale-length-offset-check:C02 C03-avp-count-bound-8-octets:C03 C04-zero-offset-flag-omitted:C04 C05-hidden-vendor-accepted-2:C05 C06-header-length-from-get-length-chars:C06 C07-encoder-trusts-nonzero-length:C07 C08-reserved-flag-bit-leaks-into-length:C08 C09-length-bits-from-page-difference:C09 C10-zlb-stale-length:C10 C11-reveal-rejects-empty-value:C11 C12-hide-length-subfield-layout:C12 C13-reveal-lower-bound-lost:C13 C14-unused-rejects-slack-octets:C14 C15-unknown-avp-without-m-dropped:C15 C18-overwrite-at-zero-saturating-guard:C18 C19-global-strict-reserved-switch:C19 C20-bare-error-type-not-read:C20"
fi
# JOBS=n evaluates n changes at a time (each has its own worktree, target and shadow).
JOBS="${JOBS:-1}"
for spec in $SPECS; do
  name="${spec%%:*}"; prop="${spec##*:}"
  if [ -n "${ONLY:-}" ] && [[ " $ONLY " != *" $prop "* ]]; then continue; fi
  (
    out=$(python3 tools/seeded.py eval "$name" "$prop" "$ROOT/$prop" ${SEEDED_CHECKS:+--checks $SEEDED_CHECKS} 2>&1 | grep -v WARNING | tail -4 | cut -c1-900)
    printf '=== %s\n%s\n' "$name" "$out"
  ) &
  while [ "$(jobs -rp | wc -l)" -ge "$JOBS" ]; do sleep 1; done
done
wait
echo ALLDONE
