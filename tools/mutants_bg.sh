#!/bin/bash
cd "$(dirname "$0")/.."
VERIF_SCRATCH=/tmp/rl2tp-mutants-bg python3 tools/mutants.py run 2>&1 | grep -v WARNING
echo ALLDONE
