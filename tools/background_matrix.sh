#!/bin/bash
# 1. seeded changes against the checks as they were before any feedback
# 2. the full mutant matrix (all checks)
cd "$(dirname "$0")/.."
python3 tools/seeded_before_feedback.py 9501b01 2>&1 | grep -v WARNING
VERIF_SCRATCH=/tmp/rl2tp-mutants-bg python3 tools/mutants.py run --all-checks 2>&1 | grep -v WARNING
echo ALLDONE
