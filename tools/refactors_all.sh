#!/bin/bash
cd "$(dirname "$0")/.."
for spec in R1-control-and-avp-list-decoding R2-data-message-and-flags R3-encoders-lengths-up-front R4-hide-reveal-restructured R5-slice-reader-vec-writer-safe R6-avp-type-codecs-unified; do
  r="${spec%%-*}"
  echo "=== $spec"
  python3 tools/refactors.py eval "$spec" /tmp/refac/$r 2>&1 | grep -v WARNING | tail -8 | cut -c1-900
done
echo ALLDONE
