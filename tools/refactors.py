#!/usr/bin/env python3
"""Behaviour-preserving refactorings written by independent sub-agents (given
all property texts, told to keep every property true): every check must stay
silent on them.

  tools/refactors.py eval <name> <worktree>

Archives /verif/refactors/<name>/{patch.diff, NOTES.md, meta.json}.
"""
import json, os, re, shutil, subprocess, sys, time
VERIF = os.path.dirname(os.path.dirname(os.path.abspath(__file__)))
ALL = ["C01","C02","C03","C04","C05","C06","C07","C08","C09","C10","C11","C12","C13","C14","C15","C18","C19","C20"]

def sh(cmd, cwd=None, env=None, timeout=7200):
    e = dict(os.environ); e.update(env or {})
    p = subprocess.run(cmd, cwd=cwd, env=e, shell=isinstance(cmd, str), stdout=subprocess.PIPE, stderr=subprocess.STDOUT, timeout=timeout)
    return p.returncode, p.stdout.decode(errors="replace")

def main():
    name, src = sys.argv[2], sys.argv[3]
    outdir = os.path.join(VERIF, "refactors", name)
    os.makedirs(outdir, exist_ok=True)
    sh("git add -N src", cwd=src)
    rc, diff = sh("git diff -- src", cwd=src)
    open(os.path.join(outdir, "patch.diff"), "w").write(diff)
    if os.path.exists(os.path.join(src, "NOTES.md")):
        shutil.copy(os.path.join(src, "NOTES.md"), os.path.join(outdir, "NOTES.md"))
    base = "/tmp/refacverify"
    wt = os.path.join(base, name)
    os.makedirs(base, exist_ok=True)
    sh(["git", "-C", "/repo", "worktree", "remove", "--force", wt])
    rc, out = sh(["git", "-C", "/repo", "worktree", "add", "--detach", "-f", wt, "HEAD"])
    rc, o = sh(["git", "apply", os.path.join(outdir, "patch.diff")], cwd=wt)
    if rc != 0:
        print("patch does not apply", o); sys.exit(2)
    tgt = os.path.join(base, "target-" + name)
    rc, out = sh("cargo test --workspace --no-fail-fast --offline 2>&1", cwd=wt, env={"CARGO_TARGET_DIR": tgt})
    lines = re.findall(r"test result: \w+\. \d+ passed; \d+ failed", out)
    meta = {"name": name, "lines_changed": diff.count("\n+") + diff.count("\n-"), "test_results": lines,
            "baseline_ok": any("98 passed; 0 failed" in l for l in lines) and all(" 0 failed" in l for l in lines),
            "alarms": [], "clean": [], "harness_errors": []}
    env = {"VERIF_REPO": wt, "VERIF_SHADOW": os.path.join(base, "shadow-" + name)}
    for c in ALL:
        rc, out = sh([os.path.join(VERIF, "check"), c, "--tier", "quick", "--no-evidence"], cwd=VERIF, env=env)
        if rc == 1:
            sigs = re.findall(r"oracle=(\S+) class=(\S+)", out)
            det = re.findall(r"(?:minimised|first seen):\s+(.*)", out)
            meta["alarms"].append({"check": c, "signatures": [f"{a}/{b}" for a, b in sigs][:5], "detail": [d[:500] for d in det[:2]]})
        elif rc == 0:
            meta["clean"].append(c)
        else:
            meta["harness_errors"].append({"check": c, "tail": out[-400:]})
    meta["verdict"] = "silent" if not meta["alarms"] and not meta["harness_errors"] else "ALARM"
    json.dump(meta, open(os.path.join(outdir, "meta.json"), "w"), indent=1)
    print(json.dumps({k: meta[k] for k in ("name", "baseline_ok", "verdict", "lines_changed")}))
    for a in meta["alarms"]:
        print("ALARM", a["check"], a["signatures"], a["detail"][:1])
    for h in meta["harness_errors"]:
        print("HARNESS", h)
    sh(["git", "-C", "/repo", "worktree", "remove", "--force", wt])
    shutil.rmtree(tgt, ignore_errors=True)
    shutil.rmtree(os.path.join(base, "shadow-" + name), ignore_errors=True)

if __name__ == "__main__":
    main()
