#!/bin/bash
# Re-run every check (quick tier) against the archived behaviour-preserving
# refactorings (refactors/<name>/patch.diff applied to a scratch worktree of
# /repo's HEAD). Writes refactors/RECHECK.json (OUT=...); CHECKS="C01 C02" restricts the checks.
cd "$(dirname "$0")/.."
OUT=${OUT:-refactors/RECHECK.json}
echo "{" > $OUT.tmp
first=1
for d in refactors/R*/; do
  name=$(basename $d)
  wt=/tmp/refac-recheck/wt
  rm -rf $wt; mkdir -p /tmp/refac-recheck
  git -C /repo worktree add -q --detach -f $wt HEAD || continue
  (cd $wt && git apply "$OLDPWD/$d/patch.diff") || { echo "APPLY FAIL $name"; git -C /repo worktree remove --force $wt; continue; }
  alarms=""
  for c in ${CHECKS:-C01 C02 C03 C04 C05 C06 C07 C08 C09 C10 C11 C12 C13 C14 C15 C18 C19 C20}; do
    VERIF_REPO=$wt VERIF_SHADOW=/tmp/refac-recheck/shadow ./check $c --no-evidence > /tmp/refac-recheck/out.txt 2>&1
    rc=$?
    if [ $rc -ne 0 ]; then alarms="$alarms $c(rc=$rc)"; grep -E "oracle=" /tmp/refac-recheck/out.txt | head -2; fi
  done
  echo "$name alarms:[$alarms ]"
  [ $first -eq 1 ] || echo "," >> $OUT.tmp
  first=0
  echo "\"$name\": \"${alarms# }\"" >> $OUT.tmp
  git -C /repo worktree remove --force $wt
  rm -rf /tmp/refac-recheck/shadow
done
echo "}" >> $OUT.tmp
mv $OUT.tmp $OUT
rm -rf /tmp/refac-recheck
echo ALLDONE
