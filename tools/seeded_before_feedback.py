#!/usr/bin/env python3
"""How would the checks have fared WITHOUT the workload strengthening done in
response to the sub-agents' reports?  Runs the target property's quick check
of an OLD /verif commit (default 9501b01: before any seeded change had been
seen) against every archived seeded patch.

  tools/seeded_before_feedback.py [commit]
Writes seeded/BEFORE_FEEDBACK.json.
"""
import json, os, glob, subprocess, sys, shutil
VERIF = os.path.dirname(os.path.dirname(os.path.abspath(__file__)))
commit = sys.argv[1] if len(sys.argv) > 1 else "9501b01"
old = "/tmp/verif-before-feedback"
def sh(cmd, cwd=None, env=None):
    e = dict(os.environ); e.update(env or {})
    p = subprocess.run(cmd, cwd=cwd, env=e, shell=isinstance(cmd, str), stdout=subprocess.PIPE, stderr=subprocess.STDOUT)
    return p.returncode, p.stdout.decode(errors="replace")
sh(["git", "-C", VERIF, "worktree", "remove", "--force", old])
rc, out = sh(["git", "-C", VERIF, "worktree", "add", "--detach", "-f", old, commit])
assert rc == 0, out
res = {}
outp = os.path.join(VERIF, "seeded", "BEFORE_FEEDBACK.json")
if os.path.exists(outp):
    res = json.load(open(outp)).get("results", {})
for m in sorted(glob.glob(os.path.join(VERIF, "seeded", "*", "meta.json"))):
    d = json.load(open(m))
    name, prop = d["name"], d["property"]
    if name in res:
        continue
    wt = "/tmp/seedverify-old/" + name
    os.makedirs("/tmp/seedverify-old", exist_ok=True)
    sh(["git", "-C", "/repo", "worktree", "remove", "--force", wt])
    sh(["git", "-C", "/repo", "worktree", "add", "--detach", "-f", wt, "HEAD"])
    rc, o = sh(["git", "apply", os.path.join(os.path.dirname(m), "patch.diff")], cwd=wt)
    if rc != 0:
        res[name] = {"property": prop, "error": "patch does not apply"}
        continue
    rc, o = sh([os.path.join(old, "check"), prop, "--tier", "quick", "--no-evidence"], cwd=old,
               env={"VERIF_REPO": wt, "VERIF_SHADOW": "/tmp/seedverify-old/shadow", "VERIF_ROOT": old})
    res[name] = {"property": prop, "exit": rc, "caught_by_target_check_before_feedback": rc == 1}
    print(name, prop, "exit", rc, flush=True)
    sh(["git", "-C", "/repo", "worktree", "remove", "--force", wt])
    json.dump({"verif_commit": commit, "results": res}, open(outp, "w"), indent=1)
shutil.rmtree("/tmp/seedverify-old", ignore_errors=True)
sh(["git", "-C", VERIF, "worktree", "remove", "--force", old])
print("done")
