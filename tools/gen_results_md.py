#!/usr/bin/env python3
"""Regenerates the catch matrices inside DESIGN.md (between the
<!-- BEGIN:... --> / <!-- END:... --> markers) from mutants/RESULTS.json and
seeded/*/meta.json."""
import json, os, glob, re

ROOT = os.path.dirname(os.path.dirname(os.path.abspath(__file__)))

def mutants_table():
    p = os.path.join(ROOT, "mutants", "RESULTS.json")
    if not os.path.exists(p):
        return "(no results yet)\n"
    rs = json.load(open(p))
    lines = ["| id | edit | 98 tests | expected | checks that alarm (quick tier) | verdict |", "|---|---|---|---|---|---|"]
    for r in sorted(rs, key=lambda r: r["id"]):
        al = ", ".join(a["check"] for a in r["alarms"]) or "-"
        lines.append(f"| {r['id']} | {r['note']} | {r['tests']} | {','.join(r['expected']) or 'silent'} | {al} | {r['verdict']} |")
    n_break = sum(1 for r in rs if r["expected"])
    n_caught = sum(1 for r in rs if r["expected"] and r["verdict"].startswith("caught"))
    n_silent = sum(1 for r in rs if not r["expected"])
    n_quiet = sum(1 for r in rs if not r["expected"] and r["verdict"].startswith("silent"))
    lines.append("")
    lines.append(f"Summary: {n_caught}/{n_break} breaking edits caught by a check of an expected property; {n_quiet}/{n_silent} behaviour-preserving edits raise no alarm anywhere.")
    return "\n".join(lines) + "\n"

def seeded_table():
    rows = []
    before = {}
    bp = os.path.join(ROOT, "seeded", "BEFORE_FEEDBACK.json")
    if os.path.exists(bp):
        before = json.load(open(bp)).get("results", {})
    bp2 = os.path.join(ROOT, "seeded", "BEFORE_FEEDBACK_LATER_ROUNDS.json")
    if os.path.exists(bp2):
        before.update(json.load(open(bp2)).get("results", {}))
    for m in sorted(glob.glob(os.path.join(ROOT, "seeded", "*", "meta.json"))):
        d = json.load(open(m))
        al = ", ".join(f"{a['check']} ({a['signatures'][0] if a['signatures'] else ''})" for a in d.get("alarms", [])) or "-"
        b = before.get(d['name'], {})
        v = b.get("caught_by_target_check_before_feedback") if b else None
        bf = "?" if v is None else ("yes" if v else "no")
        rows.append(f"| {d['name']} | {d['property']} | {d.get('needs', '')} | {'yes' if d.get('confirmed') else 'NO'} | {al} | {'yes' if d.get('caught_by_target_property_check') else ('other check only' if d.get('caught_by_any_check') else 'MISSED')} | {bf} |")
    if not rows:
        return "(none yet)\n"
    n = len(rows)
    nb = sum(1 for r in rows if r.rstrip().endswith("| yes |"))
    nn = sum(1 for r in rows if r.rstrip().endswith("| no |"))
    now = sum(1 for r in rows if "| yes | yes |" in r or "| yes | no |" in r or "| yes | ? |" in r)
    tail = f"\nOf {n} confirmed changes (thirteen rounds), {now} are caught by the targeted property's own check as it stands. The last column says what that check did BEFORE it had been extended in response to the change's round (rounds 1-3: re-run of commit 9501b01 against the archived patches; rounds 4-13: observed directly at the time): {nb} caught, {nn} not caught, the rest not measured at that point. Every 'no' is a gap that the round closed (Deviations 4, 6, 8, 8a-8j).\n" if before else ""
    return "\n".join(["| change | property | needs, to manifest | confirmed (98+3 tests pass, demo fails / passes without) | checks that alarm now (quick tier; all 18 run for rounds 1-9, the property's own check plus C02, C09 and C19 for rounds 10-13) | caught by its property's check now | ... and by that check before it was extended in response |", "|---|---|---|---|---|---|---|"] + rows) + "\n" + tail

def refactors_table():
    rows = []
    for m in sorted(glob.glob(os.path.join(ROOT, "refactors", "*", "meta.json"))):
        d = json.load(open(m))
        al = ", ".join(a["check"] for a in d.get("alarms", [])) or "none"
        rows.append(f"| {d['name']} | {d.get('lines_changed', '?')} | {'98 + 3 pass' if d.get('baseline_ok') else 'FAIL'} | {al} | {d.get('verdict')} |")
    if not rows:
        return "(none yet)\n"
    return "\n".join(["| refactoring | diff lines | baseline tests | checks that alarm (quick tier, all 18 run) | verdict |", "|---|---|---|---|---|"] + rows) + "\n"

def main():
    p = os.path.join(ROOT, "DESIGN.md")
    s = open(p).read()
    for tag, fn in (("MUTANTS", mutants_table), ("SEEDED", seeded_table), ("REFACTORS", refactors_table)):
        b, e = f"<!-- BEGIN:{tag} -->", f"<!-- END:{tag} -->"
        if b in s and e in s:
            s = s[:s.index(b) + len(b)] + "\n" + fn() + s[s.index(e):]
    open(p, "w").write(s)
    print("DESIGN.md tables regenerated")

if __name__ == "__main__":
    main()
