#!/usr/bin/env python3
"""Adds the 'needs' field (what the change needs in order to manifest, from
the sub-agent's NOTES.md) and the provenance to every seeded/<name>/meta.json."""
import json, os, glob
ROOT = os.path.dirname(os.path.dirname(os.path.abspath(__file__)))
NEEDS = {
 "C01-offset-guard-lenient": "data message with O bit whose Offset Size exceeds the octets after the field by exactly 1 or 2 (e.g. 40 20 00 07 00 09 00 04 a0 a1 a2)",
 "C02-vendor-skip-count": "two AVPs in one list: a vendor-specific AVP with P payload octets, then an AVP whose length overruns the real remainder by 1..P",
 "C03-repeated-message-type": "a control message with a second Message Type AVP at index >= 1",
 "C04-offset-u16-trunc": "data message without L, O bit set, at least 65536 octets after the offset field and offset size > (len mod 65536)",
 "C05-reserved-inside-version": "options reserved=Yes with version=No and a reserved header bit set",
 "C06-zero-offset-flag": "data message encoded with offset == Some(0)",
 "C07-avp-length-u16-cast": "AVP::write on a value whose encoded size is >= 65536 and <= 1023 modulo 65536",
 "C08-offset-pad-extent-clamp": "data message with L and O, non-zero offset padding, and at least one octet after the declared end in the same reader",
 "C09-length-position-u16": "control message encoded into a writer already holding >= 65534 octets",
 "C10-result-msg-strip-nul": "Result Code error message ending in two or more NUL octets (or being a lone NUL)",
 "C11-align-pad-extra-block": "hide with 2+|payload|+|lp| == 1008 followed by encoding the hidden AVP",
 "C12-align-pad-extra-block": "hide with 2+|payload|+|lp| an exact multiple of 16",
 "C13-reveal-len-off-by-one-clamped": "hidden value whose first two octets decrypt to exactly |v|+5 (payload one octet longer than what follows)",
 "C14-control-guard-offset-bit": "control message with the O bit, unused check off, buffer of exactly 12 or 13 octets (ZLB plus at most one trailing octet)",
 "C15-hidden-vendor-accepted": "a non-first AVP record with both the H bit and a non-zero vendor id",
 "C18-bytes-refusal-drains": "bytes(n > remaining) followed by any further operation on the same reader",
 "C19-threadlocal-scratch-leftover": "a control decode rejected with ControlMessageTypeNotFirst, then any control decode on the same thread",
 "C20-hidden-vendor-not-named": "vendor-id fault on an AVP that also has the H bit",
 "C01-resultcode-error-guard-weakened": "Result Code AVP with a 3-octet value (result code plus one stray octet)",
 "C02-stale-length-offset-check": "data message with O bit whose Offset Size exceeds what follows by at most the header octets already consumed (6..12)",
 "C03-avp-count-bound-8-octets": "at least four Sequencing Required (6-octet) AVPs not offset by slack from larger AVPs",
 "C04-zero-offset-flag-omitted": "data message encoded with offset == Some(0), then decoded (payload grows by 00 00)",
 "C05-hidden-vendor-accepted-2": "one AVP header with both the H bit and a non-zero vendor id",
 "C06-header-length-from-get-length-chars": "Result Code AVP whose error message contains a multi-byte UTF-8 character",
 "C07-encoder-trusts-nonzero-length": "ControlMessage whose length field is non-zero and differs from its true size (decoded then modified, slack in Length, or stale)",
 "C08-reserved-flag-bit-leaks-into-length": "AVP with reserved flag bit 0x20 set, length bit 7 clear, followed by at least 128 more octets in the same list",
 "C09-length-bits-from-page-difference": "an AVP whose octets end at or cross a multiple of 256 counted from the start of the writer",
 "C10-zlb-stale-length": "control message with no AVPs whose Length is 13..=17 (padding inside Length), decoded then re-encoded",
 "C11-reveal-rejects-empty-value": "hide/reveal of Sequencing Required (the only kind with an empty value, stored original length exactly 6)",
 "C12-hide-length-subfield-layout": "hide of an AVP whose value is >= 250 octets (original length >= 256)",
 "C13-reveal-lower-bound-lost": "hidden value whose first two octets decrypt to 0..=5",
 "C14-unused-rejects-slack-octets": "control message whose Length covers 1-5 octets beyond the last AVP, decoded with unused=Yes",
 "C15-unknown-avp-without-m-dropped": "AVP record with unknown attribute type and the M bit clear",
 "C18-overwrite-at-zero-saturating-guard": "write_bytes_at(bytes, 0) with bytes.len() > writer.len()",
 "C19-global-strict-reserved-switch": "an AVP with a reserved header flag bit, and both reserved=Yes and reserved=No in use in the process (call sequence or thread interleaving)",
 "C20-bare-error-type-not-read": "Result Code AVP with exactly 4 payload octets and an error type outside 0..=8, not in first position",
}
for m in glob.glob(os.path.join(ROOT, "seeded", "*", "meta.json")):
    d = json.load(open(m))
    d["needs"] = NEEDS.get(d["name"], d.get("needs", ""))
    d["provenance"] = "written by an independent sub-agent given only the property text and a scratch worktree of /repo (nothing from /verif)"
    json.dump(d, open(m, "w"), indent=1)
print("needs added")
