#!/usr/bin/env python3
"""Adds the 'needs' field (what the change needs in order to manifest, from
the sub-agent's NOTES.md) and the provenance to every seeded/<name>/meta.json."""
import json, os, glob
ROOT = os.path.dirname(os.path.dirname(os.path.abspath(__file__)))
NEEDS = {
 "C01-offset-guard-lenient": "data message with O bit whose Offset Size exceeds the octets after the field by exactly 1 or 2 (e.g. 40 20 00 07 00 09 00 04 a0 a1 a2)",
 "C02-vendor-skip-count": "two AVPs in one list: a vendor-specific AVP with P payload octets, then an AVP whose length overruns the real remainder by 1..P",
 "C03-repeated-message-type": "a control message with a second Message Type AVP at index >= 1",
 "C04-offset-u16-trunc": "data message without L, O bit set, at least 65536 octets after the offset field and offset size > (len mod 65536)",
 "C05-reserved-inside-version": "options reserved=Yes with version=No and a reserved header bit set",
 "C06-zero-offset-flag": "data message encoded with offset == Some(0)",
 "C07-avp-length-u16-cast": "AVP::write on a value whose encoded size is >= 65536 and <= 1023 modulo 65536",
 "C08-offset-pad-extent-clamp": "data message with L and O, non-zero offset padding, and at least one octet after the declared end in the same reader",
 "C09-length-position-u16": "control message encoded into a writer already holding >= 65534 octets",
 "C10-result-msg-strip-nul": "Result Code error message ending in two or more NUL octets (or being a lone NUL)",
 "C11-align-pad-extra-block": "hide with 2+|payload|+|lp| == 1008 followed by encoding the hidden AVP",
 "C12-align-pad-extra-block": "hide with 2+|payload|+|lp| an exact multiple of 16",
 "C13-reveal-len-off-by-one-clamped": "hidden value whose first two octets decrypt to exactly |v|+5 (payload one octet longer than what follows)",
 "C14-control-guard-offset-bit": "control message with the O bit, unused check off, buffer of exactly 12 or 13 octets (ZLB plus at most one trailing octet)",
 "C15-hidden-vendor-accepted": "a non-first AVP record with both the H bit and a non-zero vendor id",
 "C18-bytes-refusal-drains": "bytes(n > remaining) followed by any further operation on the same reader",
 "C19-threadlocal-scratch-leftover": "a control decode rejected with ControlMessageTypeNotFirst, then any control decode on the same thread",
 "C20-hidden-vendor-not-named": "vendor-id fault on an AVP that also has the H bit",
 "C01-resultcode-error-guard-weakened": "Result Code AVP with a 3-octet value (result code plus one stray octet)",
 "C02-stale-length-offset-check": "data message with O bit whose Offset Size exceeds what follows by at most the header octets already consumed (6..12)",
 "C03-avp-count-bound-8-octets": "at least four Sequencing Required (6-octet) AVPs not offset by slack from larger AVPs",
 "C04-zero-offset-flag-omitted": "data message encoded with offset == Some(0), then decoded (payload grows by 00 00)",
 "C05-hidden-vendor-accepted-2": "one AVP header with both the H bit and a non-zero vendor id",
 "C06-header-length-from-get-length-chars": "Result Code AVP whose error message contains a multi-byte UTF-8 character",
 "C07-encoder-trusts-nonzero-length": "ControlMessage whose length field is non-zero and differs from its true size (decoded then modified, slack in Length, or stale)",
 "C08-reserved-flag-bit-leaks-into-length": "AVP with reserved flag bit 0x20 set, length bit 7 clear, followed by at least 128 more octets in the same list",
 "C09-length-bits-from-page-difference": "an AVP whose octets end at or cross a multiple of 256 counted from the start of the writer",
 "C10-zlb-stale-length": "control message with no AVPs whose Length is 13..=17 (padding inside Length), decoded then re-encoded",
 "C11-reveal-rejects-empty-value": "hide/reveal of Sequencing Required (the only kind with an empty value, stored original length exactly 6)",
 "C12-hide-length-subfield-layout": "hide of an AVP whose value is >= 250 octets (original length >= 256)",
 "C13-reveal-lower-bound-lost": "hidden value whose first two octets decrypt to 0..=5",
 "C14-unused-rejects-slack-octets": "control message whose Length covers 1-5 octets beyond the last AVP, decoded with unused=Yes",
 "C15-unknown-avp-without-m-dropped": "AVP record with unknown attribute type and the M bit clear",
 "C18-overwrite-at-zero-saturating-guard": "write_bytes_at(bytes, 0) with bytes.len() > writer.len()",
 "C19-global-strict-reserved-switch": "an AVP with a reserved header flag bit, and both reserved=Yes and reserved=No in use in the process (call sequence or thread interleaving)",
 "C20-bare-error-type-not-read": "Result Code AVP with exactly 4 payload octets and an error type outside 0..=8, not in first position",
 "C01-control-length-u16-add-overflow": "control message decoded from a byte string of at least 65536 octets (e.g. a whole 64 KiB receive buffer)",
 "C02-reveal-chunk-granular-bound": "hidden value of exactly 16n octets whose first two octets decrypt to 16n+5 or 16n+6",
 "C03-resultcode-msg-fffd-rejected": "Result Code error message containing the code point U+FFFD",
 "C04-data-length-patched-at-absolute-2": "data message with a length field written into a writer that already holds earlier output",
 "C05-data-header-length-u16-wrap": "data message with L and O, Offset Size >= 65526 (buffer beyond 64 KiB) and a small Length",
 "C06-length-member-12-drops-avps": "control message with at least one AVP whose ignored length member is exactly 12",
 "C07-writer-default-method-native-endian": "control message or hide through a Writer other than VecWriter that relies on the trait's provided method, on a little-endian host",
 "C08-control-guard-len-as-u16": "control message decoded while at least 65536 octets remain in the reader after its header, with (P + trailing) mod 65536 < P",
 "C09-backpatch-skipped-when-length-equals-end": "control message written at writer offset k > 0 whose stale length member equals exactly k plus its true length",
 "C10-encoder-refuses-exactly-65535": "an accepted control message whose canonical re-encoding is exactly 65535 octets",
 "C11-scratch-buffer-241-250-secret-panics": "shared secret of 241-250 octets and a hidden value of at least two blocks",
 "C12-scratch-buffer-241-250-secret-truncates": "shared secret of 241-250 octets and a hidden value of at least two blocks, compared with an independent construction",
 "C13-resultcode-all-nul-message-panics": "hidden Result Code whose error message consists only of NUL octets",
 "C14-try-read-skips-optional-vendor-avps": "Message::try_read (not try_read_validate) on a control message holding a vendor-specific AVP with the M bit clear",
 "C15-greedy-stops-after-256-records": "control message with at least 257 AVP records and something to report at record index >= 256",
 "C18-bytes-position-plus-length-overflow": "bytes(n) with n > usize::MAX - position on a reader that has been advanced",
 "C19-secret-prefix-memo-keyed-by-address": "two multi-block hide/reveal calls on one thread whose secret slices have the same address and length but different contents",
 "C20-q931-dangling-lead-octet-accepted": "Q.931 Cause Code advisory that is valid UTF-8 except for an unfinished lead sequence at the very end",
}
for m in glob.glob(os.path.join(ROOT, "seeded", "*", "meta.json")):
    d = json.load(open(m))
    d["needs"] = NEEDS.get(d["name"], d.get("needs", ""))
    d["provenance"] = "written by an independent sub-agent given only the property text and a scratch worktree of /repo (nothing from /verif)"
    json.dump(d, open(m, "w"), indent=1)
print("needs added")
