#!/bin/bash
# Run the thorough tier of every check once (no evidence written), for timing
# and to confirm silence on the unchanged tree at depth.
cd "$(dirname "$0")/.."
for p in ${CHECKS:-C14 C20 C15 C10 C06 C03 C08 C09 C11 C12 C04 C05 C07 C13 C18 C19 C02 C01}; do
  /usr/bin/time -f "$p total %es maxrss %MKB" ./check $p --tier thorough ${EXTRA:---no-evidence} 2>&1 | grep -E "^C[0-9]+:|total|VIOLATION|HARNESS|NOTE|  oracle" | cut -c1-300
done
echo ALLDONE
