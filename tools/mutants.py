#!/usr/bin/env python3
"""Sensitivity set: deliberate property-breaking edits (and behaviour-preserving
'silent' refactors) of rl2tp, each applied to a scratch git worktree of /repo's
HEAD (never to /repo itself), which must (i) still compile and pass the 98
baseline tests and (ii) be reported by the quick tier of the property it breaks
-- or, for silent rows, be reported by nothing.

  tools/mutants.py list
  tools/mutants.py run [ids...] [--all-checks] [--lanes N]
  tools/mutants.py export          write mutants/<id>.patch for every row

Results: mutants/RESULTS.json and mutants/RESULTS.md (committed).
"""
import json, os, subprocess, sys, shutil, time, re

VERIF = os.path.dirname(os.path.dirname(os.path.abspath(__file__)))
REPO = "/repo"
SCRATCH = os.environ.get("VERIF_SCRATCH", "/tmp/rl2tp-mutants")

A = "src/message/avp.rs"
CM = "src/message/control_message.rs"
DM = "src/message/data_message.rs"
M = "src/message.rs"
H = "src/message/avp/header.rs"
FL = "src/message/flags.rs"
SR = "src/common/slice_reader.rs"
VW = "src/common/vec_writer.rs"
T = "src/message/avp/types/"

# (id, expected properties (any of them must alarm; [] = silent), [(file, old, new)], note)
MUTANTS = [
 ("m01", ["C01", "C02"], [(CM, "if reader.len() < FIXED_LENGTH_MINUS_FLAGS {", "if reader.len() < FIXED_LENGTH_MINUS_FLAGS - 1 {")],
  "control header guard 10 -> 9 octets"),
 ("m02", ["C01"], [(CM, "if (length as usize) < FIXED_LENGTH {", "if false && (length as usize) < FIXED_LENGTH {")],
  "drop the Length < 12 rejection again"),
 ("m03", ["C01", "C02"], [(A, "if header.payload_length as usize > reader.len() {", "if header.payload_length as usize > reader.len() + 1 {")],
  "AVP payload guard off by one"),
 ("m04", ["C01", "C02"], [(DM, "if reader.len() < offset_size as usize {", "if false && reader.len() < offset_size as usize {")],
  "drop the offset-size guard"),
 ("m05", ["C02", "C01"], [(T + "message_type.rs", "if reader.len() < Self::LENGTH {", "if reader.len() < 1 {")],
  "Message Type minimum-length guard 2 -> 1"),
 ("m06", ["C02", "C01"], [(T + "call_errors.rs", "if reader.len() < Self::LENGTH {", "if reader.len() < 24 {")],
  "Call Errors decoder guard 26 -> 24"),
 ("m07", ["C08", "C05", "C03"], [(A, """                let mut subreader = reader.subreader(header.payload_length as usize);
                decode_avp(header.attribute_type, &mut subreader)""",
   """                let before = reader.len();
                let r = decode_avp(header.attribute_type, reader);
                let used = before - reader.len();
                if used < header.payload_length as usize {
                    reader.skip_bytes(header.payload_length as usize - used);
                }
                r""")],
  "per-type decoder handed the parent reader instead of a confined sub-reader"),
 ("m08", ["C03", "C06", "C07"], [(A, "let msb = ((length >> 8) & 0x3) as u8;", "let msb = ((length >> 8) & 0x1) as u8;")],
  "encoder drops the highest AVP length bit"),
 ("m09", ["C03", "C05"], [(H, "let msb = (octet1 >> 6) as u16;", "let msb = (octet1 >> 7) as u16;")],
  "decoder drops the lower of the two high AVP length bits"),
 ("m10", ["C04", "C05", "C08"], [(DM, "payload_length = length as usize - header_length;", "payload_length = (length as usize - header_length).max(2) - 1;")],
  "data payload extent off by one when L is set"),
 ("m11", ["C04", "C05"], [(DM, "is_prioritized: flags.is_prioritized(),", "is_prioritized: false,")],
  "priority bit dropped again"),
 ("m12", ["C05", "C15", "C20"], [(T + "sub_address.rs", """        let value = std::str::from_utf8(data.borrow())
            .map_err(|_| DecodeError::InvalidUtf8(Self::ATTRIBUTE_TYPE))?
            .to_owned();""", """        let value = String::from_utf8_lossy(data.borrow()).into_owned();""")],
  "Sub-Address accepts invalid UTF-8 (lossy conversion)"),
 ("m13", ["C05", "C15"], [(A, "if header.vendor_id != 0 {", "if header.vendor_id != 0 && header.vendor_id != 9 {")],
  "vendor id 9 treated like vendor 0"),
 ("m14", ["C05", "C15", "C20"], [(T + "message_type.rs", "    6u16 => Hello,", "    5u16 => Hello,\n    6u16 => Hello,")],
  "unassigned message type 5 accepted as Hello"),
 ("m15", ["C06"], [(A, "const IS_MANDATORY: bool = true;", "const IS_MANDATORY: bool = false;")],
  "M bit no longer set by the encoder"),
 ("m16", ["C06"], [(T + "call_errors.rs", "writer.write_bytes(&[0x00, 0x00]);", "writer.write_bytes(&[0x00, 0x01]);")],
  "non-zero reserved octet written in Call Errors"),
 ("m17", ["C06"], [(T + "bearer_capabilities.rs", """        let da_bit = (digital_access_supported as u32) << 7;
        let aa_bit = (analog_access_supported as u32) << 6;""", """        let da_bit = (digital_access_supported as u32) << 6;
        let aa_bit = (analog_access_supported as u32) << 7;""")],
  "BearerCapabilities::new swapped again"),
 ("m18", ["C07"], [(T + "result_code.rs", """            if let Some(message) = &error.error_message {
                length += message.len()
            }""", "")],
  "get_length of Result Code forgets the message"),
 ("m19", ["C07"], [(A, """    fn make_flags_and_length(is_mandatory: bool, is_hidden: bool, length: usize) -> [u8; 2] {
        assert!(length <= Self::MAX_LENGTH as usize);
""", """    fn make_flags_and_length(is_mandatory: bool, is_hidden: bool, length: usize) -> [u8; 2] {
""")],
  "10-bit assert removed: AVP length silently masked"),
 ("m20", ["C07"], [(CM, "        assert!(length <= u16::MAX as usize);\n", "")],
  "16-bit assert removed: message Length wraps"),
 ("m21", ["C08", "C05"], [(CM, """        let mut avp_reader = reader.subreader(length as usize - FIXED_LENGTH);
        let avp_and_err = AVP::try_read_greedy(&mut avp_reader);""", """        let avp_and_err = AVP::try_read_greedy(reader);""")],
  "control AVPs parsed greedily from the parent reader to its end"),
 ("m22", ["C08", "C05"], [(DM, "payload_length = length as usize - header_length;", "payload_length = reader.len();")],
  "data payload = all remaining octets even when L is set"),
 ("m23", ["C09", "C03", "C06"], [(A, "writer.write_bytes_at(&flags_and_length, start_position);", "writer.write_bytes_at(&flags_and_length, 0);")],
  "AVP back-patch at absolute offset 0"),
 ("m24", ["C09"], [(CM, "writer.write_bytes_at(&(length as u16).to_be_bytes(), length_position);", "writer.write_bytes_at(&(length as u16).to_be_bytes(), 2);")],
  "message Length patched at absolute offset 2"),
 ("m25", ["C10", "C06", "C03", "C07"], [(CM, "writer.write_bytes_at(&(length as u16).to_be_bytes(), length_position);", "writer.write_bytes_at(&(if self.length as usize >= 12 { self.length } else { length as u16 }).to_be_bytes(), length_position);")],
  "encoder echoes the value's length field instead of the computed length"),
 ("m26", ["C10", "C06", "C03", "C07"], [(CM, "writer.write_bytes_at(&(length as u16).to_be_bytes(), length_position);", "writer.write_bytes_at(&(length.max(self.length as usize) as u16).to_be_bytes(), length_position);")],
  "encoder never shrinks the announced length"),
 ("m27", ["C11", "C12"], [(A, "for i in (1..n_chunks).rev() {", "for i in 1..n_chunks {")],
  "reveal walks blocks first-to-last (wrong from 3 blocks on)"),
 ("m28", ["C12"], [(A, "let chunk_padding_length = (chunk_size - (input.len() % chunk_size)) % chunk_size;", "let chunk_padding_length = chunk_size - (input.len() % chunk_size);")],
  "hide pads a full extra block when already aligned"),
 ("m29", ["C11", "C12"], [(A, "if payload_length as usize > reader.len() {", "if payload_length as usize >= reader.len() {")],
  "reveal rejects a value that exactly fills its blocks"),
 ("m30", ["C12"], [(A, """                buffer.extend_from_slice(&attribute_type_octets);
                buffer.extend_from_slice(secret);
                buffer.extend_from_slice(&random_vector.value);""", """                buffer.extend_from_slice(secret);
                buffer.extend_from_slice(&attribute_type_octets);
                buffer.extend_from_slice(&random_vector.value);"""),
   (A, """            buffer.extend_from_slice(&hidden.attribute_type.to_be_bytes());
            buffer.extend_from_slice(secret);
            buffer.extend_from_slice(&random_vector.value);""", """            buffer.extend_from_slice(secret);
            buffer.extend_from_slice(&hidden.attribute_type.to_be_bytes());
            buffer.extend_from_slice(&random_vector.value);""")],
  "both sides hash (secret, type, RV) for the first block"),
 ("m31", ["C12"], [(A, """                    buffer.clear();
                    buffer.extend_from_slice(secret);

                    // Loop over chunks
                    for i in 1..n_chunks {""", """                    buffer.clear();

                    // Loop over chunks
                    for i in 1..n_chunks {"""),
   (A, """                        buffer.truncate(secret.len());

                        // The intermediate value for a given chunk is MD5(secret + previous chunk)
                        buffer.extend_from_slice(&input[prev_chunk_start..chunk_start]);""", """                        buffer.truncate(0);

                        // The intermediate value for a given chunk is MD5(secret + previous chunk)
                        buffer.extend_from_slice(&input[prev_chunk_start..chunk_start]);"""),
   (A, """                // The shared secret is a prefix for all chunks except the first one, so set it once for the entire loop
                buffer.extend_from_slice(secret);

                // Loop over chunks in reverse order""", """                // Loop over chunks in reverse order"""),
   (A, """                    buffer.truncate(secret.len());

                    // The intermediate value for a given chunk is MD5(secret + previous chunk)
                    buffer.extend_from_slice(&chunk_data[prev_chunk_start..chunk_start]);""", """                    buffer.truncate(0);

                    // The intermediate value for a given chunk is MD5(secret + previous chunk)
                    buffer.extend_from_slice(&chunk_data[prev_chunk_start..chunk_start]);""")],
  "both sides omit the secret from later blocks"),
 ("m32", ["C13"], [(A, """            if payload_length as usize > reader.len() {
                return Err(DecodeError::InvalidOriginalAVPLength(total_length));
            }
""", "")],
  "drop reveal's length-fits check again"),
 ("m33", ["C13"], [(A, """            if chunk_data.len() % chunk_size != 0 {
                return Err(DecodeError::MisalignedHiddenAVP);
            }
""", "")],
  "drop reveal's multiple-of-16 check"),
 ("m34", ["C14"], [(M, """            ValidationOptions {
                reserved: ValidateReserved::No,
                version: ValidateVersion::Yes,
                unused: ValidateUnused::No,
            },""", """            ValidationOptions {
                reserved: ValidateReserved::Yes,
                version: ValidateVersion::Yes,
                unused: ValidateUnused::No,
            },""")],
  "try_read default also validates reserved bits"),
 ("m35", ["C14", "C05"], [(FL, "[0, 1, 2, 3, 10, 11, 13]", "[0, 1, 2, 3, 10, 11]")],
  "reserved-bit set loses bit 13"),
 ("m36", ["C14", "C04", "C05"], [(M, "        match flags.get_type() {", """        if let ValidateUnused::Yes = validation_options.unused {
            if flags.is_prioritized() {
                return Err(vec![DecodeError::ForbiddenControlMessagePriority]);
            }
        }

        match flags.get_type() {""")],
  "unused-field (priority) check applied to data messages too"),
 ("m37", ["C15", "C05"], [(A, """                reader.skip_bytes(header.payload_length as usize);
                continue;""", """                reader.skip_bytes(header.payload_length as usize);
                break;""")],
  "parsing stops after a vendor-specific record"),
 ("m38", ["C15"], [(CM, "return Err(avp_and_err.into_iter().filter_map(|x| x.err()).collect());", "return Err(avp_and_err.into_iter().filter_map(|x| x.err()).take(1).collect());")],
  "only the first error is returned"),
 ("m39", ["C15", "C05"], [(A, "                result.push(Err(DecodeError::UnsupportedVendorId(header.vendor_id)));\n", "")],
  "vendor-specific records silently skipped"),
 ("m40", ["C18"], [(VW, "assert!(offset + bytes.len() <= self.data.len());", "assert!(offset + bytes.len() < self.data.len());")],
  "write_bytes_at refuses an overwrite touching the last octet"),
 ("m41", ["C18"], [(SR, """        let result = self.data.get(..length)?;
        self.data = &self.data[length..];
        Some(result)""", """        let result = self.data.get(..length);
        self.data = &self.data[length..];
        result""")],
  "bytes(n > remaining) panics again"),
 ("m42", ["C18", "C08", "C05", "C03"], [(SR, """        let new_reader = SliceReader::from(&self.data[..length]);""", """        if length == 0 {
            return SliceReader::from(self.data);
        }
        let new_reader = SliceReader::from(&self.data[..length]);""")],
  "subreader(0) returns a reader over the whole rest"),
 ("m43", ["C19"], [(CM, "if avp_and_err.iter().any(|x| x.is_err()) {", """if avp_and_err.iter().any(|x| {
            println!("{x:?}");
            x.is_err()
        }) {""")],
  "println! back in control decoding"),
 ("m44", ["C19"], [(A, "x => Err(DecodeError::UnknownAvp(x))?,", """x => {
            eprintln!("unknown AVP {x}");
            Err(DecodeError::UnknownAvp(x))?
        }""")],
  "eprintln! on the unknown-AVP path"),
 ("m45", ["C19", "C12", "C11"], [(A, """                let buffer_length =
                    Self::ATTRIBUTE_TYPE_SIZE + secret.len() + random_vector.value.len();
                let mut buffer = Vec::with_capacity(buffer_length);

                // The first intermediate value is MD5(Attribute type + secret + RV)""", """                static SCRATCH: std::sync::Mutex<Vec<u8>> = std::sync::Mutex::new(Vec::new());
                let mut scratch = SCRATCH.lock().unwrap_or_else(|e| e.into_inner());
                let buffer: &mut Vec<u8> = &mut scratch;
                if !secret.is_empty() {
                    buffer.clear();
                }

                // The first intermediate value is MD5(Attribute type + secret + RV)""")],
  "static scratch buffer reused by hide, not cleared when the secret is empty"),
 ("m46", ["C19", "C14", "C05"], [(M, """        let flags = Flags::read(reader).map_err(|x| vec![x])?;
""", """        let flags = Flags::read(reader).map_err(|x| vec![x])?;
        thread_local! {
            static LAST_VERSION: std::cell::Cell<u8> = const { std::cell::Cell::new(2) };
        }
        // "fast path": a peer that just sent a bad version is rejected early
        let last = LAST_VERSION.with(|c| c.replace(flags.get_version()));
        if last == 7 && flags.get_version() != 2 {
            return Err(vec![DecodeError::InvalidVersion(flags.get_version())]);
        }
""")],
  "thread_local memo of the last version nibble consulted on the next call"),
 ("m47", ["C20"], [(A, """        12u16 => "Q931CauseCode",
        13u16 => "ChallengeResponse",""", """        12u16 => "ChallengeResponse",
        13u16 => "Q931CauseCode",""")],
  "name table: 12 and 13 swapped"),
 ("m48", ["C20", "C15"], [(T + "vendor_name.rs", ".map_err(|_| DecodeError::InvalidUtf8(Self::ATTRIBUTE_TYPE))?", ".map_err(|_| DecodeError::InvalidUtf8(7))?")],
  "Vendor Name reports InvalidUtf8(7)"),
 ("m49", ["C20", "C15"], [(A, "x => Err(DecodeError::UnknownAvp(x))?,", "x => Err(DecodeError::UnknownAvp(reader.len() as u16))?,")],
  "UnknownAvp carries the payload length instead of the type"),
 # ---- silent rows: behaviour-preserving or property-neutral changes ----
 ("s01", [], [(M, """        if let ValidateVersion::Yes = validation_options.version {
            let version = flags.get_version();
            if version != Self::PROTOCOL_VERSION {
                return Err(vec![DecodeError::InvalidVersion(version)]);
            }
        }

        if let ValidateReserved::Yes = validation_options.reserved {
            if !flags.reserved_bits_ok() {
                return Err(vec![DecodeError::InvalidReservedBits]);
            }
        }
""", """        if let ValidateReserved::Yes = validation_options.reserved {
            if !flags.reserved_bits_ok() {
                return Err(vec![DecodeError::InvalidReservedBits]);
            }
        }

        if let ValidateVersion::Yes = validation_options.version {
            let version = flags.get_version();
            if version != Self::PROTOCOL_VERSION {
                return Err(vec![DecodeError::InvalidVersion(version)]);
            }
        }
""")],
  "version check moved after the reserved check"),
 ("s02", [], [(T + "framing_capabilities.rs", "SEDALL:data", "bits")],
  "private field of FramingCapabilities renamed (Debug output changes)"),
 ("s03", [], [(SR, """macro_rules! read_buf_unchecked {
    ( $data:expr, $n:expr ) => {{
        let result = $data.get_unchecked(..$n);
        $data = &$data[$n..];
        result.try_into().unwrap_unchecked()
    }};
}""", """macro_rules! read_buf_unchecked {
    ( $data:expr, $n:expr ) => {{
        let (head, tail) = $data.split_at($n);
        $data = tail;
        head.try_into().unwrap()
    }};
}"""),
   (SR, """        let result = self.data.get_unchecked(0);
        self.data = &self.data[1..];
        *result""", """        let result = self.data[0];
        self.data = &self.data[1..];
        result""")],
  "SliceReader rewritten with checked indexing / split_at"),
 ("s04", [], [(T + "message_type.rs", """        match MESSAGE_CODE_TO_TYPE.get(&id) {
            Some(&t) => Ok(t),
            None => Err(DecodeError::UnknownMessageType(id)),
        }""", """        Ok(match id {
            1 => StartControlConnectionRequest,
            2 => StartControlConnectionReply,
            3 => StartControlConnectionConnected,
            4 => StopControlConnectionNotification,
            6 => Hello,
            7 => OutgoingCallRequest,
            8 => OutgoingCallReply,
            9 => OutgoingCallConnected,
            10 => IncomingCallRequest,
            11 => IncomingCallReply,
            12 => IncomingCallConnected,
            14 => CallDisconnectNotify,
            15 => WanErrorNotify,
            16 => SetLinkInfo,
            _ => return Err(DecodeError::UnknownMessageType(id)),
        })""")],
  "phf lookup replaced by a match"),
 ("s05", [], [(CM, """        if (length as usize) < FIXED_LENGTH {
            return Err(vec![DecodeError::IncompleteControlMessageHeader]);
        }""", """        if (length as usize) < FIXED_LENGTH {
            return Err(vec![DecodeError::IncompleteControlMessagePayload]);
        }"""),
   (H, ".ok_or(DecodeError::InvalidAVPLength(length))?;", ".ok_or(DecodeError::IncompleteAVP(attribute_type))?;"),
   (T + "proxy_authen_type.rs", ".map_err(|_| DecodeError::IncompleteAVP(Self::ATTRIBUTE_TYPE))", ".map_err(|_| DecodeError::UnknownAvp(Self::ATTRIBUTE_TYPE))")],
  "different DecodeError variants for Length < 12, AVP length < 6 and a bad proxy-authen code"),
 ("m50", ["C18"], [(SR, """        let result = self.data.get(..length)?;
        self.data = &self.data[length..];
        Some(result)""", """        let result = match self.data.get(..length) {
            Some(r) => r,
            None => {
                self.data = &self.data[self.data.len()..];
                return None;
            }
        };
        self.data = &self.data[length..];
        Some(result)""")],
  "a refused bytes(n) consumes the rest instead of nothing (was a silent row while C18 read the property loosely; see Deviations 4)"),
 ("s07", [], [(T + "bearer_capabilities.rs", """        let da_bit = (digital_access_supported as u32) << 7;
        let aa_bit = (analog_access_supported as u32) << 6;""", """        let da_bit = (digital_access_supported as u32) << 6;
        let aa_bit = (analog_access_supported as u32) << 7;"""),
   (T + "bearer_capabilities.rs", """    pub fn is_analog_access_supported(&self) -> bool {
        ((self.data >> 6) & 0x1) != 0
    }

    pub fn is_digital_access_supported(&self) -> bool {
        ((self.data >> 7) & 0x1) != 0
    }""", """    pub fn is_analog_access_supported(&self) -> bool {
        ((self.data >> 7) & 0x1) != 0
    }

    pub fn is_digital_access_supported(&self) -> bool {
        ((self.data >> 6) & 0x1) != 0
    }""")],
  "Bearer Capabilities repaired on the accessor side instead of the constructor side"),
 ("s08", [], [(A, "let mut buffer = Vec::with_capacity(buffer_length);", "let _ = buffer_length;\n                let mut buffer = Vec::new();"),
   (CM, "    #[inline]\n    pub(crate) fn write(", "    pub(crate) fn write(")],
  "capacity hint and an #[inline] removed"),
]

def sh(cmd, cwd=None, env=None, timeout=3600):
    e = dict(os.environ)
    if env:
        e.update(env)
    p = subprocess.run(cmd, cwd=cwd, env=e, shell=isinstance(cmd, str), stdout=subprocess.PIPE, stderr=subprocess.STDOUT, timeout=timeout)
    return p.returncode, p.stdout.decode(errors="replace")

def apply(row, wt):
    mid, expect, edits, note = row
    for (f, old, new) in edits:
        path = os.path.join(wt, f)
        s = open(path).read()
        if old.startswith("SEDALL:"):
            word = old[len("SEDALL:"):]
            s2 = re.sub(r"\b%s\b" % re.escape(word), new, s)
            # keep the public 'data'-named things intact: only this file's private field
            if s2 == s:
                raise SystemExit(f"{mid}: nothing to rename in {f}")
            open(path, "w").write(s2)
            continue
        n = s.count(old)
        if n < 1:
            raise SystemExit(f"{mid}: pattern not found in {f}: {old[:60]!r}")
        # replace the first occurrence only unless the edit list repeats it
        s = s.replace(old, new, 1)
        open(path, "w").write(s)

def ensure_wt(lane):
    wt = os.path.join(SCRATCH, f"wt{lane}")
    if not os.path.isdir(wt):
        os.makedirs(SCRATCH, exist_ok=True)
        rc, out = sh(["git", "-C", REPO, "worktree", "add", "--detach", "-f", wt, "HEAD"])
        if rc != 0:
            raise SystemExit(out)
    sh(["git", "checkout", "-q", "--detach", subprocess.check_output(["git", "-C", REPO, "rev-parse", "HEAD"]).decode().strip()], cwd=wt)
    sh("git checkout -q -- . && git clean -fdq -e target", cwd=wt)
    return wt

ALL_CHECKS = ["C01","C02","C03","C04","C05","C06","C07","C08","C09","C10","C11","C12","C13","C14","C15","C18","C19","C20"]

def run_one(row, lane, all_checks):
    mid, expect, edits, note = row
    wt = ensure_wt(lane)
    apply(row, wt)
    rc, diff = sh("git diff", cwd=wt)
    os.makedirs(os.path.join(VERIF, "mutants"), exist_ok=True)
    open(os.path.join(VERIF, "mutants", f"{mid}.patch"), "w").write(diff)
    res = {"id": mid, "note": note, "expected": expect, "tests": None, "alarms": [], "clean": [], "harness_errors": []}
    t0 = time.time()
    rc, out = sh("cargo test --workspace --no-fail-fast --offline 2>&1 | grep -E '^test result|error(\\[|:)' | head -5", cwd=wt,
                 env={"CARGO_TARGET_DIR": os.path.join(SCRATCH, f"tests-target{lane}")})
    ok = "test result: ok. 98 passed" in out
    res["tests"] = "98 passed" if ok else out.strip()[:300]
    checks = ALL_CHECKS if (all_checks or not expect) else list(expect)
    env = {"VERIF_REPO": wt, "VERIF_SHADOW": os.path.join(SCRATCH, f"shadow{lane}")}
    for c in checks:
        rc, out = sh([os.path.join(VERIF, "check"), c, "--tier", "quick", "--no-evidence"], cwd=VERIF, env=env)
        if rc == 1:
            sigs = re.findall(r"oracle=(\S+) class=(\S+)", out)
            res["alarms"].append({"check": c, "signatures": [f"{a}/{b}" for a, b in sigs][:4]})
        elif rc == 0:
            res["clean"].append(c)
        else:
            res["harness_errors"].append({"check": c, "out": out[-400:]})
    res["seconds"] = round(time.time() - t0, 1)
    if expect:
        res["verdict"] = "caught" if any(a["check"] in expect for a in res["alarms"]) else "MISSED"
    else:
        res["verdict"] = "silent" if not res["alarms"] else "FALSE-ALARM"
    if not ok:
        res["verdict"] += " (baseline tests do not pass: not a valid mutant)"
    sh("git checkout -q -- .", cwd=wt)
    return res

def main():
    args = sys.argv[1:]
    if not args or args[0] == "list":
        for m in MUTANTS:
            print(m[0], ",".join(m[1]) or "silent", "-", m[3])
        return
    if args[0] == "export":
        wt = ensure_wt(0)
        for row in MUTANTS:
            sh("git checkout -q -- .", cwd=wt)
            apply(row, wt)
            rc, diff = sh("git diff", cwd=wt)
            open(os.path.join(VERIF, "mutants", f"{row[0]}.patch"), "w").write(diff)
        sh("git checkout -q -- .", cwd=wt)
        print("exported", len(MUTANTS))
        return
    if args[0] == "run":
        all_checks = "--all-checks" in args
        ids = [a for a in args[1:] if not a.startswith("--")]
        rows = [m for m in MUTANTS if not ids or m[0] in ids]
        results = []
        outp = os.path.join(VERIF, "mutants", "RESULTS.json")
        prev = {}
        if os.path.exists(outp):
            try:
                prev = {r["id"]: r for r in json.load(open(outp))}
            except Exception:
                prev = {}
        for row in rows:
            r = run_one(row, 0, all_checks)
            print(json.dumps({k: r[k] for k in ("id", "verdict", "tests", "alarms", "seconds")}), flush=True)
            prev[r["id"]] = r
            json.dump([prev[k] for k in sorted(prev)], open(outp, "w"), indent=1)
        write_md(prev)
        return

def write_md(res):
    lines = ["# Sensitivity results (tools/mutants.py)", "",
             "Each row: a deliberate edit of rl2tp applied to a scratch worktree; the 98 baseline tests must still pass; the quick tier of the listed checks is run against it.", "",
             "| id | edit | baseline tests | expected | alarms (check: oracle/class) | verdict |", "|---|---|---|---|---|---|"]
    for k in sorted(res):
        r = res[k]
        al = "; ".join(f"{a['check']}: {', '.join(a['signatures'][:2])}" for a in r["alarms"]) or "-"
        lines.append(f"| {r['id']} | {r['note']} | {r['tests']} | {','.join(r['expected']) or 'silent'} | {al} | {r['verdict']} |")
    open(os.path.join(VERIF, "mutants", "RESULTS.md"), "w").write("\n".join(lines) + "\n")

if __name__ == "__main__":
    main()
